"""Shared correspondence for the checker-cluster properties (C01, C02, C08, C09, C13, C14, C16, C18).

One case = one decorated callable (any kind, sync/async, a chain of classes with own and inherited
contracts, invariants around it), one call and the behaviour of every piece of user code.  The
implementation runs the rendered case (real decorators in a real file); the model evaluates the
same case inside Coq; the property's executable statement (Spec/CheckerOracle.v - the predicate its
soundness theorem is about) is evaluated on the implementation's observation."""
import collections
import glob
import json
import os
import random

import common as C
import gen_checker as G
import render_checker

HEADER = ("From ICV Require Import Base Bind Checker CheckerCase CheckerSpec CheckerOracle.\n"
          "Open Scope string_scope.\nOpen Scope list_scope.\n")
MODEL_FILES = ["Model/Base.v", "Model/Bind.v", "Model/Checker.v", "Spec/CheckerCase.v", "Spec/CheckerSpec.v",
               "Spec/CheckerOracle.v"]


def case_key(case):
    return json.dumps(case, sort_keys=True)


def shape_of(case, obs):
    """Coarse class of a case for the distribution printed into the evidence."""
    o = obs["outcome"]
    out = o[0] if o[0] == "ret" else o[1][0] + (":" + o[1][1] if o[1][0] == "lib" else "")
    return "%s/%s/L%d/%s" % (case["kind"], "async" if case["async"] else "sync", len(case["levels"]), out)


def nontrivial(case, obs):
    """A case is non-trivial if the call did not simply pass: some contract was falsy or raised, a
    contract was inherited, a snapshot was captured, or the callable is not a plain sync function."""
    ev = obs["events"]
    return (obs["outcome"][0] == "raise" or len(case["levels"]) > 1 or any(e[0] == "capture" for e in ev)
            or case["kind"] != "function" or case["async"])


def load_corpus(prop):
    cases = []
    for path in sorted(glob.glob(os.path.join(C.VERIF, "corpus", prop, "chk-*.json"))):
        with open(path) as fh:
            cases.append(json.load(fh)["case"])
    return cases


def observe(cases, chunk=400):
    payloads = [{"cases": cases[i:i + chunk]} for i in range(0, len(cases), chunk)]
    obs = []
    for r in C.run_impl_parallel("impl_checker.py", payloads):
        obs.extend(r)
    return obs


# a spec with a class of cases in which its failure is a recorded finding: spec -> (Coq predicate on the case, finding id)
KNOWN_CLASS = {"spec_C03_call": ("kf_C03_setter_class", "kf_C03_setter_via_setattr")}


def evaluate(cases, obs, specs):
    """codes per case: [disagree, spec_1 fails on impl, ..., spec_n fails on impl, spec_1 fails on model, ...];
    a spec code is 0 = holds, 1 = fails, 3 = fails inside the class of a recorded finding"""
    terms = []

    def code(s, t):
        if s in KNOWN_CLASS:
            return "if %s c (fst %s) (snd %s) then 0 else if %s c then 3 else 1" % (s, t, t, KNOWN_CLASS[s][0])
        return "if %s c (fst %s) (snd %s) then 0 else 1" % (s, t, t)
    for c, o in zip(cases, obs):
        impl = " ; ".join(code(s, "o") for s in specs)
        mod = " ; ".join(code(s, "mo") for s in specs)
        terms.append("(let c := %s in let o := %s in let mo := run_case c in "
                     "[if obs_eqb mo o then 0 else 1 ; %s ; %s])%%Z" % (G.cq_case(c), G.cq_obs(o), impl, mod))
    return C.coq_eval_lists(HEADER, terms, name="ck", chunk=120)


def model_observation(case):
    """The model's observation of one case as printed by Coq (for replay files)."""
    import subprocess
    wd = C.workdir()
    fn = os.path.join(wd, "one_case.v")
    with open(fn, "w") as fh:
        fh.write(HEADER + "Eval vm_compute in run_case (%s)%%Z.\n" % G.cq_case(case))
    p = subprocess.run(["coqc", "-Q", C.COQ, "ICV", fn], capture_output=True, text=True, cwd=wd)
    return " ".join(p.stdout.split())[:6000]


def begin(prop, tier, cone, props_file):
    """Regenerate + build, fill the proof part of the evidence. Returns (outcome, build, problems)."""
    out = C.Outcome(prop, tier)
    build = C.regenerate_and_build()
    problems = C.proof_section(out, build, cone, props_file)
    return out, build, problems


def run(prop, tier, cone, props_file, specs, gen_cases, nquick, nthorough, rule, replay=None, design_note=""):
    out, build, problems = begin(prop, tier, cone, props_file)
    run_into(out, build, problems, prop, tier, specs, gen_cases, nquick, nthorough, rule, replay, design_note)
    return out.finish()


def run_into(out, build, problems, prop, tier, specs, gen_cases, nquick, nthorough, rule, replay=None, design_note=""):
    rng = random.Random(C.seed() * 7919 + sum(map(ord, prop)))
    if not build.ok_for(MODEL_FILES):
        out.violation("the executable model does not build: " + "; ".join(problems),
                      {"problems": problems, "log": build.log[-3000:]}, found_input=False)
        return
    if replay:
        with open(replay) as fh:
            cases = [json.load(fh)["case"]]
        ncorpus = 0
    else:
        corpus = load_corpus(prop)
        ncorpus = len(corpus)
        n = nquick if tier == "quick" else nthorough
        cases = corpus + gen_cases(rng, n)
    obs = observe(cases)
    defn_errors = [(c, o) for c, o in zip(cases, obs) if "defn_error" in o]
    live = [(c, o) for c, o in zip(cases, obs) if "defn_error" not in o]
    codes = evaluate([c for c, _ in live], [o for _, o in live], specs)
    ns = len(specs)
    disagreements, spec_fail, model_fail = [], [], []
    known_hits, known_example = collections.Counter(), {}
    shapes = collections.Counter()
    distinct = set()
    for (c, o), code in zip(live, codes):
        shapes[shape_of(c, o)] += 1
        if nontrivial(c, o):
            distinct.add(json.dumps([o["events"], o["outcome"]], sort_keys=True))
        if code[0]:
            disagreements.append((c, o))
        for i in range(ns):
            if code[1 + i] == 3:
                known_hits[specs[i]] += 1
                known_example.setdefault(specs[i], (c, o))
            elif code[1 + i]:
                spec_fail.append((specs[i], c, o))
            if code[1 + ns + i] == 1:
                model_fail.append((specs[i], c, o))
    kf = C.load_known_findings()
    listed = {f["id"]: f for f in kf.get("findings", []) if f["property"] == prop}
    for sname, n in known_hits.items():
        fid = KNOWN_CLASS[sname][1]
        if fid in listed:
            out.known_finding("%s (%d cases in the class on this run)" % (listed[fid]["what"], n))
        else:
            c, o = known_example[sname]
            out.violation("%s is false of the implementation's observation (in a class that is not a listed finding of "
                          "this property)" % sname,
                          {"case": c, "observation": o, "model_observation": model_observation(c),
                           "script": render_checker.render_case(0, c), "how": "./check %s --replay <this file>" % prop})
    for sname, c, o in spec_fail[:3]:
        out.violation("%s is false of the implementation's observation" % sname,
                      {"case": c, "observation": o, "model_observation": model_observation(c),
                       "script": render_checker.render_case(0, c), "how": "./check %s --replay <this file>" % prop})
    for c, o in defn_errors[:1]:
        out.violation("a generated program that the library should accept failed at definition time: %s" % o,
                      {"case": c, "observation": o, "script": render_checker.render_case(0, c)}, found_input=True)
    if model_fail:
        problems.append("the model's own observation does not satisfy %s (soundness theorem would be false)"
                        % model_fail[0][0])
    if (problems or disagreements) and not out.violations:
        what = "; ".join(problems + (["model and implementation disagree on %d case(s)" % len(disagreements)]
                                     if disagreements else []))
        payload = {"no_longer_checks": problems or ["correspondence Model/Checker.v <-> icontract._checkers wrappers"]}
        if disagreements:
            c, o = disagreements[0]
            payload.update({"case": c, "observation": o, "model_observation": model_observation(c),
                            "script": render_checker.render_case(0, c)})
        elif model_fail:
            payload.update({"case": model_fail[0][1]})
        out.violation(what, payload, found_input=False)
    samples = []
    for c, o in live[:2] + live[-1:]:
        samples.append({"kind": c["kind"], "async": c["async"], "levels": [[len(l["pre"]), len(l["snaps"]), len(l["post"])]
                                                                          for l in c["levels"]],
                        "invariants": len(c["invs"] or []), "events": [e[:3] for e in o["events"]],
                        "outcome": o["outcome"]})
    cov = out.coverage
    cov["evaluations"] = cov.get("evaluations", 0) + len(cases)
    cov["distinct_nontrivial"] = cov.get("distinct_nontrivial", 0) + len(distinct)
    cov["rule"] = (cov["rule"] + " || " if cov.get("rule") else "") + rule
    cov.setdefault("samples", []).extend(samples)
    cov["traces_validated_against_impl"] = cov.get("traces_validated_against_impl", 0) + len(live)
    cov.update({
        "vm_compute_cases": len(live),
        "corpus_cases": ncorpus,
        "disagreements": len(disagreements),
        "spec_failures_on_implementation": len(spec_fail),
        "known_finding_hits": dict(known_hits),
        "distribution": dict(shapes.most_common(60)),
        "specs": specs,
    })
    out.assumptions += ["user code is played from tables: conditions are functions of (id, store), deterministic",
                        "object identity is a tag; kwargs order is not compared"] + ([design_note] if design_note else [])
