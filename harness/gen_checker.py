"""Generator of checker-cluster cases and their rendering as Coq terms (Spec/CheckerCase.v)."""
import json

import common as C

KINDS = ["function", "method", "staticmethod", "classmethod", "prop_get", "prop_set", "prop_del", "init", "new"]
ASYNC_OK = {"function", "method", "staticmethod", "classmethod"}
INHERITABLE = {"method", "staticmethod", "classmethod", "prop_get", "prop_set", "prop_del"}
WITH_INVS = {"method", "prop_get", "prop_set", "prop_del", "init"}
RECEIVER = {"function": None, "staticmethod": None, "method": "self", "classmethod": "cls", "prop_get": "self",
            "prop_set": "self", "prop_del": "self", "init": "self", "new": "cls"}
RECV_VAL = {"self": ["o", 900], "cls": ["o", -1]}


def exc_tag(rng, base_only=None):
    cls = rng.choice([0, 0, 0, 1, 2, 3, 4]) if base_only is None else (rng.choice([1, 2, 3, 4]) if base_only else 0)
    k = rng.randrange(1, 40)
    if cls == 0 and rng.random() < 0.5:
        k = 3 * rng.randrange(1, 13)        # every third ordinary exception is a TypeError (world.exc_class)
    return 8 * k + cls


def gen_sig(rng, kind):
    if kind in ("prop_get", "prop_del"):
        return {"posonly": [], "poskw": [], "varpos": None, "kwonly": [], "varkw": None}
    if kind == "prop_set":
        return {"posonly": [], "poskw": [{"name": "value", "default": None}], "varpos": None, "kwonly": [], "varkw": None}
    shape = rng.random()
    sig = {"posonly": [], "poskw": [], "varpos": None, "kwonly": [], "varkw": None}
    names = iter(["x", "y", "z", "u", "v"])
    if shape < 0.55:
        n = rng.choice([0, 1, 1, 2, 2, 3])
        sig["poskw"] = [{"name": next(names), "default": None} for _ in range(n)]
    else:
        sig["posonly"] = [{"name": next(names), "default": None} for _ in range(rng.choice([0, 0, 1]))]
        sig["poskw"] = [{"name": next(names), "default": None} for _ in range(rng.choice([0, 1, 2]))]
        if rng.random() < 0.4:
            sig["varpos"] = "rest"
        sig["kwonly"] = [{"name": next(names), "default": None} for _ in range(rng.choice([0, 0, 1]))]
        if rng.random() < 0.4:
            sig["varkw"] = "kw"
    # defaults: suffix of the positional parameters, any keyword-only
    pos = sig["posonly"] + sig["poskw"]
    nd = rng.choice([0, 0, 1, len(pos)]) if pos else 0
    for i, p in enumerate(pos):
        if i >= len(pos) - nd:
            p["default"] = ["o", 100 + i]
    for i, p in enumerate(sig["kwonly"]):
        if rng.random() < 0.5:
            p["default"] = ["o", 110 + i]
    # a parameter whose name is one the library's own helpers use for their parameters
    if rng.random() < 0.08:
        every = sig["posonly"] + sig["poskw"] + sig["kwonly"]
        if every:
            rng.choice(every)["name"] = rng.choice(["func", "contract", "args", "kwargs", "condition", "instance"])
    # misuse (C19): a parameter with a reserved name - passed positionally, by keyword or left to its default
    if rng.random() < RESERVED_PARAMS:
        every = sig["posonly"] + sig["poskw"] + sig["kwonly"]
        if every:
            rng.choice(every)["name"] = rng.choice(["result", "OLD"])
    return sig


# probability that a generated signature carries a parameter named `result` / `OLD` (raised by the C19 check)
RESERVED_PARAMS = 0.03


def gen_call(rng, sig):
    """A call CPython can bind (mostly); avoids the C05 finding classes (those belong to C05)."""
    args, kwargs = [], {}
    tag = iter(range(1, 50))
    pos = sig["posonly"] + sig["poskw"]
    by_kw = False
    for i, p in enumerate(pos):
        kwable = i >= len(sig["posonly"])
        if p["default"] is not None and rng.random() < 0.4:
            by_kw = True   # skipped: later ones can only come by keyword
            continue
        # (now and then the argument is None, also where the parameter has another default)
        value = ["n"] if rng.random() < 0.08 else ["o", next(tag)]
        if by_kw or (kwable and rng.random() < 0.3):
            if not kwable:
                continue
            by_kw = True
            kwargs[p["name"]] = value
        else:
            args.append(value)
    if sig["varpos"] and not by_kw and not sig["kwonly"] and rng.random() < 0.5:
        for _ in range(rng.choice([1, 2])):
            args.append(["o", next(tag)])
    for p in sig["kwonly"]:
        if p["default"] is None or rng.random() < 0.5:
            kwargs[p["name"]] = ["o", next(tag)]
    if sig["varkw"] and rng.random() < 0.5:
        kwargs["extra"] = ["o", next(tag)]
    r = rng.random()
    if r < 0.03:
        args.append(["o", next(tag)])          # possibly too many positionals
    elif r < 0.05 and args:
        args.pop()                               # possibly a missing argument
    elif r < 0.06:
        kwargs["_ARGS"] = ["o", next(tag)]
    return args, kwargs


def names_of(sig, recv):
    out = [recv] if recv else []
    out += [p["name"] for p in sig["posonly"] + sig["poskw"]]
    if sig["varpos"]:
        out.append(sig["varpos"])
    out += [p["name"] for p in sig["kwonly"]]
    if sig["varkw"]:
        out.append(sig["varkw"])
    return out


class Gen:
    def __init__(self, rng, profile="mixed"):
        self.rng = rng
        self.next_cid = 1
        self.next_sid = 1
        self.profile = profile

    def contract(self, role, avail, user, allow_fancy=True, self_only=False):
        rng = self.rng
        cid = self.next_cid
        self.next_cid += 1
        if self_only:
            params = [["self", False]] if rng.random() < 0.8 else []
        else:
            pool = list(dict.fromkeys(avail))      # a parameter may itself be called result / OLD
            k = rng.choice([0, 1, 1, 2, 2, 3])
            chosen = rng.sample(pool, min(k, len(pool))) if pool else []
            params = [[n, rng.random() < 0.2] for n in chosen]
            if rng.random() < 0.03:
                params.append(["bogus", rng.random() < 0.5])
            params = [p for p in params if not p[1]] + [p for p in params if p[1]]
        kind = "plain"
        if allow_fancy and not self_only:
            r = rng.random()
            boost = getattr(self, "fancy_boost", False)
            kind = "corofn" if r < (0.4 if boost else 0.06) else ("awaitable" if r < (0.5 if boost else 0.12) else "plain")
        r = rng.random()
        if r < 0.45:
            error = ["none"]
        elif r < 0.6:
            error = ["class", rng.choice([0, 1])]
        elif r < 0.75:
            error = ["instance", exc_tag(rng)]
        else:
            pool = list(dict.fromkeys(avail))
            k = rng.choice([0, 1, 1, 2])
            en = rng.sample(pool, min(k, len(pool))) if pool else []
            if rng.random() < 0.05:
                en.append("bogus")
            # some parameters of the factory have a default value (the call's value must reach them all the same)
            dflt = [n for n in en if n != "bogus" and rng.random() < 0.3]
            en = [n for n in en if n not in dflt] + dflt
            error = ["factory", en, "lambda" if rng.random() < 0.3 else "def", dflt]
            rr = rng.random()
            user["error"][str(cid)] = ["exn", exc_tag(rng)] if rr < 0.8 else (["other"] if rr < 0.9 else ["raise", exc_tag(rng)])
        lam = kind == "plain" and rng.random() < 0.35
        return {"cid": cid, "params": params, "kind": kind, "error": error, "lambda": lam}

    def cond_result(self, want):
        rng = self.rng
        if want == "pass":
            return ["ret", True]
        if want == "fail":
            return ["ret", False]
        r = rng.random()
        if r < 0.72:
            return ["ret", True]
        if r < 0.92:
            return ["ret", False]
        if r < 0.96:
            return ["raise", exc_tag(rng)]
        return ["boolraise", exc_tag(rng)]

    def case(self, kind=None, is_async=None):
        rng = self.rng
        self.next_cid, self.next_sid = 1, 1
        self.ncase = getattr(self, "ncase", 0) + 1
        kind = kind or rng.choice(KINDS)
        if is_async is None:
            is_async = kind in ASYNC_OK and rng.random() < 0.4
        is_async = bool(is_async and kind in ASYNC_OK)
        # every fifth async case mixes coroutine conditions and plain ones freely (their relative order is part of C16);
        # decided by the case's number, not by the generator's stream, so that the other cases stay as they were
        self.fancy_boost = is_async and self.ncase % 5 == 0
        recv = RECEIVER[kind]
        sig = gen_sig(rng, kind)
        if kind == "method" and rng.random() < 0.06:
            # the idiom of Counter.update / Template.substitute: def f(self, x, /, **kw)
            sig = {"posonly": [{"name": "x", "default": None}], "poskw": [], "varpos": None, "kwonly": [], "varkw": "kw"}
        args, kwargs = gen_call(rng, sig)
        if kind == "method" and sig["posonly"] and sig["varkw"] and rng.random() < 0.6:
            # def f(self, x, /, ..., **kw) called with a keyword that happens to be named `self` (it lands in **kw):
            # the instance is the receiver
            kwargs["self"] = ["o", 40]
        if kind in ("prop_get", "prop_del"):
            args, kwargs = [], {}
        if kind == "prop_set":
            args, kwargs = [["o", 1]], {}
        avail = names_of(sig, recv) + (["_ARGS", "_KWARGS"] if rng.random() < 0.3 else [])
        user = {"cond": {}, "capture": {}, "error": {}, "body": {}}
        nlev = rng.choice([1, 1, 2, 3]) if kind in INHERITABLE else 1
        levels = []
        have_base_pre = False
        snap_names = set()
        any_snaps = False
        # how far should the call get?  (keeps deep phases well exercised)
        depth = rng.choice(["any", "any", "pre_ok", "pre_ok", "all_ok"])
        for j in range(nlev):
            npre = rng.choice([0, 1, 1, 2, 3])
            if j > 0 and not have_base_pre:
                npre = 0
            pre = [self.contract("pre", avail, user, allow_fancy=True) for _ in range(npre)]
            have_base_pre = have_base_pre or bool(pre)
            npost = rng.choice([0, 0, 1, 1, 2])
            snaps = []
            if npost:
                for _ in range(rng.choice([0, 0, 1, 2])):
                    sid = self.next_sid
                    self.next_sid += 1
                    cand = [n for n in names_of(sig, recv) if n not in ("rest", "kw")]
                    k = rng.choice([1, 1, 2]) if cand else 0
                    params = rng.sample(cand, min(k, len(cand)))
                    if rng.random() < 0.03:
                        params.append("bogus")
                    name = None
                    if len(params) != 1 or rng.random() < 0.5:
                        name = "s%d" % sid
                    nm = name or params[0]
                    if nm in snap_names:
                        name = "s%d" % sid
                        nm = name
                    snap_names.add(nm)
                    r = rng.random()
                    skind = "corofn" if r < 0.06 else ("awaitable" if r < 0.12 else "plain")
                    snaps.append({"sid": sid, "name": name, "params": params, "kind": skind,
                                  "lambda": skind == "plain" and rng.random() < 0.4})
                    rr = rng.random()
                    if rr < 0.6 and params and params[0] != "bogus":
                        user["capture"][str(sid)] = ["state", params[0]]
                    elif rr < 0.95:
                        user["capture"][str(sid)] = ["const", rng.randrange(100)]
                    else:
                        user["capture"][str(sid)] = ["raise", exc_tag(rng)]
                    any_snaps = True
            pavail = avail + ["result"] + (["OLD"] if any_snaps or rng.random() < 0.05 else [])
            post = [self.contract("post", pavail, user, allow_fancy=True) for _ in range(npost)]
            levels.append({"pre": pre, "snaps": snaps, "post": post})
        invs = None
        if kind in WITH_INVS and rng.random() < 0.4:
            invs = [self.contract("inv", ["self"], user, allow_fancy=False, self_only=True)
                    for _ in range(rng.choice([1, 1, 2]))]
        invs_set = []
        if invs is not None:
            for c in invs:
                if rng.random() < 0.3:
                    c["check_on"] = "ALL"
            if rng.random() < 0.5:
                # invariants for attribute assignments only: after the constructor, never around a call
                invs_set = [self.contract("inv", ["self"], user, allow_fancy=False, self_only=True)
                            for _ in range(rng.choice([1, 1, 2]))]
                for c in invs_set:
                    c["check_on"] = "SETATTR"
        # truth assignment
        groups = [lv["pre"] for lv in levels if lv["pre"]]
        sat_group = rng.randrange(len(groups)) if groups else None
        for gi, g in enumerate(groups):
            for c in g:
                if depth in ("pre_ok", "all_ok") and gi == sat_group:
                    want = "pass"
                elif depth in ("pre_ok", "all_ok") and gi < sat_group:
                    want = rng.choice(["any", "fail"])
                else:
                    want = "any"
                rb = self.cond_result(want)
                user["cond"][str(c["cid"])] = [rb, rb]
        for lv in levels:
            for c in lv["post"]:
                ra = self.cond_result("pass" if depth == "all_ok" else "any")
                user["cond"][str(c["cid"])] = [ra, ra]
        for c in (invs or []) + invs_set:
            rb = self.cond_result("pass" if depth in ("pre_ok", "all_ok") else "any")
            ra = self.cond_result("pass" if depth == "all_ok" and rng.random() < 0.7 else "any")
            user["cond"][str(c["cid"])] = [rb, ra]
        # a condition that hands back an awaitable and fails *while awaited*, with an ordinary TypeError
        # (what `None > 0` raises inside an async helper)
        if is_async:
            for lv in levels:
                for c in lv["pre"] + lv["post"]:
                    if c["kind"] in ("awaitable", "corofn") and rng.random() < 0.3:
                        e = ["raise", 8 * 3 * rng.randrange(1, 13)]
                        user["cond"][str(c["cid"])] = [e, e]
        # a condition that peeks with next(iter(xs)) on an empty iterable: StopIteration (sync callables only)
        if not is_async and rng.random() < 0.12:
            cands = [c for lv in levels for c in lv["pre"] + lv["post"] if c["kind"] == "plain"]
            if cands:
                e = ["raise", 8 * rng.randrange(1, 40) + 5]
                user["cond"][str(rng.choice(cands)["cid"])] = [e, e]
        # body
        r = rng.random()
        if kind in ("init",):
            body = {"ret": ["n"]}
        elif r < 0.6:
            body = {"ret": ["o", 700 + rng.randrange(5)]}
        elif r < 0.72:
            body = {"ret": ["n"]}
        elif r < 0.8:
            body = {"ret": ["i", 0]}
        else:
            body = {"raise": exc_tag(rng)}
        if kind == "init" and r >= 0.8:
            body = {"raise": exc_tag(rng)}
        objtags = [v[1] for v in args + list(kwargs.values()) if v[0] == "o"]
        store = {str(t): rng.randrange(1, 9) for t in objtags if rng.random() < 0.7}
        if objtags and rng.random() < 0.6:
            body["mutate"] = {str(rng.choice(objtags)): rng.randrange(10, 20)}
        user["body"] = body
        case = {"kind": kind, "async": is_async, "sig": sig, "levels": levels, "invs": invs, "invs_set": invs_set, "args": args,
                "kwargs": kwargs, "user": user, "store": store, "interleave": rng.randrange(0, 4)}
        if kind not in ("function", "init", "new") and len(levels) >= 2 and rng.random() < 0.2:
            case["diamond"] = True      # the root's contracts are inherited along two paths
        if is_async and rng.random() < 0.3:
            # driven by a hand-written scheduler that runs every step of the coroutine in another context
            case["hop"] = True
        if not is_async and kind in ("function", "method", "staticmethod", "classmethod") and rng.random() < 0.1:
            # the decorated callable is a plain function that runs a coroutine function to completion
            # (functools.wraps adapter): to the contracts it is a sync callable like any other
            case["adapter"] = True
        return case


# ------------------------------------------------------------------ Coq terms
def cq_val(v):
    k = v[0]
    if k == "o":
        return "(PObj %d)" % v[1] if v[1] >= 0 else "(PObj (%d))" % v[1]
    if k == "i":
        return "(PInt %d)" % v[1] if v[1] >= 0 else "(PInt (%d))" % v[1]
    if k == "n":
        return "PNone"
    if k == "b":
        return "(PBool %s)" % C.cq_bool(v[1])
    if k == "t":
        return "(PTuple %s)" % C.cq_list([cq_val(x) for x in v[1]])
    if k in ("d", "old"):
        return "(PDict %s)" % cq_kw(v[1])
    if k == "cls":
        return "(PObj (-1))"
    if k == "x":
        return "(PStr %s)" % C.cq_str("<" + v[1] + ">")
    raise ValueError(v)


def cq_kw(pairs):
    return C.cq_list(["(%s, %s)" % (C.cq_str(k), cq_val(v)) for k, v in pairs])


def cq_nparam(p):
    return "{| pname := %s; pdefault := %s |}" % (C.cq_str(p["name"]), C.cq_opt(p["default"], cq_val))


def cq_sig(sig):
    return "{| posonly := %s; poskw := %s; varpos := %s; kwonly := %s; varkw := %s |}" % (
        C.cq_list([cq_nparam(p) for p in sig["posonly"]]), C.cq_list([cq_nparam(p) for p in sig["poskw"]]),
        C.cq_opt(sig["varpos"], C.cq_str), C.cq_list([cq_nparam(p) for p in sig["kwonly"]]),
        C.cq_opt(sig["varkw"], C.cq_str))


def with_receiver(sig, recv):
    if recv is None:
        return sig
    s = dict(sig)
    p = {"name": recv, "default": None}
    if sig["posonly"]:
        s["posonly"] = [p] + sig["posonly"]
    else:
        s["poskw"] = [p] + sig["poskw"]
    return s


CKIND = {"plain": "CKPlain", "corofn": "CKCoroFn", "awaitable": "CKAwaitable"}


def cq_error(e):
    if e[0] == "none":
        return "ENone"
    if e[0] == "class":
        return "(EClass %d)" % e[1]
    if e[0] == "instance":
        return "(EInstance %d)" % e[1]
    # the library requires a value of the call for every parameter of an error factory, with or without a default
    return "(EFactory %s %s)" % (C.cq_list([C.cq_str(n) for n in e[1]]), C.cq_list([C.cq_str(n) for n in e[1]]))


def cq_contract(c):
    return ("{| cid := %d; cargs := %s; cmandatory := %s; ckind_ := %s; cerror := %s; clambda := %s |}" % (
        c["cid"], C.cq_list([C.cq_str(n) for n, _ in c["params"]]),
        C.cq_list([C.cq_str(n) for n, d in c["params"] if not d]), CKIND[c["kind"]], cq_error(c["error"]),
        C.cq_bool(c["lambda"] and c["kind"] == "plain")))


def cq_snapshot(s):
    name = s["name"] if s["name"] is not None else s["params"][0]
    return "{| sid := %d; sname := %s; sargs := %s; skind := %s |}" % (
        s["sid"], C.cq_str(name), C.cq_list([C.cq_str(n) for n in s["params"]]), CKIND[s["kind"]])


def cq_cond_result(r):
    if r[0] == "ret":
        return "(CRet %s)" % C.cq_bool(r[1])
    if r[0] == "raise":
        return "(CRaise %d)" % r[1]
    return "(CBoolRaise %d)" % r[1]


def cq_tables(user):
    cond = C.cq_list(["(%s, (%s, %s))" % (k, cq_cond_result(v[0]), cq_cond_result(v[1])) for k, v in user["cond"].items()])
    def cap(r):
        if r[0] == "state":
            return "(CSState %s)" % C.cq_str(r[1])
        if r[0] == "const":
            return "(CSConst %d)" % r[1]
        return "(CSRaise %d)" % r[1]
    capture = C.cq_list(["(%s, %s)" % (k, cap(v)) for k, v in user["capture"].items()])
    def err(r):
        if r[0] == "exn":
            return "(ERetExn %d)" % r[1]
        if r[0] == "other":
            return "ERetOther"
        return "(ERaise %d)" % r[1]
    error = C.cq_list(["(%s, %s)" % (k, err(v)) for k, v in user["error"].items()])
    b = user["body"]
    body = "(BRaise %d)" % b["raise"] if "raise" in b else "(BRet %s)" % cq_val(b["ret"])
    mutate = C.cq_list(["(%s, %d)" % (k, v) for k, v in b.get("mutate", {}).items()])
    return "{| t_cond := %s; t_capture := %s; t_error := %s; t_body := %s; t_mutate := %s |}" % (
        cond, capture, error, body, mutate)


KIND_CQ = {"function": "KFunction", "method": "KMethod", "staticmethod": "KStatic", "classmethod": "KClassM",
           "prop_get": "KPropGet", "prop_set": "KPropSet", "prop_del": "KPropDel", "init": "KInit", "new": "KNew"}


def cq_store(store):
    items = sorted((int(k), v) for k, v in store.items())
    return C.cq_list(["(%d, %d)" % kv for kv in items])


def cq_case(case):
    recv = RECEIVER[case["kind"]]
    fsig = with_receiver(case["sig"], recv)
    args = ([RECV_VAL[recv]] if recv else []) + case["args"]
    lvs = list(case["levels"])
    if case.get("diamond") and len(lvs) >= 2:
        # L1(M1, M2) with M1(L0), M2(L0): the metaclass collects L0's lists once per base (snapshots are the same
        # objects and are merged by identity)
        lvs = [lvs[0], {"pre": lvs[0]["pre"], "snaps": [], "post": lvs[0]["post"]}] + lvs[1:]
    levels = C.cq_list(["{| l_pre := %s; l_snaps := %s; l_post := %s |}" % (
        C.cq_list([cq_contract(c) for c in lv["pre"]]), C.cq_list([cq_snapshot(s) for s in lv["snaps"]]),
        C.cq_list([cq_contract(c) for c in lv["post"]])) for lv in lvs])
    invs = C.cq_opt(case["invs"], lambda l: C.cq_list([cq_contract(c) for c in l]))
    return ("{| k_kind := %s; k_mode := %s; k_sig := %s; k_levels := %s; k_invs := %s; k_invs_all := %s; k_invs_set := %s; k_args := %s; "
            "k_kwargs := %s; k_tables := %s; k_store := %s |}" % (
                KIND_CQ[case["kind"]], "Async" if case["async"] else "Sync", cq_sig(fsig), levels, invs,
                C.cq_list(["%d" % c["cid"] for c in (case["invs"] or []) if c.get("check_on") == "ALL"]),
                C.cq_list([cq_contract(c) for c in case.get("invs_set", [])]),
                C.cq_list([cq_val(v) for v in args]), cq_kw(list(case["kwargs"].items())),
                cq_tables(case["user"]), cq_store(case["store"])))


ROLE = {"pre": "RPre", "post": "RPost", "inv": "RInv"}


def cq_store_pairs(pairs):
    return C.cq_list(["(%d, %d)" % (k, v) for k, v in pairs])


def cq_event(e):
    if e[0] == "cond":
        return "EvCond %s %d %s %s" % (ROLE[e[1]], e[2], cq_kw(e[3]), cq_store_pairs(e[4]))
    if e[0] == "capture":
        return "EvCapture %d %s %s" % (e[1], cq_kw(e[2]), cq_store_pairs(e[3]))
    if e[0] == "error":
        return "EvError %d %s" % (e[1], cq_kw(e[2]))
    if e[0] == "body":
        return "EvBody %s %s" % (cq_kw(e[1]), cq_store_pairs(e[2]))
    raise ValueError(e)


def cq_exn(x):
    if x[0] == "violation":
        return "XViolation %d" % x[1] if x[1] >= 0 else "XViolation (%d)" % x[1]
    if x[0] == "class":
        return "XClass %d %s" % (x[1], "%d" % x[2] if x[2] >= 0 else "(%d)" % x[2])
    if x[0] == "obj":
        return "XObj %d" % x[1]
    return "XLib %s %s" % (C.cq_str(x[1]), C.cq_opt(x[2], str))


def cq_obs(obs):
    trace = C.cq_list([cq_event(e) for e in obs["events"]])
    o = obs["outcome"]
    outcome = "(inl %s)" % cq_val(o[1]) if o[0] == "ret" else "(inr (%s))" % cq_exn(o[1])
    return "(%s, %s)" % (trace, outcome)


def gen_many(rng, n, profile="mixed"):
    """n cases cycling through every callable kind x sync/async so that each cell is populated."""
    g = Gen(rng, profile)
    cells = [(k, a) for k in KINDS for a in ((False, True) if k in ASYNC_OK else (False,))]
    return [g.case(kind=cells[i % len(cells)][0], is_async=cells[i % len(cells)][1]) for i in range(n)]
