#!/bin/bash
# usage: own_matrix.sh <scratch copy of the repository>
# Applies every seeded change in turn to the scratch copy (never to /repo) and runs the check of the change's own
# property: one line per change (a trailing ~ marks "no-failing-input-found" only, MISSED a change that is not reported).
repo=$1
export ICV_REPO=$repo
here=$(cd "$(dirname "$0")/.." && pwd)
cd $here
./setup.sh > /dev/null 2>&1
for d in seeded/*/; do
  name=$(basename $d); p=${name%%-*}
  if ! (cd $repo && git apply $here/$d/patch.diff); then echo "$name: patch does not apply"; continue; fi
  out=$(./check $p 2>&1 | grep '^VIOLATION')
  if [ -z "$out" ]; then echo "$name: MISSED"
  elif echo "$out" | grep -qv 'no-failing-input-found'; then echo "$name: $p"
  else echo "$name: $p~"; fi
  (cd $repo && git checkout -- .)
done
