"""Run-time support for rendered cases (runs under /venv/bin/python with PYTHONPATH=/repo).

A World plays the user code of one case from tables and records the observation:
  events   ['cond', role, cid, kwargs, store] | ['capture', sid, kwargs, store] | ['error', cid, kwargs]
           | ['body', env, store]   (env: what the body received, per parameter)
  outcome  ['ret', value] | ['raise', exn]
Values are canonicalised: ['o', tag] user object, ['i', n] int, ['n'] None, ['t', [...]] tuple,
['d', [[k, v], ...]] dict, ['old', [[k, v], ...]] the OLD bundle, ['cls'] a class object,
['x', ...] anything else.
Exceptions: ['violation', cid] | ['class', k, cid] | ['obj', tag] | ['lib', class name, cause tag or None]
"""
import asyncio
import re

import icontract


class Obj:
    """A user object with identity (tag); its mutable state lives in the world's store."""

    def __init__(self, tag):
        self.tag = tag

    def __repr__(self):
        return "Obj(%d)" % self.tag


NOT_IMPLEMENTED_TAG = 704


class Tagged:
    """An exception object can be falsy (e.g. one that defines __len__): that must not matter to anybody."""

    def __bool__(self):
        return not getattr(self, "falsy", False)


class UserError(Tagged, Exception):
    pass


class UserBaseError(Tagged, BaseException):
    pass


class UserKeyboardInterrupt(Tagged, KeyboardInterrupt):
    pass


class UserGeneratorExit(Tagged, GeneratorExit):
    pass


class UserCancelled(Tagged, asyncio.CancelledError):
    pass


class _Hop:
    """a suspension point of a hand-written scheduler"""

    def __await__(self):
        yield "icv-hop"


class AwaitableInt:
    """A value that happens to be awaitable (like a Future): stands for the integer k; awaiting it gives another one."""

    def __init__(self, k):
        self.k = k

    def __await__(self):
        return self._gen().__await__()

    async def _gen(self):
        return self.k + 1000


class AwaitableTrue:
    """A truthy condition result that happens to be awaitable; awaiting it gives False."""

    def __bool__(self):
        return True

    def __await__(self):
        return self._gen().__await__()

    async def _gen(self):
        return False


class UserTypeError(Tagged, TypeError):
    """an ordinary exception of user code that happens to be a TypeError (what `None > 0` raises)"""


class UserStopIteration(Tagged, StopIteration):
    """what `next(iter(xs))` raises on an empty iterable (residue 5; only raised in sync programs: a StopIteration
    that leaves a coroutine becomes a RuntimeError by the language's own rule)"""


EXC_CLASSES = [UserError, UserBaseError, UserKeyboardInterrupt, UserGeneratorExit, UserCancelled, UserStopIteration,
               UserError, UserError, UserTypeError]


def exc_class(tag):
    """the class of the exception object with this tag: the residue mod 8 says which kind (0 = a sub-class of
    Exception); among those every third one is a TypeError"""
    if tag % 8 == 0 and (tag // 8) % 3 == 0:
        return UserTypeError
    return EXC_CLASSES[tag % 8]


class ErrClass0(Exception):
    pass


class ErrClass1(BaseException):
    def __bool__(self):          # a falsy exception class
        return False


ERR_CLASSES = [ErrClass0, ErrClass1]


class Missing:
    def __repr__(self):
        return "<missing>"


MISSING = Missing()


class BoolRaises:
    def __init__(self, exc):
        self.exc = exc

    def __bool__(self):
        raise self.exc


class World:
    MISSING = MISSING
    ERR = ERR_CLASSES

    def __init__(self, user, store):
        self.user = user
        self.store = {int(k): v for k, v in store.items()}
        self.events = []
        self.objs = {}
        self.excs = {}
        self.setup = True       # during set-up every condition holds silently
        self.is_async = False
        self.hop = False
        self.instance_tag = 900

    # ---- values
    def obj(self, tag):
        if tag not in self.objs:
            self.objs[tag] = Obj(tag)
        return self.objs[tag]

    def val(self, v):
        """Decode a canonical value from the case description into a live Python value."""
        k = v[0]
        if k == "o":
            if v[1] == NOT_IMPLEMENTED_TAG:
                return NotImplemented          # a result like any other (what a binary special method hands back)
            return self.obj(v[1])
        if k == "i":
            return v[1]
        if k == "n":
            return None
        raise ValueError(v)

    def exc(self, tag):
        if tag not in self.excs:
            e = exc_class(tag)(tag)
            e.tag = tag
            e.falsy = (tag // 8) % 2 == 1
            try:                       # it has been raised before: it carries a traceback
                raise e
            except BaseException:      # noqa
                pass
            self.excs[tag] = e
        return self.excs[tag]

    def canon(self, v):
        if v is NotImplemented:
            return ["o", NOT_IMPLEMENTED_TAG]
        if isinstance(v, Obj):
            return ["o", v.tag]
        if isinstance(v, AwaitableInt):
            return ["i", v.k]
        if v is None:
            return ["n"]
        if isinstance(v, bool):
            return ["b", v]
        if isinstance(v, int):
            return ["i", v]
        if isinstance(v, tuple):
            return ["t", [self.canon(x) for x in v]]
        if isinstance(v, dict):
            return ["d", [[k, self.canon(x)] for k, x in v.items()]]
        if isinstance(v, icontract._checkers.Old):
            return ["old", [[k, self.canon(x)] for k, x in v.__dict__.items()]]
        if isinstance(v, type):
            return ["cls"]
        if hasattr(v, "_icv_tag"):
            return ["o", v._icv_tag]
        return ["x", type(v).__name__]

    def canon_kw(self, kw):
        return [[k, self.canon(v)] for k, v in kw.items() if v is not MISSING]

    def snap_store(self):
        return sorted([k, v] for k, v in self.store.items())

    # ---- user code
    def _result(self, table, key):
        r = self.user[table][str(key)]
        # (before-body, after-body) pairs for conditions
        if table == "cond":
            r = r[1] if self.store.get(0, 0) else r[0]
        return r

    def _cond_value(self, r):
        if r[0] == "ret":
            if r[1] and self.is_async:
                return AwaitableTrue()
            return bool(r[1])
        if r[0] == "raise":
            raise self.exc(r[1])
        if r[0] == "boolraise":
            return BoolRaises(self.exc(r[1]))
        raise ValueError(r)

    def cond(self, role, cid, kw):
        if self.setup:
            return True
        self.events.append(["cond", role, cid, self.canon_kw(kw), self.snap_store()])
        return self._cond_value(self._result("cond", cid))

    def acond(self, role, cid, kw):
        """Plain function returning an awaitable: logs at the call, produces its result when awaited."""
        if self.setup:
            async def ok():
                return True
            return ok()
        self.events.append(["cond", role, cid, self.canon_kw(kw), self.snap_store()])
        r = self._result("cond", cid)

        async def later():
            return self._cond_value(r)
        return later()

    def _capture_value(self, r, kw):
        if r[0] == "state":
            c = self.canon(kw[r[1]])
            if c[0] == "cls":
                c = ["o", -1]
            return self.store.get(c[1], 0) if c[0] == "o" else -1
        if r[0] == "const":
            return AwaitableInt(r[1]) if self.is_async else r[1]
        if r[0] == "raise":
            raise self.exc(r[1])
        raise ValueError(r)

    def capture(self, sid, kw):
        self.events.append(["capture", sid, self.canon_kw(kw), self.snap_store()])
        return self._capture_value(self._result("capture", sid), kw)

    def acapture(self, sid, kw):
        self.events.append(["capture", sid, self.canon_kw(kw), self.snap_store()])
        r = self._result("capture", sid)

        async def later():
            return self._capture_value(r, kw)
        return later()

    def error(self, cid, kw):
        self.events.append(["error", cid, self.canon_kw(kw)])
        r = self._result("error", cid)
        if r[0] == "exn":
            return self.exc(r[1])
        if r[0] == "other":
            return "not an exception"
        if r[0] == "raise":
            raise self.exc(r[1])
        raise ValueError(r)

    @staticmethod
    def sync_adapter(fn):
        """a plain function that runs the coroutine function beneath it to completion (the body never suspends)"""
        import functools

        @functools.wraps(fn)
        def adapter(*args, **kwargs):
            coro = fn(*args, **kwargs)
            try:
                coro.send(None)
            except StopIteration as stop:
                return stop.value
            raise RuntimeError("the adapted body suspended")
        return adapter

    def body(self, env):
        self.events.append(["body", self.canon_kw(env), self.snap_store()])
        b = self.user["body"]
        for k, v in b.get("mutate", {}).items():
            self.store[int(k)] = v
        self.store[0] = 1
        if "raise" in b:
            raise self.exc(b["raise"])
        return self.val(b["ret"])

    # ---- outcome
    CID_RE = re.compile(r"\bc_(\d+)\b|W\.a?cond\('\w+', (\d+)")

    def canon_exc(self, err):
        if hasattr(err, "tag") and type(err) in EXC_CLASSES:
            if self.excs.get(err.tag) is not err:
                return ["lib", "CopyOf" + type(err).__name__, None]     # the very object is expected
            return ["obj", err.tag]
        if type(err) is icontract.ViolationError:
            return ["violation", self._cid_of(str(err))]
        if type(err) in ERR_CLASSES:
            return ["class", ERR_CLASSES.index(type(err)), self._cid_of(str(err))]
        cause = err.__cause__
        ctag = cause.tag if cause is not None and hasattr(cause, "tag") else None
        return ["lib", type(err).__name__, ctag]

    def _cid_of(self, msg):
        m = self.CID_RE.search(msg)
        if not m:
            return -1
        return int(m.group(1) or m.group(2))

    async def abody(self, env):
        """the body of a coroutine function: under a hand-written scheduler it suspends once before it runs"""
        if self.hop:
            await _Hop()
        return self.body(env)

    def run(self, thunk, is_async=False, hop=False):
        before = self.snap_store()
        first = self.run_once(thunk, is_async, hop)
        if first["store"] == before and first["outcome"][0] == "raise":
            # nothing has changed (the body has not run): the same call once more is the same call - the same
            # conditions are evaluated, the same error factory is called again, the same exception comes out
            second = self.run_once(thunk, is_async, hop)
            if second != first:
                first["outcome"] = ["raise", ["lib", "TheSameCallAgainDiffers", None]]
                first["second_time"] = second
        return first

    def run_once(self, thunk, is_async=False, hop=False):
        self.setup = False
        self.is_async = is_async
        self.hop = bool(is_async and hop)
        self.events = []
        try:
            if self.hop:
                # a scheduler of its own: every step of the coroutine runs in another of two contexts
                import contextvars
                ctxs = [contextvars.copy_context(), contextvars.copy_context()]
                coro = thunk()
                step = 0
                while True:
                    try:
                        ctxs[step % 2].run(coro.send, None)
                    except StopIteration as stop:
                        r = stop.value
                        break
                    step += 1
                    if step > 50:
                        raise RuntimeError("the coroutine does not end")
            elif is_async:
                r = asyncio.run(thunk())
            else:
                r = thunk()
            out = ["ret", self.canon(r)]
        except BaseException as err:  # noqa
            out = ["raise", self.canon_exc(err)]
        self.setup = True
        return {"events": self.events, "outcome": out, "store": self.snap_store()}
