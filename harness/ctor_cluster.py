"""Constructor chains (C03): generation, Coq terms, correspondence."""
import collections
import glob
import json
import os
import random

import common as C

HEADER = ("From Coq Require Import List Arith Bool ZArith.\nImport ListNotations.\nFrom ICV Require Import Ctor CtorCase.\n")
MODEL_FILES = ["Model/Ctor.v", "Spec/CtorCase.v"]
RULE = ("chains of 1-4 classes on icontract.DBC; each class declares 0-2 invariants and (the root always) defines __init__ "
        "whose body assigns attributes in 0-2 steps and calls super().__init__() first, in the middle, last, twice or not "
        "at all; each invariant holds from a generated stage on (mostly one reached only by the most derived "
        "constructor's last assignment, sometimes never); K() for every class of the chain.")


def gen_case(rng):
    n = rng.choice([1, 2, 2, 3, 3, 4])
    chain = []
    stage = 0
    cid = 0
    stages = []
    for i in range(n):
        invs = []
        for _ in range(rng.choice([0, 1, 1, 2])):
            cid += 1
            invs.append(cid)
        init = None
        if rng.random() < (0.8 if i == 0 else 0.75):
            acts = []
            for _ in range(rng.choice([0, 1, 1, 2])):
                stage += 1
                acts.append(["stage", stage])
            where = rng.choice(["first", "first", "first", "middle", "last", "none", "twice"]) if i else "none"
            if where == "first":
                acts.insert(0, ["super"])
            elif where == "last":
                acts.append(["super"])
            elif where == "middle":
                acts.insert(len(acts) // 2, ["super"])
            elif where == "twice":
                acts = [["super"]] + acts + [["super"]]
            init = acts
        chain.append({"invs": invs, "init": init})
        stages.append(stage)
    need = []
    for c in range(1, cid + 1):
        r = rng.random()
        need.append([c, 0 if r < 0.2 else (rng.randint(0, stage) if r < 0.85 else stage + 1)])
    case = {"chain": chain, "need": need, "k": rng.randrange(n)}
    if rng.random() < 0.3:
        # one class takes a second base outside the hierarchy whose constructor accepts the argument of the call;
        # it sits behind the whole chain on the resolution order and records what it receives
        case["mixin_at"] = rng.randrange(n)
    if rng.random() < 0.3:
        # one class defines __new__(cls, x=None); the instance is then created with an argument (every __init__ accepts it)
        ok = [j for j in range(n) if not wrapped_new_below_init(chain, j, case.get("mixin_at"))]
        if ok:
            case["new_at"] = rng.choice(ok)
    return case


def wrapped_new_below_init(chain, j, mixin_at):
    """with __new__ defined at class j: some class q at or above j has invariants and finds no __init__ (its __new__ gets
    the checks) while a class further down has one - the recorded finding D4b, exercised by the elab cluster.
    The mix-in's constructor counts as one of the class that takes the mix-in."""
    n = len(chain)

    def has_init(i):
        return chain[i]["init"] is not None or mixin_at == i

    def has_init_upto(q):
        return any(has_init(i) for i in range(q + 1))

    def has_invs_upto(q):
        return any(chain[i]["invs"] for i in range(q + 1))
    return any(has_invs_upto(q) and not has_init_upto(q) and any(has_init(p) for p in range(q + 1, n))
               for q in range(j, n))


def directed_cases():
    """shapes that need several rare choices at once"""
    out = []
    for n in (1, 2, 3):
        for new_at in range(n):
            for mixin_at in range(n):
                for inv_at in range(n):
                    # no class of the chain defines a constructor: a class with invariants gets the pass-on constructor,
                    # the mix-in's constructor is the next one on the resolution order and __new__ takes the argument
                    chain = [{"invs": [1] if i == inv_at else [], "init": None} for i in range(n)]
                    if not wrapped_new_below_init(chain, new_at, mixin_at):
                        out.append({"chain": chain, "need": [[1, 0]], "k": n - 1, "new_at": new_at, "mixin_at": mixin_at})
    # data structures on top of a built-in type (no constructor of their own: list.__init__ fills the instance)
    for n in (1, 2):
        for inv_at in range(n):
            chain = [{"invs": [1] if i == inv_at else [], "init": None} for i in range(n)]
            out.append({"chain": chain, "need": [[1, 0]], "k": n - 1, "builtin": "list"})
    return out


def cq_case(c):
    def cls(cd):
        init = "None" if cd["init"] is None else "(Some [%s])" % "; ".join(
            "ASuper" if a[0] == "super" else "AStage %d" % a[1] for a in cd["init"])
        return "{| c_invs := [%s]; c_init := %s |}" % ("; ".join(str(i) for i in cd["invs"]), init)
    return "{| cc_chain := [%s]; cc_need := [%s]; cc_k := %d |}" % (
        "; ".join(cls(cd) for cd in c["chain"]), "; ".join("(%d, %d)" % (a, b) for a, b in c["need"]), c["k"])


def cq_obs(o):
    ev = "; ".join(("EInit %d %d" if e[0] == "init" else "EInv %d %d") % (e[1], e[2]) for e in o["events"])
    out = "None" if o["outcome"][0] == "ok" else ("(Some %d)" % o["outcome"][1] if o["outcome"][0] == "violation" else "(Some 999)")
    return "[%s]" % ev, out


def load_corpus(prop):
    out = []
    for path in sorted(glob.glob(os.path.join(C.VERIF, "corpus", prop, "ctor-*.json"))):
        with open(path) as fh:
            out.append(json.load(fh)["case"])
    return out


def script_of(c):
    L = ["import icontract", "need = %r" % dict((a, b) for a, b in c["need"]), ""]
    if c.get("mixin_at") is not None:
        L += ["class Side:", "    def __init__(self, x=None): print('Side.__init__ received', x)", ""]
    for i, cd in enumerate(c["chain"]):
        for cid in reversed(cd["invs"]):
            L.append("@icontract.invariant(lambda self: getattr(self, '_stage', 0) >= need[%d])" % cid)
        L.append("class L%d(%s%s%s):" % (i, "list, " if i == 0 and c.get("builtin") == "list" else "",
                                         "L%d" % (i - 1) if i else "icontract.DBC", ", Side" if c.get("mixin_at") == i else ""))
        if c.get("new_at") == i:
            L.append("    def __new__(cls, x=None): return super().__new__(cls)")
        if cd["init"] is None:
            L.append("    pass")
        else:
            L.append("    def __init__(self, x=None):")
            for a in cd["init"] or [["pass"]]:
                L.append("        super().__init__()" if a[0] == "super" else
                         ("        pass" if a[0] == "pass" else "        object.__setattr__(self, '_stage', %d)" % a[1]))
            if not cd["init"]:
                L.append("        pass")
        L.append("")
    L.append("L%d(%s)" % (c["k"], "[1, 2, 3]" if c.get("builtin") else
                          ("7" if c.get("new_at") is not None and c["new_at"] <= c["k"] else "")))
    return "\n".join(L)


def run_into(out, build, problems, prop, tier, replay=None, n_quick=600, n_thorough=15000):
    rng = random.Random(C.seed() * 7127 + 3)
    if not build.ok_for(MODEL_FILES):
        out.violation("the executable model does not build: " + "; ".join(problems),
                      {"problems": problems, "log": build.log[-3000:]}, found_input=False)
        return
    if replay:
        cases = [json.load(open(replay))["case"]]
        ncorpus = 0
    else:
        corpus = load_corpus(prop)
        ncorpus = len(corpus)
        cases = corpus + directed_cases() + [gen_case(rng) for _ in range(n_quick if tier == "quick" else n_thorough)]
    obs = []
    for r in C.run_impl_parallel("impl_ctor.py", [{"cases": cases[i:i + 500]} for i in range(0, len(cases), 500)]):
        obs.extend(r)
    terms = []
    for c, o in zip(cases, obs):
        if "defn_error" in o:
            terms.append("[1; 1; 1]%Z")
            continue
        ev, oc = cq_obs(o)
        terms.append("(let c := (%s)%%nat in let ev := (%s)%%nat in let oc := (%s)%%nat in let m := run_ccase c in "
                     "([if cevents_eqb (fst m) ev && oid_eqb (snd m) oc then 0 else 1 ; "
                     "if spec_C03_ctor c ev oc then 0 else 1 ; if spec_C03_ctor c (fst m) (snd m) then 0 else 1])%%Z)"
                     % (cq_case(c), ev, oc))
    codes = C.coq_eval_lists(HEADER, terms, name="ctor", chunk=400)
    dis, bad, mbad = [], [], []
    shapes = collections.Counter()
    distinct = set()
    for c, o, code in zip(cases, obs, codes):
        if "defn_error" not in o:
            shapes["depth%d/%s" % (len(c["chain"]), o["outcome"][0])] += 1
            if len(c["chain"]) > 1:
                distinct.add(json.dumps([c["chain"], o["outcome"]]))
        if code[0]:
            dis.append((c, o))
        if code[1]:
            bad.append((c, o))
        if code[2]:
            mbad.append((c, o))
    bad.sort(key=lambda co: len(json.dumps(co[0])))
    for c, o in bad[:2]:
        out.violation("spec_C03_ctor is false of the implementation: invariants evaluated while the object was still under "
                      "construction, or not those of the class on the finished object (%s)" % (o.get("outcome"),),
                      {"case": c, "observation": o, "script": script_of(c), "how": "./check %s --replay <this file>" % prop})
    if mbad:
        problems.append("the model's own observation does not satisfy spec_C03_ctor")
    if dis and not bad:
        problems.append("constructor-chain model and implementation disagree on %d case(s)" % len(dis))
        out.violation("; ".join(problems), {"no_longer_checks": problems, "case": dis[0][0], "observation": dis[0][1],
                                             "script": script_of(dis[0][0])}, found_input=False)
    cov = out.coverage
    cov["evaluations"] = cov.get("evaluations", 0) + len(cases)
    cov["distinct_nontrivial"] = cov.get("distinct_nontrivial", 0) + len(distinct)
    cov["rule"] = (cov["rule"] + " || " if cov.get("rule") else "") + RULE
    cov["traces_validated_against_impl"] = cov.get("traces_validated_against_impl", 0) + len(cases)
    cov["ctor_cases"] = len(cases)
    cov["ctor_corpus_cases"] = ncorpus
    cov["ctor_disagreements"] = len(dis)
    cov["ctor_spec_failures_on_implementation"] = len(bad)
    cov["ctor_distribution"] = dict(shapes)
