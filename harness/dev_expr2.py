import json, sys, random, collections
sys.path.insert(0, "/verif/harness")
import common as C, gen_expr as G, expr_cluster as K, exprlang as X
n = int(sys.argv[1]) if len(sys.argv) > 1 else 60
seed = int(sys.argv[2]) if len(sys.argv) > 2 else 1
r = random.Random(seed)
cases = G.gen_many(r, n)
obs = K.observe(cases)
bad = [(c, o) for c, o in zip(cases, obs) if "harness_error" in o]
for c, o in bad[:3]:
    print("HARNESS", c.get("label"), X.src(c["tree"]), o["harness_error"], o.get("trace", "")[-600:])
live = [(c, o) for c, o in zip(cases, obs) if "harness_error" not in o]
codes = K.evaluate([c for c, _ in live], [o for _, o in live])
tot = collections.Counter()
shown = collections.Counter()
for (c, o), code in zip(live, codes):
    key = tuple(code[:7])
    tot[key] += 1
    if any(code[:5]) and shown[key] < 2:
        shown[key] += 1
        print("----", code, c.get("label"), X.src(c["tree"]))
        print("  args", c["args"], "closure", c["closure"], "globals", c["globals"][:-4], "cond", c["cond_params"], "kw", c.get("kw_order"))
        print("  obs", json.dumps({k: o[k] for k in ("outcome", "lines", "pytruth", "pyexc", "text_ok")})[:600])
        print("  msg", o.get("message", "")[:300].replace("\n", " | "))
        if len(sys.argv) > 3 and code[1]:
            print("  model", K.model_view(c, o)[:1800])
            print("  pylog", o["pylog"]); print("  recorded", o["recorded"])
print(tot)
print(collections.Counter(K.shape_of(c, o) for c, o in live).most_common(12))
