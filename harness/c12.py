"""C12 - concurrent callers never disable each other's checks."""
import collections
import glob
import json
import os
import random
import subprocess

import common as C
import gen_run as G

PROP = "C12"
HEADER = ("From Coq Require Import List ZArith Bool.\nFrom ICV Require Import Run RunCase Conc ConcCase.\n"
          "Import ListNotations.\n")
MODEL_FILES = ["Model/Run.v", "Spec/RunCase.v", "Model/Conc.v", "Spec/ConcCase.v"]
CONE = MODEL_FILES + ["Gen/Generated.v", "Proofs/SkelPinChecker.v", "Proofs/SkelPinInv.v", "Proofs/RunProofs.v",
                      "Proofs/ConcProofs.v", "Props/C12.v"]
RULE = ("worlds of 2-3 concurrent calls to 1-2 contracted functions with suspension points inside preconditions, "
        "captures, postconditions and bodies; run as real asyncio tasks (create_task = context copy, or a fresh "
        "Context) or real threads (fresh, or copy_context().run) behind a turnstile; the creator is the main "
        "task/thread, in 70% of the worlds after it has itself completed a contracted call; interleavings: sequential, "
        "reversed and random merges of 2-4 advances per task, cancellations of asyncio tasks at their suspension "
        "point; seeded. evaluations = tasks; distinct = distinct (trace, outcome, interleaving position).")


def model_observation(case):
    wd = C.workdir()
    fn = os.path.join(wd, "one_conc.v")
    with open(fn, "w") as fh:
        fh.write(HEADER + "Eval vm_compute in run_ccase %s.\n" % G.cq_conc_case(case))
    p = subprocess.run(["coqc", "-Q", C.COQ, "ICV", fn], capture_output=True, text=True, cwd=wd)
    return " ".join(p.stdout.split())[:5000]


def run(tier, replay=None):
    out = C.Outcome(PROP, tier)
    rng = random.Random(C.seed() * 15485863 + 12)
    build = C.regenerate_and_build()
    problems = C.proof_section(out, build, CONE, "Props/C12.v")
    if not build.ok_for(MODEL_FILES):
        out.violation("the executable model does not build: " + "; ".join(problems),
                      {"problems": problems, "log": build.log[-3000:]}, found_input=False)
        return out.finish()
    if replay:
        cases = [json.load(open(replay))["case"]]
        ncorpus = 0
    else:
        corpus = []
        for path in sorted(glob.glob(os.path.join(C.VERIF, "corpus", PROP, "*.json"))):
            corpus.append(json.load(open(path))["case"])
        ncorpus = len(corpus)
        n = 2000 if tier == "quick" else 20000
        cases = corpus + [G.gen_conc_case(rng) for _ in range(n)]
    chunks = [cases[i:i + 60] for i in range(0, len(cases), 60)]
    obs = []
    for r in C.run_impl_parallel("impl_conc.py", [{"cases": ch} for ch in chunks], timeout=1800):
        obs.extend(r)
    live, skipped, defn = [], 0, []
    for c, o in zip(cases, obs):
        if isinstance(o, dict):
            defn.append((c, o))
        elif any(t["truncated"] for t in o):
            skipped += 1
        else:
            live.append((c, o))
    terms = ["(let c := %s in let o := %s in [if cobs_list_eqb (run_ccase c) o then 0%%Z else 1%%Z; "
             "if spec_C12 c o then 0%%Z else 1%%Z; if spec_C12 c (run_ccase c) then 0%%Z else 1%%Z])"
             % (G.cq_conc_case(c), G.cq_cobs(o)) for c, o in live]
    codes = C.coq_eval_lists(HEADER, terms, name="conc", chunk=50)
    disagreements, spec_fail, model_fail = [], [], []
    dist = collections.Counter()
    distinct = set()
    ntasks = nfinished = ncancel = nwarm = 0
    for (c, o), code in zip(live, codes):
        dist[c["mode"] + ("/warm" if any(op[0] == "spawn" and op[2] for op in c["ops"]) else "/cold")] += 1
        for i, tk in enumerate(o):
            ntasks += 1
            nfinished += tk["outcome"] is not None
            distinct.add(json.dumps([tk["events"], tk["outcome"], [op for op in c["ops"] if op[0] != "spawn"][:6]]))
        ncancel += sum(1 for op in c["ops"] if op[0] == "cancel")
        if code[0]:
            disagreements.append((c, o))
        if code[1]:
            spec_fail.append((c, o))
        if code[2]:
            model_fail.append((c, o))
    spec_fail.sort(key=lambda co: len(json.dumps(co[0])))
    for c, o in spec_fail[:2]:
        out.violation("spec_C12 is false of the implementation's observation: a task's verdict differs from its "
                      "sequential verdict", {"case": c, "observation": o, "model_observation": model_observation(c),
                                             "how": "./check C12 --replay <this file>"})
    hung = [(c, o) for c, o in defn if o.get("defn_error") == "Hang"]
    for c, o in hung[:1]:
        out.violation("a task or thread of this world never reaches its next suspension point (in the model every "
                      "call returns or raises)", {"case": c, "observation": o, "model_observation": model_observation(c),
                                                  "how": "./check C12 --replay <this file>"})
    for c, o in [(c, o) for c, o in defn if o.get("defn_error") not in ("Hang", "Skipped")][:1]:
        out.violation("a generated world failed: %s" % o, {"case": c, "observation": o}, found_input=False)
    if model_fail:
        problems.append("the model's own observation does not satisfy spec_C12")
    if (problems or disagreements) and not out.violations:
        what = "; ".join(problems + (["model and implementation disagree on %d world(s)" % len(disagreements)]
                                     if disagreements else []))
        payload = {"no_longer_checks": problems or ["correspondence Model/Conc.v <-> icontract (contextvars)"]}
        if disagreements:
            disagreements.sort(key=lambda co: len(json.dumps(co[0])))
            c, o = disagreements[0]
            payload.update({"case": c, "observation": o, "model_observation": model_observation(c)})
        out.violation(what, payload, found_input=False)
    out.coverage.update({
        "evaluations": ntasks,
        "distinct_nontrivial": len(distinct),
        "rule": RULE,
        "samples": [{"program": c["prog"], "mode": c["mode"], "ops": c["ops"], "observation": o} for c, o in live[:1]],
        "worlds": len(cases),
        "tasks_finished": nfinished,
        "cancellations": ncancel,
        "worlds_skipped_trace_too_long": skipped,
        "traces_validated_against_impl": len(live),
        "vm_compute_cases": len(live),
        "corpus_cases": ncorpus,
        "disagreements": len(disagreements),
        "spec_failures_on_implementation": len(spec_fail),
        "distribution": dict(dist),
    })
    out.assumptions = ["a context is touched only by code running in it (contextvars)",
                       "pre-emption of threads inside the library's own statements is not exhibited by the turnstile"]
    return out.finish()
