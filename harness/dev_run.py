import json, random, sys, subprocess
import common as C, gen_run as G
n=int(sys.argv[1]) if len(sys.argv)>1 else 100
seed=int(sys.argv[2]) if len(sys.argv)>2 else 1
mode=sys.argv[3] if len(sys.argv)>3 else "sync"
rng=random.Random(seed)
g=G.GenRun(rng, is_async=(mode=="async"), faults=0.1 if "fault" in sys.argv else 0.0, awaits=0.4)
cases=[g.case() for _ in range(n)]
obs=C.run_impl("impl_run.py", {"cases": cases})
HEADER="From Coq Require Import List ZArith Bool.\nFrom ICV Require Import Run RunCase.\nImport ListNotations.\n"
terms=[]; idx=[]
for i,(c,o) in enumerate(zip(cases,obs)):
    if isinstance(o, dict):
        print("DEFN ERROR", o); continue
    if any(op["truncated"] for op in o):
        print("truncated"); continue
    terms.append("[if robs_list_eqb (run_rcase %s) %s then 0%%Z else 1%%Z]" % (G.cq_case(c), G.cq_robs(o))); idx.append(i)
res=C.coq_eval_lists(HEADER, terms, name="devrun", chunk=50)
bad=[idx[j] for j,r in enumerate(res) if r!=[0]]
print("cases",n,"disagreements",len(bad))
for i in bad[:2]:
    print(json.dumps(cases[i])); print(json.dumps(obs[i]))
    open(C.workdir()+"/one.v","w").write(HEADER+"Eval vm_compute in run_rcase %s.\n" % G.cq_case(cases[i]))
    print(subprocess.run(["coqc","-Q",C.COQ,"ICV",C.workdir()+"/one.v"],capture_output=True,text=True).stdout[:3000])
