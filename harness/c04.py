"""C04 - inherited contracts combine per Liskov."""
import checker_cluster as K
import elab_cluster as E
import gen_checker as G

PROP = "C04"
CONE = sorted(set(K.MODEL_FILES + E.MODEL_FILES + ["Gen/Generated.v"] + ['Proofs/ElabProofs.v', 'Proofs/ElabRefine.v', 'Proofs/ElabSkeleton.v', 'Proofs/ElabHidden.v', 'Props/C04.v']))
RULE_E = 'histories of 2-6 definitions: module-level functions with stacks of 0-4 decorators (require / ensure / snapshot, enabled or not, foreign functools.wraps decorators, invalid decorators), classes on DBC or not with single or multiple bases, members f/g/p/__init__/__new__/__setattr__/_priv/__repr__ of kinds method, static, class method, property get/set/del, class invariants with check_on CALL/SETATTR/ALL; after each step every earlier function and class is viewed through find_checker and the list attributes (contents and identity of the invariant lists); seeded. distinct = distinct final views.'
RULE_C = 'checker-cluster cases as for C01 (all callable kinds x sync/async, chains of 1-3 classes, faults); seeded.'


def run(tier, replay=None):
    out, build, problems = K.begin(PROP, tier, CONE, "Props/C04.v")
    is_elab_replay = bool(replay) and "ops" in __import__("json").load(open(replay)).get("case", {})
    if not replay or is_elab_replay:
        E.run(out, build, problems, PROP, tier, ['spec_C04'], E.default_gen, 500, 10000, RULE_E, replay=replay, known={'spec_C04': 'kf_C04_accept_all'})
    if not replay:
        # a scenario outside the case language of the histories (a class whose namespace passes the meta-class twice):
        # run as it stands, a search for a failing input only
        import common as C
        res = C.run_impl("impl_probe.py", {"probes": ["twice_through_the_metaclass"]})
        out.coverage["scenario_probes"] = res
        r = res.get("twice_through_the_metaclass", {})
        if r.get("reproduced"):
            out.violation("a weakened precondition is lost or strengthened once the class passes the meta-class a second time",
                          {"probe": "twice_through_the_metaclass", "result": r, "script": "harness/impl_probe.py"})
        elif r.get("reproduced") is None:
            out.violation("the scenario probe did not run: %s" % r, {"probe": r}, found_input=False)
    return out.finish()
