"""Signature helpers shared by the harness and the implementation drivers."""


def sig_text(sig):
    parts = []
    for p in sig["posonly"]:
        parts.append(p["name"] + ("=%d" % p["default"] if p["default"] is not None else ""))
    if sig["posonly"]:
        parts.append("/")
    for p in sig["poskw"]:
        parts.append(p["name"] + ("=%d" % p["default"] if p["default"] is not None else ""))
    if sig["varpos"]:
        parts.append("*" + sig["varpos"])
    elif sig["kwonly"]:
        parts.append("*")
    for p in sig["kwonly"]:
        parts.append(p["name"] + ("=%d" % p["default"] if p["default"] is not None else ""))
    if sig["varkw"]:
        parts.append("**" + sig["varkw"])
    return ", ".join(parts)


def all_names(sig):
    names = [p["name"] for p in sig["posonly"] + sig["poskw"]]
    if sig["varpos"]:
        names.append(sig["varpos"])
    names += [p["name"] for p in sig["kwonly"]]
    if sig["varkw"]:
        names.append(sig["varkw"])
    return names


