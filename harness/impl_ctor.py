"""Implementation side for constructor chains (C03): real classes on icontract.DBC, constructors that call
super().__init__() at generated places, invariants that hold from a generated stage on."""
import json
import sys
import warnings

warnings.simplefilter("ignore")
import icontract  # noqa: E402


class Side:
    """a mix-in outside the contracted hierarchy whose constructor takes the argument of the call"""


unfinished = []


def build(case, events, arglog, bare):
    need = dict((int(k), v) for k, v in case["need"])
    classes = []

    def side_init(self, x=None):
        arglog.append(["side", x])
    side = type("Side", (), {"__init__": side_init})
    for i, cd in enumerate(case["chain"]):
        ns = {}
        if cd["init"] is not None:
            def make_init(i=i, script=cd["init"]):
                def __init__(self, x=None):
                    events.append(["init", i, getattr(self, "_stage", 0)])
                    arglog.append([i, x])
                    for a in script:
                        if a[0] == "super":
                            super(classes[i], self).__init__()
                        else:
                            object.__setattr__(self, "_stage", a[1])
                return __init__
            ns["__init__"] = make_init()
        if case.get("new_at") == i:
            def make_new(i=i):
                def __new__(cls, x=None):
                    arglog.append(["new", x])
                    return super(classes[i], cls).__new__(cls)
                return __new__
            ns["__new__"] = make_new()
        base = classes[i - 1] if i else icontract.DBC
        bases = (base, side) if case.get("mixin_at") == i else (base,)
        if i == 0 and case.get("builtin") == "list":
            bases = (list,) + bases          # a data structure on top of a built-in type: list.__init__ fills the instance
        cls = type("L%d" % i, bases, ns)
        for cid in ([] if bare else cd["invs"]):
            def make_inv(cid=cid):
                def inv(self):
                    st = getattr(self, "_stage", 0)
                    events.append(["inv", cid, st])
                    if case.get("builtin") == "list" and list(self) != [1, 2, 3]:
                        unfinished.append(cid)   # evaluated before the built-in constructor had filled the instance
                    return st >= need.get(cid, 0)
                inv.__name__ = "inv_%d" % cid
                return inv
            cls = icontract.invariant(make_inv())(cls)
        classes.append(cls)
    return classes


def construct(case, classes):
    if case.get("builtin") == "list":
        return classes[case["k"]]([1, 2, 3])
    if case.get("new_at") is not None and case["new_at"] <= case["k"]:
        return classes[case["k"]](7)
    return classes[case["k"]]()


def run_case(case):
    # the same hierarchy without invariants: what the constructors receive must not depend on the contracts (C14)
    bare_log = []
    try:
        construct(case, build(case, [], bare_log, True))
        bare_ok = True
    except BaseException:  # noqa: BLE001
        bare_ok = False
    events, arglog = [], []
    del unfinished[:]
    classes = build(case, events, arglog, False)
    try:
        construct(case, classes)
        out = ["ok"]
    except icontract.ViolationError as err:
        import re
        m = re.search(r"\binv_(\d+)\b", str(err))
        out = ["violation", int(m.group(1)) if m else -1]
    except BaseException as err:  # noqa: BLE001
        out = ["other", type(err).__name__, str(err)[:200]]
    if unfinished and out[0] != "other":
        out = ["other", "InvariantOnUnfinishedObject", "invariants %r were evaluated before list.__init__ had run" % unfinished]
    if bare_ok and out[0] != "other" and arglog != bare_log:
        out = ["other", "ConstructorArgumentsDiffer", "bare %r, with invariants %r" % (bare_log, arglog)]
    return {"events": events, "outcome": out}


def main():
    payload = json.load(sys.stdin)
    res = []
    for case in payload["cases"]:
        try:
            res.append(run_case(case))
        except BaseException as err:  # noqa: BLE001
            res.append({"defn_error": type(err).__name__, "msg": str(err)[:300]})
    json.dump(res, sys.stdout)


if __name__ == "__main__":
    main()
