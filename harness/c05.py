"""C05 - contracts observe the same argument values the body receives."""
import itertools
import json
import random

import checker_cluster as K
import common as C
import gen_checker as G

PROP = "C05"
CONE = sorted(set(["Model/Base.v", "Gen/Generated.v", "Model/Bind.v", "Spec/C05Check.v", "Proofs/DictLemmas.v",
                   "Proofs/BindRefine.v", "Proofs/BindAgree.v", "Proofs/CheckerTypeError.v", "Props/C05.v"] + K.MODEL_FILES))
RULE_C = ("whole calls (checker-cluster cases as for C01: all callable kinds x sync/async, chains of classes, error "
          "factories whose parameters partly have default values): whatever a condition, a capture or an error factory "
          "receives under the name of a parameter is the object the body receives (spec_C05_call).")
HEADER = "From ICV Require Import Base Bind C05Check.\nOpen Scope string_scope.\nOpen Scope list_scope.\n"


def all_sigs(maxn):
    for a, b, c in itertools.product(range(3), repeat=3):
        if a + b + c > maxn:
            continue
        for vp, vk in itertools.product((0, 1), repeat=2):
            for ndef in range(a + b + 1):
                for kwdef in itertools.product((0, 1), repeat=c):
                    pos = [{"name": "p%d" % i} for i in range(a)] + [{"name": "a%d" % i} for i in range(b)]
                    for i, p in enumerate(pos):
                        p["default"] = 100 + i if i >= a + b - ndef else None
                    kwo = [{"name": "k%d" % i, "default": (110 + i if kwdef[i] else None)} for i in range(c)]
                    yield {"posonly": pos[:a], "poskw": pos[a:], "varpos": "args" if vp else None,
                           "kwonly": kwo, "varkw": "kw" if vk else None}


def all_calls(sig, extra_pos=2):
    npos_max = len(sig["posonly"]) + len(sig["poskw"]) + extra_pos
    if sig["varpos"] and sig["kwonly"]:
        npos_max += len(sig["kwonly"])
    cand = [p["name"] for p in sig["poskw"]] + [p["name"] for p in sig["kwonly"]]
    if sig["posonly"]:
        cand.append(sig["posonly"][0]["name"])
    cand += ["zz", "qq"]
    for npos in range(npos_max + 1):
        for r in range(len(cand) + 1):
            for sub in itertools.combinations(cand, r):
                yield {"args": [10 + i for i in range(npos)],
                       "kwargs": {n: 50 + cand.index(n) for n in sub}}


_SIGS = {}


def bindable(sig, call):
    """Would CPython bind this call?  (generator-side only; the check itself asks CPython again.)"""
    import inspect
    key = json.dumps(sig, sort_keys=True)
    if key not in _SIGS:
        P = inspect.Parameter
        ps = [P(p["name"], P.POSITIONAL_ONLY, default=P.empty if p["default"] is None else 0) for p in sig["posonly"]]
        ps += [P(p["name"], P.POSITIONAL_OR_KEYWORD, default=P.empty if p["default"] is None else 0) for p in sig["poskw"]]
        if sig["varpos"]:
            ps.append(P(sig["varpos"], P.VAR_POSITIONAL))
        ps += [P(p["name"], P.KEYWORD_ONLY, default=P.empty if p["default"] is None else 0) for p in sig["kwonly"]]
        if sig["varkw"]:
            ps.append(P(sig["varkw"], P.VAR_KEYWORD))
        _SIGS[key] = inspect.Signature(ps)
    try:
        _SIGS[key].bind(*call["args"], **call["kwargs"])
        return True
    except TypeError:
        return False


def cq_nparam(p):
    return "{| pname := %s; pdefault := %s |}" % (C.cq_str(p["name"]), C.cq_opt(p["default"], C.cq_pv))


def cq_sig(sig):
    return "{| posonly := %s; poskw := %s; varpos := %s; kwonly := %s; varkw := %s |}" % (
        C.cq_list([cq_nparam(p) for p in sig["posonly"]]), C.cq_list([cq_nparam(p) for p in sig["poskw"]]),
        C.cq_opt(sig["varpos"], C.cq_str), C.cq_list([cq_nparam(p) for p in sig["kwonly"]]),
        C.cq_opt(sig["varkw"], C.cq_str))


def decanon(v):
    if isinstance(v, dict) and "t" in v:
        return tuple(decanon(x) for x in v["t"])
    if isinstance(v, dict) and "d" in v:
        return {k: decanon(x) for k, x in v["d"]}
    return v


def pairs_to_cq(pairs):
    return C.cq_list(["(%s, %s)" % (C.cq_str(k), C.cq_pv(decanon(v))) for k, v in pairs])


def case_term(case, obs):
    qq = 0 if obs["qq_evaluated"] else (1 if obs["qq"] == "TypeError" and obs.get("qq_msg_names_qq") else 2)
    return "check_case %s %s %s %s %s %s %s %s %d %s" % (
        cq_sig(case["sig"]), C.cq_list([C.cq_pv(x) for x in case["args"]]), C.cq_dict(case["kwargs"]),
        pairs_to_cq(obs["raw"]), C.cq_opt(obs["bare_env"], pairs_to_cq), C.cq_bool(obs["outcome"] == "ok"),
        C.cq_opt(obs["env"], pairs_to_cq), C.cq_opt(obs["seen"], pairs_to_cq), qq,
        C.cq_opt(obs["qq_seen"], C.cq_pv))


def generate(tier, rng):
    cases = []
    # corpus first: the two D8 witnesses and the shapes from tests/test_args_and_kwargs_in_contract.py
    corpus = [
        ({"posonly": [], "poskw": [{"name": "a", "default": None}], "varpos": "args",
          "kwonly": [{"name": "b", "default": 1}], "varkw": None}, {"args": [11, 12, 13], "kwargs": {}}),
        ({"posonly": [{"name": "a", "default": None}], "poskw": [], "varpos": None, "kwonly": [], "varkw": "kw"},
         {"args": [11], "kwargs": {"a": 12}}),
        ({"posonly": [], "poskw": [{"name": "x", "default": None}], "varpos": "args", "kwonly": [], "varkw": "kwargs"},
         {"args": [1, 2, 3], "kwargs": {"y": 4}}),
    ]
    for sig, call in corpus:
        cases.append({"sig": sig, **call})
    maxn = 4 if tier == "quick" else 5
    pool = []
    for sig in all_sigs(maxn):
        for call in all_calls(sig, extra_pos=1 if tier == "quick" else 2):
            pool.append((sig, call))
    exhaustive = True
    limit = 24000 if tier == "quick" else 400000
    if len(pool) > limit:
        # mostly-valid stream (calls CPython can bind) plus a separate malformed stream
        exhaustive = False
        good = [x for x in pool if bindable(*x)]
        bad = [x for x in pool if not bindable(*x)]
        rng.shuffle(good)
        rng.shuffle(bad)
        ngood = min(len(good), limit * 4 // 5)
        pool = good[:ngood] + bad[:limit - ngood]
    for sig, call in pool:
        cases.append({"sig": sig, **call})
    return cases, exhaustive, len(corpus)


def run(tier, replay=None):
    if replay and "kind" in json.load(open(replay)).get("case", {}):
        out, build, problems = K.begin(PROP, tier, CONE, "Props/C05.v")
        K.run_into(out, build, problems, PROP, tier, ["spec_C05_call"], lambda rng, n: G.gen_many(rng, n), 1200, 25000,
                   RULE_C, replay=replay)
        return out.finish()
    out = C.Outcome(PROP, tier)
    rng = random.Random(C.seed())
    build = C.regenerate_and_build()
    problems = C.proof_section(out, build, CONE, "Props/C05.v")
    model_ok = build.ok_for(["Model/Base.v", "Model/Bind.v", "Spec/C05Check.v"])
    if not model_ok:
        out.violation("the executable model does not build: " + "; ".join(problems), {"problems": problems,
                      "log": build.log[-3000:]}, found_input=False)
        return out.finish()

    if replay:
        cases = [json.load(open(replay))["case"]]
        exhaustive, ncorpus = False, 0
    else:
        cases, exhaustive, ncorpus = generate(tier, rng)
    # implementation
    chunks = [cases[i:i + 2500] for i in range(0, len(cases), 2500)]
    obs = []
    for r in C.run_impl_parallel("impl_c05.py", [{"cases": ch} for ch in chunks]):
        obs.extend(r)
    terms = [case_term(c, o) for c, o in zip(cases, obs)]
    codes = C.coq_eval_lists(HEADER, terms, name="c05", chunk=500)

    kf = C.load_known_findings()
    known_ids = {f["id"] for f in kf.get("findings", []) if f["property"] == PROP}
    stats = {"ref_mismatch": 0, "model_vs_code": 0, "wrapper_mismatch": 0, "spec_fail": 0, "spec_fail_known": 0,
             "qq_mismatch": 0, "bindable": 0, "rejected_by_python": 0}
    disagreements, spec_fails, known_hits = [], [], {"kf_C05_surplus": 0, "kf_C05_posonly": 0}
    distinct = set()
    for case, o, code in zip(cases, obs, codes):
        c1, c2, c3, c4, c5, c5s, kfc = code
        if o["bare_env"] is not None:
            stats["bindable"] += 1
            nontrivial = bool(case["kwargs"]) or len(case["args"]) > len(case["sig"]["posonly"]) + len(case["sig"]["poskw"]) \
                or len(o["bare_env"]) > len(case["args"]) + len(case["kwargs"])
            if nontrivial:
                distinct.add(json.dumps([o["bare_env"], o["seen"]], sort_keys=True))
        else:
            stats["rejected_by_python"] += 1
        if c1:
            stats["ref_mismatch"] += 1
            disagreements.append(("reference binder differs from CPython", case, o))
        if c2:
            stats["model_vs_code"] += 1
            disagreements.append(("Bind.resolve differs from icontract._checkers.kwargs_from_call", case, o))
        if c3:
            stats["wrapper_mismatch"] += 1
            disagreements.append(("wrapper observation differs from the model", case, o))
        if c5:
            stats["qq_mismatch"] += 1
            disagreements.append(("missing-name behaviour differs from the model", case, o))
        if c4 or c5s:
            if c4 and kfc and not c5s:
                stats["spec_fail_known"] += 1
                if kfc & 1:
                    known_hits["kf_C05_surplus"] += 1
                if kfc & 2:
                    known_hits["kf_C05_posonly"] += 1
            else:
                stats["spec_fail"] += 1
                spec_fails.append((case, o, "missing name not reported by TypeError" if c5s else
                                   "a contract saw a different object than the body"))

    # decision
    for name, hits in known_hits.items():
        if hits:
            if name in known_ids:
                f = [f for f in kf["findings"] if f["id"] == name][0]
                out.known_finding("%s (%d cases in the class on this run)" % (f["what"], hits))
            else:
                case, o = next((c, o) for c, o, code in zip(cases, obs, codes) if code[3] and
                               (code[6] & (1 if name == "kf_C05_surplus" else 2)))
                out.violation("spec_C05 fails in class %s (not a listed finding)" % name,
                              {"case": case, "observation": o, "replay": "./check C05 --replay <this file>"})
    for case, o, why in spec_fails[:3]:
        out.violation(why, {"case": case, "observation": o, "replay": "./check C05 --replay <this file>",
                            "script": replay_script(case)})
    if (problems or disagreements) and not out.violations:
        what = "; ".join(problems + sorted({d[0] for d in disagreements}))
        payload = {"no_longer_checks": problems or ["correspondence Model/Bind.v <-> icontract._checkers"],
                   "what": what}
        if disagreements:
            payload["case"] = disagreements[0][1]
            payload["observation"] = disagreements[0][2]
        out.violation(what, payload, found_input=False)

    samples = [{"sig": c["sig"], "args": c["args"], "kwargs": c["kwargs"], "body_env": o["bare_env"], "seen": o["seen"]}
               for c, o in list(zip(cases, obs))[:3] + list(zip(cases, obs))[-2:]]
    out.coverage.update({
        "evaluations": len(cases),
        "distinct_nontrivial": len(distinct),
        "rule": "signatures: all mixes of <=2 positional-only, <=2 positional-or-keyword, *args, <=2 keyword-only, "
                "**kwargs with every default pattern Python accepts (total named <= %d); calls: every number of "
                "positionals up to surplus and every subset of keyword names (parameters, one positional-only name, "
                "an unknown name, the non-parameter 'qq'); %s. Non-trivial = CPython binds the call and it uses a "
                "keyword, a surplus positional or a default; distinct = distinct (body env, contract view)."
                % (4 if tier == "quick" else 5, "complete enumeration" if exhaustive else "seeded sample of the enumeration"),
        "exhaustive": exhaustive,
        "samples": samples,
        "traces_validated_against_impl": len(cases),
        "vm_compute_cases": len(cases),
        "corpus_cases": ncorpus,
        "stats": stats,
        "known_finding_hits": known_hits,
    })
    out.assumptions = ["values are opaque identity tags", "CPython binding is modelled by Bind.pybind and compared with "
                       "CPython on every case (ref_mismatch must be 0)"]
    if not replay:
        bind_cov = {k: out.coverage.get(k) for k in ("vm_compute_cases", "corpus_cases", "stats", "exhaustive")}
        K.run_into(out, build, problems, PROP, tier, ["spec_C05_call"], lambda rng, n: G.gen_many(rng, n), 1200, 25000,
                   RULE_C)
        out.coverage["bind_cluster"] = bind_cov
    return out.finish()


def replay_script(case):
    import sigutil
    return ("import icontract\n@icontract.require(lambda **kw: True)\n"
            "def f(%s): ...\n# call: f(*%r, **%r) and compare what a condition asking for each name sees with the body"
            % (sigutil.sig_text(case["sig"]), case["args"], case["kwargs"]))
