import json, random, sys, subprocess
import common as C, gen_run as G
n=int(sys.argv[1]); seed=int(sys.argv[2]); mode=sys.argv[3] if len(sys.argv)>3 else None
rng=random.Random(seed)
cases=[G.gen_conc_case(rng, mode) for _ in range(n)]
obs=C.run_impl("impl_conc.py", {"cases": cases})
HEADER="From Coq Require Import List ZArith Bool.\nFrom ICV Require Import Run RunCase Conc ConcCase.\nImport ListNotations.\n"
terms=[]; idx=[]
for i,(c,o) in enumerate(zip(cases,obs)):
    if isinstance(o, dict): print("DEFN", o); continue
    if any(t["truncated"] for t in o): print("trunc"); continue
    terms.append("(let c := %s in let o := %s in [if cobs_list_eqb (run_ccase c) o then 0%%Z else 1%%Z; if spec_C12 c o then 0%%Z else 1%%Z; if spec_C12 c (run_ccase c) then 0%%Z else 1%%Z])" % (G.cq_conc_case(c), G.cq_cobs(o))); idx.append(i)
res=C.coq_eval_lists(HEADER, terms, name="devconc", chunk=40)
bad=[idx[j] for j,r in enumerate(res) if any(r)]
print("cases",n,"bad",len(bad), [r for r in res if any(r)][:8])
for i in bad[:2]:
    print(json.dumps(cases[i])); print(json.dumps(obs[i]))
    open(C.workdir()+"/one.v","w").write(HEADER+"Eval vm_compute in run_ccase %s.\n" % G.cq_conc_case(cases[i]))
    print(subprocess.run(["coqc","-Q",C.COQ,"ICV",C.workdir()+"/one.v"],capture_output=True,text=True).stdout[:2500])
