"""C11 - checking is re-armed after every outcome: no sticky suspension, no lost error."""
import gen_run as G
import run_cluster as K

PROP = "C11"
CONE = K.MODEL_FILES + ["Gen/Generated.v", "Proofs/SkelPinChecker.v", "Proofs/SkelPinInv.v", "Proofs/RunProofs.v",
                        "Proofs/RunRefine.v", "Proofs/CheckerSurface.v", "Props/C11.v"]
RULE = ("as C10, with faults: every script raises with probability 0.12 an exception of one of five classes "
        "(Exception, BaseException-only, KeyboardInterrupt, GeneratorExit, CancelledError); async programs have "
        "suspension points in conditions, captures and bodies and half of their operations get an exception "
        "(CancelledError / GeneratorExit / Exception) thrown in at one of them; each program is a history of faulted "
        "calls followed by probe calls; seeded.")


def gen(rng, n):
    out = []
    for i in range(n):
        g = G.GenRun(rng, is_async=(i % 2 == 1), faults=0.12, awaits=0.5, new_style=0.25)
        c = g.case()
        while not G.small_enough(c):
            c = g.case()
        out.append(c)
    return out


RULE_K = ("whole calls (checker-cluster cases as for C01: all callable kinds x sync/async, chains of classes with groups "
          "of alternative preconditions, conditions / truth tests / captures / error factories / bodies that raise "
          "exceptions of five classes): the first thing raised ends the call and surfaces as that very object or as the "
          "library's wrapper chaining it (spec_C11_surface).")


def run(tier, replay=None):
    import json
    import checker_cluster as CK
    import gen_checker as GCK
    cone = sorted(set(CONE + CK.MODEL_FILES))
    out, build, problems = CK.begin(PROP, tier, cone, "Props/C11.v")
    case = json.load(open(replay)).get("case", {}) if replay else {}
    if not replay or "kind" not in case:
        K.run_into(out, build, problems, PROP, tier, "spec_C11", gen, 1500, 20000, RULE, replay=replay)
    if not replay or "kind" in case:
        CK.run_into(out, build, problems, PROP, tier, ["spec_C11_surface"], lambda rng, n: GCK.gen_many(rng, n), 1200, 25000,
                    RULE_K, replay=replay)
    return out.finish()
