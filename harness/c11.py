"""C11 - checking is re-armed after every outcome: no sticky suspension, no lost error."""
import gen_run as G
import run_cluster as K

PROP = "C11"
CONE = K.MODEL_FILES + ["Gen/Generated.v", "Proofs/SkelPinChecker.v", "Proofs/SkelPinInv.v", "Proofs/RunProofs.v",
                        "Proofs/RunRefine.v", "Props/C11.v"]
RULE = ("as C10, with faults: every script raises with probability 0.12 an exception of one of five classes "
        "(Exception, BaseException-only, KeyboardInterrupt, GeneratorExit, CancelledError); async programs have "
        "suspension points in conditions, captures and bodies and half of their operations get an exception "
        "(CancelledError / GeneratorExit / Exception) thrown in at one of them; each program is a history of faulted "
        "calls followed by probe calls; seeded.")


def gen(rng, n):
    out = []
    for i in range(n):
        g = G.GenRun(rng, is_async=(i % 2 == 1), faults=0.12, awaits=0.5)
        c = g.case()
        while not G.small_enough(c):
            c = g.case()
        out.append(c)
    return out


def run(tier, replay=None):
    return K.run(PROP, tier, CONE, "Props/C11.v", "spec_C11", gen, 1500, 20000, RULE, replay=replay)
