import json, random, sys, subprocess
import common as C, gen_elab as G
n=int(sys.argv[1]); seed=int(sys.argv[2])
rng=random.Random(seed)
g=G.GenElab(rng)
cases=[g.history() for _ in range(n)]
obs=C.run_impl("impl_elab.py", {"cases": cases})
HEADER="From ICV Require Import Base Bind Checker Elab ElabCase.\nOpen Scope string_scope.\nOpen Scope list_scope.\n"
terms=[]; idx=[]
for i,(c,o) in enumerate(zip(cases,obs)):
    if isinstance(o, dict): print("DRIVER ERROR", o); continue
    terms.append("first_diff (run_ecase %s) %s 0%%Z" % (G.cq_case(c), G.cq_history(o))); idx.append(i)
res=C.coq_eval_lists(HEADER, terms, name="develab", chunk=40)
bad=[idx[j] for j,r in enumerate(res) if r!=[-1]]
import collections
print(collections.Counter(tuple(r[1:2]) for r in res if r!=[-1]))
print([ (idx[j], r) for j,r in enumerate(res) if r!=[-1]][:12])
print("cases",n,"disagreements",len(bad))
for i in bad[:int(sys.argv[3]) if len(sys.argv)>3 else 1]:
    c=cases[i]
    for k,op in enumerate(c["ops"]):
        print("--- op",k); print(G.py_op(sum(1 for o in c["ops"][:k] if o["op"]=="class") if op["op"]=="class" else k, op, ["K%d"%j for j in range(20)]))
    for st in obs[i]: print(json.dumps({k:v for k,v in st.items() if k!="src"}))
    open(C.workdir()+"/one.v","w").write(HEADER+"Eval vm_compute in run_ecase %s.\n" % G.cq_case(c))
    print(subprocess.run(["coqc","-Q",C.COQ,"ICV",C.workdir()+"/one.v"],capture_output=True,text=True).stdout[:6000])
