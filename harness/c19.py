"""C19 - misuse is rejected at the earliest point with the documented error."""
import checker_cluster as K
import elab_cluster as E
import gen_checker as G

PROP = "C19"
CONE = sorted(set(K.MODEL_FILES + E.MODEL_FILES + ["Gen/Generated.v"] + ['Proofs/ElabProofs.v', 'Proofs/CheckerFrame.v', 'Proofs/CheckerProps.v', 'Proofs/CheckerAfter.v', 'Props/C19.v']))
RULE_E = 'histories of 2-6 definitions: module-level functions with stacks of 0-4 decorators (require / ensure / snapshot, enabled or not, foreign functools.wraps decorators, invalid decorators), classes on DBC or not with single or multiple bases, members f/g/p/__init__/__new__/__setattr__/_priv/__repr__ of kinds method, static, class method, property get/set/del, class invariants with check_on CALL/SETATTR/ALL; after each step every earlier function and class is viewed through find_checker and the list attributes (contents and identity of the invariant lists); seeded. distinct = distinct final views.'
RULE_C = ('checker-cluster cases as for C01 (all callable kinds x sync/async, chains of 1-3 classes, faults) in which 45% of '
          'the signatures carry a parameter named result / OLD (positional-only, positional-or-keyword or keyword-only; passed '
          'positionally, by keyword or left to its default) and 1% of the calls a keyword argument _ARGS: spec_C19_call on the '
          "implementation's observation (TypeError before the body whenever a reserved name would be shadowed); seeded.")


def run(tier, replay=None):
    out, build, problems = K.begin(PROP, tier, CONE, "Props/C19.v")
    is_elab_replay = bool(replay) and "ops" in __import__("json").load(open(replay)).get("case", {})
    if not replay or not is_elab_replay:
        old = G.RESERVED_PARAMS
        G.RESERVED_PARAMS = 0.45
        try:
            K.run_into(out, build, problems, PROP, tier, ['spec_C19_call'], lambda rng, n: G.gen_many(rng, n), 700, 15000,
                       RULE_C, replay=replay)
        finally:
            G.RESERVED_PARAMS = old
    if not replay or is_elab_replay:
        E.run(out, build, problems, PROP, tier, ['spec_C19_defs'], E.default_gen, 500, 10000, RULE_E, replay=replay, known={})
    return out.finish()
