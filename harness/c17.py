"""C17 - defining a class or decorating a function never changes another's contracts."""
import checker_cluster as K
import elab_cluster as E
import gen_checker as G

PROP = "C17"
CONE = sorted(set(K.MODEL_FILES + E.MODEL_FILES + ["Gen/Generated.v"] + ['Proofs/ElabFrame.v', 'Proofs/ElabClassFrame.v', 'Proofs/ElabOwnLists.v', 'Props/C17.v']))
RULE_E = 'histories of 2-6 definitions: module-level functions with stacks of 0-4 decorators (require / ensure / snapshot, enabled or not, foreign functools.wraps decorators, invalid decorators), classes on DBC or not with single or multiple bases, members f/g/p/__init__/__new__/__setattr__/_priv/__repr__ of kinds method, static, class method, property get/set/del, class invariants with check_on CALL/SETATTR/ALL; after each step every earlier function and class is viewed through find_checker and the list attributes (contents and identity of the invariant lists); seeded. distinct = distinct final views.'
RULE_C = 'checker-cluster cases as for C01 (all callable kinds x sync/async, chains of 1-3 classes, faults); seeded.'


def run(tier, replay=None):
    out, build, problems = K.begin(PROP, tier, CONE, "Props/C17.v")
    is_elab_replay = bool(replay) and "ops" in __import__("json").load(open(replay)).get("case", {})
    if not replay or is_elab_replay:
        E.run(out, build, problems, PROP, tier, ['spec_C17', 'own_lists_everywhere'], E.default_gen, 500, 10000, RULE_E, replay=replay, known={})
    if not replay:
        # a recorded finding outside the case language of the histories (a class member that is an alias of another
        # class's function): its witness is run as it stands
        import common as C
        res = C.run_impl("impl_probe.py", {"probes": ["kf_C17_alias"]})
        out.coverage["witness_probes"] = res
        kf = C.load_known_findings()
        listed = {f["id"]: f for f in kf.get("findings", []) if f["property"] == PROP}
        r = res.get("kf_C17_alias", {})
        if r.get("reproduced"):
            if "kf_C17_alias" in listed:
                out.known_finding(listed["kf_C17_alias"]["what"])
            else:
                out.violation("defining a class whose member is an alias of another class's method changed that class's "
                              "contracts", {"probe": "kf_C17_alias", "result": r, "script": "harness/impl_probe.py"})
        elif r.get("reproduced") is None:
            out.violation("the witness probe kf_C17_alias did not run: %s" % r, {"probe": r}, found_input=False)
    return out.finish()
