"""Generator, Python rendering and Coq rendering of definition histories (Spec/ElabCase.v)."""
import common as C
import gen_checker as GC

NAMES = ["f", "g", "p", "__init__", "__new__", "__setattr__", "_priv", "__repr__", "__eq__", "__getattr__"]


# the module the definitions of a history live in (the library leaves only classes of its own module
# icontract._metaclass unannounced: every other name, however close, is a user module)
MODULES = ["elab_case", "__main__", "app.models", "icontract_models", "icontracts", "icontract_ext.strategies",
           "my_icontract._metaclass", "icontract._metaclass_user", "tests.icontract._metaclass"]


class GenElab:
    def __init__(self, rng, misuse=0.05, foreign=0.25, multi=0.35, invariants=0.5):
        self.rng = rng
        self.cid = 0
        self.sid = 0
        self.fk = 0
        self.misuse = misuse
        self.foreign = foreign
        self.multi = multi
        self.invariants = invariants

    def contract(self, enabled=True):
        self.cid += 1
        r = self.rng.random()
        err = ["none"] if r < 0.6 else (["class", 0] if r < 0.8 else ["instance", 8 * self.rng.randrange(1, 30)])
        return {"cid": self.cid, "params": [], "kind": "plain", "error": err, "lambda": False}

    def snapshot(self, name=None):
        self.sid += 1
        return {"sid": self.sid, "name": name or "s%d" % self.sid, "params": [], "kind": "plain", "lambda": False}

    def decos(self, kind, allow_pre=True, snap_pool=None):
        """A decorator stack in application order."""
        rng = self.rng
        out = []
        n = rng.choice([0, 1, 1, 2, 3, 4])
        have_post = False
        for _ in range(n):
            r = rng.random()
            en = rng.random() > 0.1
            if r < self.foreign:
                self.fk += 1
                out.append(["foreign", self.fk])
            elif r < self.foreign + 0.3 and allow_pre:
                out.append(["require", self.contract(), en])
            elif r < self.foreign + 0.55:
                out.append(["ensure", self.contract(), en])
                have_post = have_post or en
            elif r < self.foreign + 0.7:
                # mostly legal snapshots (after an enabled postcondition); sometimes not
                if have_post or rng.random() < 0.25:
                    name = None
                    if snap_pool is not None and snap_pool and rng.random() < 0.25:
                        name = rng.choice(snap_pool)          # a name used elsewhere in the hierarchy
                    s = self.snapshot(name)
                    if snap_pool is not None:
                        snap_pool.append(s["name"])
                    out.append(["snapshot", s, en])
            elif rng.random() < self.misuse * 4:
                out.append(["invalid", rng.choice(["error_not_exception_class", "error_wrong_type", "error_callable_object",
                                                   "error_builtin", "error_callable_object_ensure",
                                                   "snapshot_no_args_no_name", "snapshot_many_args_no_name",
                                                   "snapshot_default_args_no_name"]), en])
        return out

    def sig(self, kind):
        if kind in ("get", "del"):
            return {"posonly": [], "poskw": [], "varpos": None, "kwonly": [], "varkw": None}
        if kind == "set":
            return {"posonly": [], "poskw": [{"name": "value", "default": None}], "varpos": None, "kwonly": [], "varkw": None}
        ps = [{"name": "x", "default": None}] if self.rng.random() < 0.5 else []
        sig = {"posonly": [], "poskw": ps, "varpos": None, "kwonly": [], "varkw": None}
        if self.rng.random() < self.misuse:
            # a parameter with a reserved name, of any kind
            name = self.rng.choice(["_ARGS", "_KWARGS"])
            where = self.rng.choice(["poskw", "poskw", "kwonly", "kwonly-default", "varkw", "varpos"])
            if where == "poskw":
                ps.append({"name": name, "default": None})
            elif where == "kwonly":
                sig["kwonly"] = [{"name": name, "default": None}]
            elif where == "kwonly-default":
                sig["kwonly"] = [{"name": name, "default": ["o", 110]}]
            else:
                sig[where] = name
        return sig

    def member(self, name, kind, allow_pre=True, snap_pool=None):
        m = {"name": name, "kind": kind, "async": False, "sig": self.sig(kind),
             "decos": self.decos(kind, allow_pre, snap_pool)}
        if name in ("f", "g", "p") and self.rng.random() < 0.15:
            m["abstract"] = True         # abc.abstractmethod under the contracts: abstractness must survive every wrapper
        if name in ("f", "g") and kind == "plain" and self.rng.random() < 0.12:
            m["renamed"] = True          # bound in the class under a name other than the function's own
        return m

    def history(self):
        rng = self.rng
        self.cid = self.sid = self.fk = 0
        self.defined = {}
        ops = []
        nclasses = 0
        snap_pool = []
        n = rng.choice([2, 3, 4, 5, 6])
        plain_members = []      # (class index, name) of plain methods that a class declares itself
        self.has_sub = set()
        for _ in range(n):
            leaves = [(j, nm) for j, nm in plain_members if j not in self.has_sub]
            if leaves and rng.random() < 0.12:
                # K.f = decorator(K.f) after the class was created (a class without sub-classes so far: the meta-class
                # merges the contracts of the bases when a sub-class is created, not later)
                j, name = rng.choice(leaves)
                ops.append({"op": "redecorate", "cls": j, "name": name,
                            "deco": ["ensure" if rng.random() < 0.7 else "require", self.contract(), True]})
                continue
            earlier = [o for o in ops if o["op"] == "func"]
            if earlier and rng.random() < 0.08:
                # contracts on a functools.partial of an earlier function: a callable of its own
                base = rng.choice(earlier)
                ops.append({"op": "func", "name": "fn%d" % len(ops), "async": base["async"], "kind": "plain",
                            "sig": base["sig"], "decos": self.decos("plain"), "partial_of": base["name"]})
                continue
            if rng.random() < 0.25:
                ops.append({"op": "func", "name": "fn%d" % len(ops), "async": rng.random() < 0.2, "kind": "plain",
                            "sig": self.sig("plain"), "decos": self.decos("plain")})
                continue
            bases = []
            if nclasses and rng.random() < 0.8:
                bases = [rng.randrange(nclasses)]
                if nclasses > 1 and rng.random() < self.multi:
                    b2 = rng.randrange(nclasses)
                    if b2 not in bases:
                        bases.append(b2)
            self.has_sub.update(bases)
            dbc = rng.random() < 0.85 if not bases else rng.random() < 0.1
            members = []
            used = set()
            # names defined by the classes so far: overriding them is what exercises the merge
            inherited = [nm for b in bases for nm in self.defined.get(b, [])]
            for _m in range(rng.choice([0, 1, 1, 2, 3])):
                if inherited and rng.random() < 0.6:
                    name = rng.choice(inherited)
                else:
                    name = rng.choice(["f", "f", "g", "p", "__init__", "__new__", "__setattr__", "_priv", "__repr__", "__getattr__"])
                if name in used:
                    continue
                used.add(name)
                pbases = [j for j, b in enumerate(bases) if "p" in self.defined.get(b, [])]
                if name == "p" and pbases and rng.random() < 0.5:
                    # @Base.p.setter / .deleter / .getter: one accessor re-defined on the property of one of the bases
                    j = rng.choice(pbases)
                    for acc in rng.sample(["get", "set", "del"], rng.choice([1, 1, 2])):
                        m = self.member("p", acc, snap_pool=snap_pool)
                        m["inherit"] = True
                        m["inherit_base"] = j
                        members.append(m)
                elif name == "p":
                    for acc in rng.sample(["get", "set", "del"], rng.choice([1, 2, 3])):
                        if acc != "get" and not any(m["name"] == "p" and m["kind"] == "get" for m in members):
                            members.append(self.member("p", "get", snap_pool=snap_pool))
                        if not any(m["name"] == "p" and m["kind"] == acc for m in members):
                            members.append(self.member("p", acc, snap_pool=snap_pool))
                elif name in ("f", "g"):
                    kind = rng.choice(["plain", "plain", "plain", "plain", "plain", "static", "classm"])
                    members.append(self.member(name, kind, snap_pool=snap_pool))
                else:
                    members.append(self.member(name, "plain", snap_pool=snap_pool))
            invs = []
            if rng.random() < self.invariants:
                for _i in range(rng.choice([1, 1, 2])):
                    c = self.contract()
                    invalid = None
                    if rng.random() < self.misuse:
                        invalid = rng.choice(["invariant_with_params", "invariant_coroutine", "error_wrong_type"])
                    invs.append({"contract": c, "check_on": rng.choice(["CALL", "CALL", "SETATTR", "ALL"]),
                                 "enabled": rng.random() > 0.1, "invalid": invalid})
            ops.append({"op": "class", "bases": bases, "dbc": dbc, "members": members, "invs": invs})
            if dbc and rng.random() < 0.3 and all(not m["name"].startswith("__") for m in members):
                # (not where the class defines a special method: with DBC as a base the slots of `object` count as
                #  provided by a base, with the bare meta-class they do not - the model has the base)
                ops[-1]["via_meta"] = True
            self.defined[nclasses] = sorted(set([m["name"] for m in members] + inherited))
            plain_members += [(nclasses, m["name"]) for m in members
                              if m["kind"] == "plain" and m["name"] in ("f", "g")
                              and not any(d[0] == "invalid" for d in m["decos"])]
            nclasses += 1
        return {"ops": ops, "names": NAMES, "module": self.rng.choice(MODULES)}


    # ---- directed shapes: hierarchies in which the walk over several bases matters
    def _cls(self, bases, members, invs=(), dbc=None):
        return {"op": "class", "bases": list(bases), "dbc": (not bases) if dbc is None else dbc,
                "members": members, "invs": list(invs)}

    def _inv(self, check_on):
        return {"contract": self.contract(), "check_on": check_on, "enabled": True, "invalid": None}

    def _with(self, m, decos):
        m = dict(m)
        m["decos"] = decos
        m.pop("abstract", None)
        return m

    def directed_history(self):
        rng = self.rng
        self.cid = self.sid = self.fk = 0
        req = lambda: ["require", self.contract(), True]   # noqa: E731
        ens = lambda: ["ensure", self.contract(), True]    # noqa: E731
        acc = lambda kind, decos: self._with(self.member("p", kind), decos)   # noqa: E731
        fn = lambda name, kind, decos: self._with(self.member(name, kind), decos)   # noqa: E731
        shape = rng.choice(["prop-missing-accessor", "prop-accessor-of-other-base", "inherited-static", "diamond-posts",
                            "invariant-events", "special-of-second-base", "late-decoration", "callable-object-on-base",
                            "plain-mixin", "snapshot-misuse", "plain-chain-under-meta"])
        order = rng.choice([[0, 1], [1, 0]])
        if shape == "prop-missing-accessor":
            # one base shows the property without the accessor, the other one with it and with contracts
            ops = [self._cls([], [acc("get", rng.choice([[], [ens()]]))]),
                   self._cls([], [acc("get", []), acc(rng.choice(["set", "del"]), [req(), ens()])])]
            k = ops[1]["members"][1]["kind"]
            ops.append(self._cls(order, [acc("get", rng.choice([[], [ens()]])), acc(k, rng.choice([[], [ens()], [req()]]))]))
        elif shape == "prop-accessor-of-other-base":
            # both bases define the property with contracts; the sub-class re-defines one accessor on one base's property
            ops = [self._cls([], [acc("get", [ens()]), acc("set", rng.choice([[], [req()]]))]),
                   self._cls([], [acc("get", [ens()]), acc("set", [req(), ens()])])]
            m = acc(rng.choice(["set", "del"]), rng.choice([[], [ens()]]))
            m["inherit"] = True
            m["inherit_base"] = rng.choice([0, 1])
            ops.append(self._cls(order, [m]))
            ops.append(self._cls([2], [acc("get", rng.choice([[], [ens()]]))]))
        elif shape == "inherited-static":
            ops = [self._cls([], [fn("f", "static", rng.choice([[], [ens()]])), fn("g", "classm", rng.choice([[], [req()]]))]),
                   self._cls([0], [fn("__repr__", "plain", [])], invs=[self._inv(rng.choice(["CALL", "ALL"]))]),
                   self._cls([1], [fn("g", "classm", rng.choice([[], [ens()]]))], invs=rng.choice([[], [self._inv("CALL")]]))]
        elif shape == "diamond-posts":
            ops = [self._cls([], [fn("f", "plain", [ens()] + rng.choice([[], [req()]]))]),
                   self._cls([0], [fn("f", "plain", [ens()])]),
                   self._cls([0], rng.choice([[fn("f", "plain", [ens()])], []])),
                   self._cls(rng.choice([[1, 2], [2, 1]]), [fn("f", "plain", rng.choice([[ens()], [ens(), req()]]))])]
        elif shape == "invariant-events":
            ev = lambda: rng.choice(["CALL", "SETATTR", "ALL"])   # noqa: E731
            ops = [self._cls([], [fn("f", "plain", [])], invs=[self._inv(ev())]),
                   self._cls([0], [fn("g", "plain", [])], invs=[self._inv(ev()) for _ in range(rng.choice([1, 2]))]),
                   self._cls([1], rng.choice([[], [fn("__setattr__", "plain", [])]]), invs=rng.choice([[], [self._inv(ev())]]))]
        elif shape == "callable-object-on-base":
            # the base's method carries its contracts beneath a decorator that returns a callable *object*
            # (functools.lru_cache and class-based decorators do); the overriding functions inherit them all the same
            self.fk += 1
            ops = [self._cls([], [fn("f", "plain", rng.choice([[req()], [req(), ens()], [ens()]]) + [["foreign", self.fk, "obj"]])]),
                   self._cls([0], [fn("f", "plain", rng.choice([[], [req()], [ens()]]))]),
                   self._cls(rng.choice([[0], [1]]), [fn("f", "plain", rng.choice([[], [ens()]]))])]
        elif shape == "plain-chain-under-meta":
            # an ordinary class with invariants, an ordinary sub-class that only inherits them, then a class on DBC with
            # an invariant of its own: the ancestors keep their lists
            ops = [self._cls([], [fn("f", "plain", [])], invs=[self._inv(rng.choice(["CALL", "ALL"]))], dbc=False),
                   self._cls([0], rng.choice([[], [fn("g", "plain", [])]]), dbc=False),
                   self._cls([1], rng.choice([[], [fn("g", "plain", [])]]), invs=[self._inv("CALL")], dbc=True)]
        elif shape == "snapshot-misuse":
            # an unnamed snapshot with several parameters above a postcondition: the only reason to reject the definition
            bad = ["invalid", rng.choice(["snapshot_default_args_no_name", "snapshot_many_args_no_name",
                                          "snapshot_no_args_no_name"]), True]
            ops = [{"op": "func", "name": "fn0", "async": rng.random() < 0.3, "kind": "plain", "sig": self.sig("plain"),
                    "decos": [ens(), bad]},
                   self._cls([], [fn("f", "plain", [ens(), bad])])]
        elif shape == "plain-mixin":
            # an ordinary class (no meta-class) with contracts as root or mix-in of a hierarchy on the DBC base
            kind = rng.choice(["plain", "plain", "static", "classm"])
            ops = [self._cls([], [fn("f", kind, rng.choice([[req()], [req(), ens()], [ens()]]))], dbc=False),
                   self._cls([0], [fn("f", kind, rng.choice([[], [ens()], [req()]]))], dbc=True),
                   self._cls([1], rng.choice([[], [fn("f", kind, rng.choice([[], [ens()]]))]]))]
        elif shape == "late-decoration":
            # a member of a sub-class gets one more contract after the classes exist
            ops = [self._cls([], [fn("f", "plain", rng.choice([[req()], [req(), ens()], [ens()]]))]),
                   self._cls([0], [fn("f", "plain", rng.choice([[], [ens()]]))]),
                   self._cls([0], rng.choice([[], [fn("f", "plain", [])]])),
                   {"op": "redecorate", "cls": 1, "name": "f", "deco": rng.choice([req(), ens()])}]
        else:
            # a class that lacks a special method before the class that defines it, in the bases of a third one
            nm = rng.choice(["__setattr__", "__eq__"])
            ops = [self._cls([], [fn(nm, "plain", [ens()])]),
                   self._cls([], [fn("f", "plain", [])], invs=[self._inv("ALL")]),
                   self._cls(order, rng.choice([[], [fn("g", "plain", [])]]))]
        return {"ops": ops, "names": NAMES, "shape": shape, "module": self.rng.choice(MODULES)}


# ------------------------------------------------------------------ Python source
def py_contract_args(c, role, lines, ind):
    return GC_render_contract(c, role, lines, ind)


def GC_render_contract(c, role, lines, ind):
    import render_checker
    return render_checker.render_contract(c, role, lines, ind)


# C15 renders the histories with `enabled=True` spelled out and runs them under -O / -OO
EXPLICIT_ENABLED = False


def py_deco(d, lines, ind):
    import render_checker
    if d[0] == "foreign":
        return ("@W.foreign_obj(%d)" if len(d) > 2 else "@W.foreign(%d)") % d[1]
    en = (", enabled=True" if EXPLICIT_ENABLED else "") if d[2] else ", enabled=False"
    if d[0] == "require":
        return "@icontract.require(%s%s)" % (render_checker.render_contract(d[1], "pre", lines, ind), en)
    if d[0] == "ensure":
        return "@icontract.ensure(%s%s)" % (render_checker.render_contract(d[1], "post", lines, ind), en)
    if d[0] == "snapshot":
        return "@icontract.snapshot(%s%s)" % (render_checker.render_snapshot(d[1], lines, ind), en)
    if d[0] == "invalid":
        k = d[1]
        if k == "error_not_exception_class":
            return "@icontract.require(lambda: True, error=int%s)" % en
        if k == "error_wrong_type":
            return "@icontract.ensure(lambda: True, error=42%s)" % en
        # callable, but neither a function, a method, an exception class nor an exception instance
        if k == "error_callable_object":
            return "@icontract.require(lambda: True, error=W.partial_error%s)" % en
        if k == "error_callable_object_ensure":
            return "@icontract.ensure(lambda: True, error=W.callable_error%s)" % en
        if k == "error_builtin":
            return "@icontract.require(lambda: True, error=len%s)" % en
        if k == "snapshot_no_args_no_name":
            return "@icontract.snapshot(lambda: 1%s)" % en
        if k == "snapshot_many_args_no_name":
            return "@icontract.snapshot(lambda a, b: 1%s)" % en
        if k == "snapshot_default_args_no_name":
            # several parameters, all but one with a default value: still several arguments, still no name
            return "@icontract.snapshot(lambda a, b=2, c=3: 1%s)" % en
    raise ValueError(d)


def py_member(m, ind, lines_out):
    import render_checker
    helpers = []
    decos = [py_deco(d, helpers, ind[:-4] if len(ind) >= 4 else ind) for d in m["decos"]]
    sig = m["sig"]
    recv = {"plain": "self", "classm": "cls", "get": "self", "set": "self", "del": "self", "static": None}[m["kind"]]
    if m.get("toplevel"):
        recv = None
    if m["name"] == "__new__":
        recv = "cls"
    fsig = render_checker.with_receiver(sig, recv)
    text = render_checker.sig_with_defaults(fsig)
    name = m["name"]
    head = []
    if m["kind"] == "static":
        head.append(ind + "@staticmethod")
    elif m["kind"] == "classm":
        head.append(ind + "@classmethod")
    elif m["kind"] == "get" and not m.get("inherit"):
        head.append(ind + "@property")
    elif m["kind"] in ("get", "set", "del"):
        # the property in the class body if there is one already, else the one of the first base
        owner = "%s.%s" % (m["inherit_from"], name) if m.get("inherit_from") else name
        head.append(ind + "@%s.%s" % (owner, {"get": "getter", "set": "setter", "del": "deleter"}[m["kind"]]))
    adef = "async def" if m["async"] else "def"
    body = "return None"
    if name == "__new__":
        body = "return object.__new__(cls)"
    # a docstring and annotations, so that their preservation can be observed
    if m.get("abstract"):
        decos = ["@abc.abstractmethod"] + decos          # nearest to the function
    if m.get("renamed") and m["kind"] == "plain" and not m.get("toplevel") and not head:
        # the member is a function defined under another name (`area = _area_fast`): its __name__ is not the member's
        impl = "icv_impl_" + name
        return helpers, [ind + d for d in reversed(decos)] + [
            "%s%s %s(%s) -> 'R_%s': 'doc of %s'; %s" % (ind, adef, impl, text, name.strip("_"), name, body),
            "%s%s = %s" % (ind, name, impl), "%sdel %s" % (ind, impl)]
    return helpers, head + [ind + d for d in reversed(decos)] + ["%s%s %s(%s) -> 'R_%s': 'doc of %s'; %s"
                                                                 % (ind, adef, name, text, name.strip("_"), name, body)]


def py_op(i, op, class_names):
    """Source text of one definition (executed on its own so that its exception is observed)."""
    L = []
    if op["op"] == "redecorate":
        helpers = []
        text = py_deco(op["deco"], helpers, "")
        return "\n".join([h.lstrip() for h in helpers]
                         + ["%s.%s = %s(%s.%s)" % (class_names[op["cls"]], op["name"], text[1:], class_names[op["cls"]],
                                                   op["name"])]) + "\n"
    if op["op"] == "func" and op.get("partial_of"):
        helpers = []
        decos = [py_deco(d, helpers, "") for d in op["decos"]]
        import render_checker
        # (a definition that raises binds nothing: the name is bound last; where the earlier definition had raised,
        #  a stand-in with its signature is taken)
        lines = ["%s _standin(%s): return None" % ("async def" if op["async"] else "def", render_checker.sig_with_defaults(op["sig"])),
                 "_base = globals().get(%r)" % op["partial_of"],
                 "_new = functools.partial(_base if _base is not None else _standin)"]
        # as with decorator syntax: the decorator expressions are evaluated top-down first, then applied bottom-up
        lines.append("_decorators = [%s]" % ", ".join(d[1:] for d in reversed(decos)))
        lines += ["for _d in reversed(_decorators): _new = _d(_new)", "%s = _new" % op["name"]]
        return "\n".join(helpers + lines) + "\n"
    if op["op"] == "func":
        m = dict(op)
        m["toplevel"] = True
        helpers, lines = py_member(m, "", L)
        return "\n".join(helpers + lines) + "\n"
    helpers_all, body = [], []
    seen_names = set()
    for m in op["members"]:
        m = dict(m)
        if m.get("inherit") and m["name"] not in seen_names and op["bases"]:
            m["inherit_from"] = class_names[op["bases"][int(m.get("inherit_base", 0))]]
        seen_names.add(m["name"])
        helpers, lines = py_member(m, "    ", L)
        helpers_all += [h.lstrip() for h in helpers]
        body += lines
    inv_lines = []
    for d in op["invs"]:
        c = d["contract"]
        en = (", enabled=True" if EXPLICIT_ENABLED else "") if d["enabled"] else ", enabled=False"
        co = ", check_on=icontract.InvariantCheckEvent.%s" % d["check_on"]
        if d["invalid"] == "invariant_with_params":
            # a condition that takes anything beyond `self`, variadic parameters included
            arg = "lambda %s: True" % ["self, other", "self, *others", "self, **others", "*args", "**kwargs", "other"][c["cid"] % 6]
        elif d["invalid"] == "invariant_coroutine":
            helpers_all.append("async def c_%d(self): return True" % c["cid"])
            arg = "c_%d" % c["cid"]
        elif d["invalid"] == "error_wrong_type":
            helpers_all.append("def c_%d(self): return True" % c["cid"])
            arg = "c_%d, error=%s" % (c["cid"], "'boom'" if c["cid"] % 2 else "W.partial_error")
        else:
            helpers_all.append("def c_%d(self): return W.cond('inv', %d, {'self': self})" % (c["cid"], c["cid"]))
            arg = "c_%d" % c["cid"]
        inv_lines.insert(0, "@icontract.invariant(%s%s%s)" % (arg, co, en))
    bases = [class_names[b] for b in op["bases"]]
    if op["dbc"]:
        # the base class DBC, or - the documented alternative - the meta-class itself
        bases.append("metaclass=icontract.DBCMeta" if op.get("via_meta") else "icontract.DBC")
    name = "K%d" % i
    head = "class %s(%s):" % (name, ", ".join(bases)) if bases else "class %s:" % name
    if not body:
        body = ["    pass"]
    return "\n".join(helpers_all + inv_lines + [head] + body) + "\n"


# ------------------------------------------------------------------ Coq terms
MK = {"plain": "MPlain", "static": "MStatic", "classm": "MClassM", "get": "MGet", "set": "MSet", "del": "MDel"}
INVALID_EXN = {"error_not_exception_class": "ValueError", "error_wrong_type": "ValueError",
               "error_callable_object": "ValueError", "error_callable_object_ensure": "ValueError", "error_builtin": "ValueError",
               "snapshot_no_args_no_name": "ValueError", "snapshot_many_args_no_name": "ValueError",
               "snapshot_default_args_no_name": "ValueError",
               "invariant_with_params": "ValueError", "invariant_coroutine": "ValueError"}


def cq_deco(d):
    if d[0] == "foreign":
        return "DForeign %d" % d[1]
    if d[0] == "require":
        return "DRequire %s %s" % (GC.cq_contract(d[1]), C.cq_bool(d[2]))
    if d[0] == "ensure":
        return "DEnsure %s %s" % (GC.cq_contract(d[1]), C.cq_bool(d[2]))
    if d[0] == "snapshot":
        return "DSnapshot %s %s" % (GC.cq_snapshot(d[1]), C.cq_bool(d[2]))
    if d[0] == "invalid":
        return "DInvalid %s %s" % (C.cq_str(INVALID_EXN[d[1]]), C.cq_bool(d[2]))
    raise ValueError(d)


def cq_member(m, toplevel=False):
    import render_checker
    recv = None if toplevel else {"plain": "self", "classm": "cls", "get": "self", "set": "self", "del": "self",
                                  "static": None}[m["kind"]]
    if m["name"] == "__new__" and not toplevel:
        recv = "cls"
    fsig = render_checker.with_receiver(m["sig"], recv)
    return "{| md_name := %s; md_kind := %s; md_async := %s; md_sig := %s; md_decos := %s; md_inherit := %s |}" % (
        C.cq_str(m["name"]), MK[m["kind"]], C.cq_bool(m["async"]), GC.cq_sig(fsig),
        C.cq_list([cq_deco(d) for d in m["decos"]]),
        ("(Some %d%%nat)" % int(m.get("inherit_base", 0))) if m.get("inherit") else "None")


def cq_op(op):
    if op["op"] == "redecorate":
        return "DefRedecorate %d%%nat %s (%s)" % (op["cls"], C.cq_str(op["name"]), cq_deco(op["deco"]))
    if op["op"] == "func":
        return "DefFunction %s" % cq_member(op, toplevel=True)
    invs = C.cq_list(["{| id_contract := %s; id_check_on := %s; id_enabled := %s; id_invalid := %s |}" % (
        GC.cq_contract(d["contract"]), {"CALL": "OnCall", "SETATTR": "OnSetattr", "ALL": "OnAll"}[d["check_on"]],
        C.cq_bool(d["enabled"]), C.cq_opt(d["invalid"], lambda k: C.cq_str(INVALID_EXN[k]))) for d in op["invs"]])
    return "DefClass {| cd_bases := %s; cd_dbc := %s; cd_members := %s; cd_invs := %s |}" % (
        C.cq_list([str(b) for b in op["bases"]]), C.cq_bool(op["dbc"]),
        C.cq_list([cq_member(m) for m in op["members"]]), invs)


def cq_case(case):
    return "{| e_ops := %s; e_names := %s |}" % (C.cq_list([cq_op(op) for op in case["ops"]]),
                                                C.cq_list([C.cq_str(n) for n in case["names"]]))


def cq_role(r):
    if r[0] == "orig":
        return "FOrig"
    if r[0] == "passon":
        return "FPassOn"
    if r[0] == "checker":
        return "FChecker"
    if r[0] == "foreign":
        return "FForeign %d" % r[1]
    if r[0] == "inv":
        return "FInvWrap %s" % C.cq_bool(r[1])
    if r[0] == "new":
        return "FNewWrap"
    return "FForeign 999"


def cq_zl(l):
    return C.cq_list(["%d%%Z" % x if x >= 0 else "(%d)%%Z" % x for x in l])


def cq_fview(v):
    return "{| fv_chain := %s; fv_pre := %s; fv_snaps := %s; fv_post := %s; fv_intro := %s; fv_meta := %s |}" % (
        C.cq_list([cq_role(r) for r in v["chain"]]), C.cq_list([cq_zl(g) for g in v["pre"]]),
        cq_zl(v["snaps"]), cq_zl(v["post"]), C.cq_bool(v.get("intro", True)), C.cq_bool(v.get("meta", True)))


def cq_mview(m):
    if m[0] == "func":
        return "VFunc %s %s" % (MK[m[1]], cq_fview(m[2]))
    if m[0] == "prop":
        return "VProp %s %s %s" % tuple(C.cq_opt(x, cq_fview) for x in m[1:4])
    if m[0] == "slot":
        return "VSlot"
    return "VAbsent"


def cq_cview(c):
    return ("{| cv_members := %s; cv_invs := %s; cv_invs_call := %s; cv_invs_set := %s; cv_owners := %s |}" % (
        C.cq_list([cq_mview(m) for m in c["members"]]), cq_zl(c["invs"]), cq_zl(c["invs_call"]), cq_zl(c["invs_set"]),
        C.cq_list([C.cq_opt(o, str) for o in c["owners"]])))


def cq_history(obs):
    steps = []
    for st in obs:
        wv = "{| wv_funcs := %s; wv_classes := %s; wv_registered := %s |}" % (
            C.cq_list([cq_fview(v) for v in st["funcs"]]), C.cq_list([cq_cview(c) for c in st["classes"]]),
            C.cq_list([str(k) for k in st["registered"]]))
        steps.append("(%s, %s)" % (C.cq_opt(st["error"], C.cq_str), wv))
    return C.cq_list(steps)
