"""C20 - violation messages are deterministic and bounded."""
import itertools
import json
import re

import common as C
import expr_cluster as K
import gen_expr as G

PROP = "C20"
CONE = K.MODEL_FILES + ["Proofs/MessageProofs.v", "Proofs/ExprRefine.v", "Proofs/ExprCorollaries.v", "Props/C20.v"]
RULE = ("the generator of C06 (lines compared with the model, keys strictly sorted, functions and _ARGS/_KWARGS left out), "
        "then, for a sample of the violated cases, the same violation with the library's default repr in subprocesses with "
        "different PYTHONHASHSEED x every permutation of <= 4 keyword arguments (positional call included) x a second call "
        "in the same process after the other violations: byte-identical messages required (file path normalised); and a "
        "call with very large argument values (list of 5000 ints, 100000-character string, dict of 3000 entries, nesting) "
        "under the default repr and under a user-supplied reprlib.Repr with small limits: every value line must be "
        "`key was <that repr's rendering>` and no longer than the limit of that repr allows.")


def gen(rng, tier):
    return G.gen_many(rng, 700 if tier == "quick" else 15000, depth=4 if tier == "quick" else 5)


def norm(msg):
    # every variant of a case is its own function in the generated module: path, line and factory name differ
    return re.sub(r"File \S+?icv_expr_\d+\.py, line \d+ in make_\d+", "File <module>, line <n> in <make>", msg or "")


def determinism(out, rng, tier, cases, problems):
    pool = [c for c in cases if c.get("layout", 0) == 0 and c.get("nesting", 0) == 0][:2000]
    rng.shuffle(pool)
    sample = pool[:40 if tier == "quick" else 400]
    # conditions that name _KWARGS are always in the sample (the dictionary itself is shown then)
    sample += [c for c in pool[len(sample):] if "_KWARGS" in c["cond_params"] and "_ARGS" not in c["cond_params"]][:6]
    # ... and so are the directed shapes whose message could depend on the hash seed
    sample += [c for c in pool if str(c.get("label", "")).startswith("det-") and c not in sample]
    seeds = ["0", "1", "7", "12345"] if tier == "quick" else [str(s) for s in (0, 1, 2, 3, 7, 11, 99, 12345, 4294967295, 31337, 5, 6)]
    variants = []   # (case index, variant case)
    for i, c in enumerate(sample):
        names = list(c["func_params"])
        orders = [None] + [list(p) for p in itertools.islice(itertools.permutations(names), 24)] if len(names) <= 4 else \
                 [None, names, list(reversed(names))]
        if "_ARGS" in c["cond_params"]:
            orders = [c.get("kw_order")]          # the condition looks at how the arguments were passed
        elif "_KWARGS" in c["cond_params"]:
            # ... by keyword: the same keyword arguments in every order (a dictionary with the same items)
            orders = [o for o in orders if o is not None] if c.get("kw_order") is not None else [None]
        for o in orders:
            d = json.loads(json.dumps(c))
            d["kw_order"] = o
            variants.append((i, d))
    # twice in a row in the same process: the second half repeats the first
    payload_cases = [v for _, v in variants] + [v for _, v in variants]
    runs = {}
    from concurrent.futures import ThreadPoolExecutor
    with ThreadPoolExecutor(max_workers=C.NPROC) as ex:
        for seed, res in zip(seeds, ex.map(lambda s: C.run_impl("impl_expr.py", {"cases": payload_cases, "plain": True},
                                                                extra_env={"ICV_HASHSEED": s}), seeds)):
            runs[seed] = res
    n = len(variants)
    differing = []
    compared = 0
    for i in range(len(sample)):
        msgs = {}
        for seed, res in runs.items():
            for j, (ci, v) in enumerate(variants):
                if ci != i:
                    continue
                for rep, o in ((0, res[j]), (1, res[j + n])):
                    if "harness_error" in o:
                        continue
                    compared += 1
                    msgs.setdefault((o.get("outcome"), norm(o.get("message"))), []).append((seed, v.get("kw_order"), rep))
        if len(msgs) > 1:
            differing.append((sample[i], msgs))
    for c, msgs in differing[:2]:
        out.violation("the same violation produced different messages",
                      {"case": c, "source": "lambda %s: %s" % (", ".join(c["cond_params"]), K.X.src(c["tree"])),
                       "messages": [{"outcome": k[0], "message": k[1], "seen_with (hash seed, keyword order, repetition)": v[:4]}
                                    for k, v in msgs.items()]})
    out.coverage["determinism"] = {"violations_sampled": len(sample), "hash_seeds": seeds, "call_variants": len(variants),
                                   "messages_compared": compared, "differing": len(differing)}

    # bounds
    big = C.run_impl("impl_c20_big.py", {})
    out.coverage["bounds"] = big["summary"]
    for f in big["failures"][:2]:
        out.violation("a value line is not `key was <the contract's own repr of the value>` or exceeds its limit: %s" % f["what"], f)


def run(tier, replay=None):
    return K.run(PROP, tier, CONE, "Props/C20.v", gen, RULE, replay=replay, extra=None if replay else determinism)
