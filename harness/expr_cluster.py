"""Shared correspondence for the expression cluster (C06, C07, C20)."""
import collections
import glob
import json
import os
import random

import common as C
import exprlang as X
import gen_expr as G

HEADER = ("From Coq Require Import List String ZArith Bool.\nImport ListNotations.\n"
          "From ICV Require Import Expr PyPrims Message ExprCase.\nOpen Scope string_scope.\nOpen Scope list_scope.\n")
MODEL_FILES = ["Model/Expr.v", "Model/PyPrims.v", "Model/Message.v", "Spec/ExprCase.v"]
SPECS = ["spec_C06", "spec_C07", "spec_C20"]


def cq_case(case, obs):
    return ("{| x_body := %s; x_texts := [%s]; x_cond_params := [%s]; x_kwargs := %s; x_closure := %s; x_globals := %s |}"
            % (X.cq(case["tree"]), "; ".join(X.cq_str(t) for t in obs["texts"]),
               "; ".join(X.cq_str(p) for p in case["cond_params"]), X.cq_env(G.full_kwargs(case)),
               X.cq_env(case["closure"]), X.cq_env(case["globals"])))


def cq_ilog(l):
    return "[%s]" % "; ".join("(%d%%nat, %s)" % (i, X.cq_val(v)) for i, v in l)


def cq_obs(obs):
    t = obs["pytruth"]
    return ("{| o_outcome := %d%%Z; o_lines := %s; o_recorded := %s; o_pylog := %s; o_pytruth := %s; o_text_ok := %s |}"
            % (obs["outcome"], X.cq_env(obs["lines"]), cq_ilog(obs["recorded"]), cq_ilog(obs["pylog"]),
               "None" if t is None else "(Some %s)" % ("true" if t else "false"), "true" if obs["text_ok"] else "false"))


def observe(cases, chunk=150, **extra):
    payloads = [dict(extra, cases=cases[i:i + chunk]) for i in range(0, len(cases), chunk)]
    obs = []
    for r in C.run_impl_parallel("impl_expr.py", payloads):
        obs.extend(r)
    return obs


def evaluate(cases, obs):
    """codes: [python disagrees, library disagrees, C06 fails, C07 fails, C20 fails, in the class of D12b, C06 fails even without the f-string clause, model outcome]"""
    terms = []
    for c, o in zip(cases, obs):
        terms.append("(let c := %s in let o := %s in "
                     "[if agree_python c o then 0 else 1 ; if agree_library c o then 0 else 1 ; "
                     "if spec_C06 c o then 0 else 1 ; if spec_C07 c o then 0 else 1 ; if spec_C20 c o then 0 else 1 ; "
                     "if speculative_failure c then 1 else 0 ; if spec_C06_partial c o then 0 else 1 ; "
                     "match model_outcome c with XViolation _ => 0 | XRecomputeError => 1 | XNoViolation => 2 | XConditionRaises _ => 3 end])%%Z"
                     % (cq_case(c, o), cq_obs(o)))
    return C.coq_eval_lists(HEADER, terms, name="xp", chunk=60)


def model_view(case, obs):
    import subprocess
    wd = C.workdir()
    fn = os.path.join(wd, "one_expr.v")
    with open(fn, "w") as fh:
        fh.write(HEADER + "Definition c := %s.\nEval vm_compute in (model_outcome c).\n"
                 "Eval vm_compute in (match py_run c with Ok (v, (_, l)) => Some (v, ilog_of c l) | Err _ => None end).\n"
                 "Eval vm_compute in (match rc_run c with Ok (v, (_, l)) => Some (v, ilog_of c l) | Err _ => None end).\n"
                 % cq_case(case, obs))
    p = subprocess.run(["coqc", "-Q", C.COQ, "ICV", fn], capture_output=True, text=True, cwd=wd)
    return " ".join((p.stdout + p.stderr).split())[:5000]


def shape_of(case, obs):
    kinds = collections.Counter(n[0] for n in X.subexprs(case["tree"]))
    tags = [k for k in ("comp", "named", "fstr", "star", "if", "dict", "slice", "attr") if kinds.get(k)]
    return "%s/%s" % ({0: "violation", 1: "recompute-error", 2: "no-error", 3: "condition-raises", 4: "other"}[obs["outcome"]],
                      "+".join(tags) or "plain")


def load_corpus(prop):
    out = []
    for path in sorted(glob.glob(os.path.join(C.VERIF, "corpus", prop, "expr-*.json"))):
        with open(path) as fh:
            out.append(json.load(fh)["case"])
    return out
