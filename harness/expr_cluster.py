"""Shared correspondence for the expression cluster (C06, C07, C20)."""
import collections
import glob
import json
import os
import random

import common as C
import exprlang as X
import gen_expr as G

HEADER = ("From Coq Require Import List String ZArith Bool.\nImport ListNotations.\n"
          "From ICV Require Import Expr PyPrims Message ExprCase.\nOpen Scope string_scope.\nOpen Scope list_scope.\n")
MODEL_FILES = ["Model/Expr.v", "Model/PyPrims.v", "Model/Message.v", "Spec/ExprCase.v"]
SPECS = ["spec_C06", "spec_C07", "spec_C20"]


def cq_case(case, obs):
    return ("{| x_body := %s; x_texts := [%s]; x_cond_params := [%s]; x_kwargs := %s; x_defaults := %s; x_closure := %s; "
            "x_globals := %s |}"
            % (X.cq(case["tree"]), "; ".join(X.cq_str(t) for t in obs["texts"]),
               "; ".join(X.cq_str(p) for p in case["cond_params"]), X.cq_env(G.full_kwargs(case)),
               X.cq_env(case.get("cond_defaults", [])), X.cq_env(case["closure"]), X.cq_env(case["globals"])))


def cq_ilog(l):
    return "[%s]" % "; ".join("(%d%%nat, %s)" % (i, X.cq_val(v)) for i, v in l)


def cq_obs(obs):
    t = obs["pytruth"]
    return ("{| o_outcome := %d%%Z; o_lines := %s; o_recorded := %s; o_pylog := %s; o_pyinner := %s; o_pytruth := %s; "
            "o_text_ok := %s |}"
            % (obs["outcome"], X.cq_env(obs["lines"]), cq_ilog(obs["recorded"]), cq_ilog(obs["pylog"]),
               cq_ilog(obs.get("pyinner", [])),
               "None" if t is None else "(Some %s)" % ("true" if t else "false"), "true" if obs["text_ok"] else "false"))


def observe(cases, chunk=150, pyflags=(), **extra):
    payloads = [dict(extra, cases=cases[i:i + chunk]) for i in range(0, len(cases), chunk)]
    obs = []
    for r in C.run_impl_parallel("impl_expr.py", payloads, pyflags=pyflags):
        obs.extend(r)
    return obs


def evaluate(cases, obs):
    """codes: [python disagrees, library disagrees, C06 fails, C07 fails, C20 fails, in the class of D12b, C06 fails even without the f-string clause, model outcome]"""
    terms = []
    for c, o in zip(cases, obs):
        terms.append("(let c := %s in let o := %s in "
                     "[if agree_python c o then 0 else 1 ; if agree_library c o then 0 else 1 ; "
                     "if spec_C06 c o then 0 else 1 ; if spec_C07 c o then 0 else 1 ; if spec_C20 c o then 0 else 1 ; "
                     "if speculative_failure c then 1 else 0 ; if spec_C06_partial c o then 0 else 1 ; "
                     "match model_outcome c with XViolation _ => 0 | XRecomputeError => 1 | XNoViolation => 2 | XConditionRaises _ => 3 end])%%Z"
                     % (cq_case(c, o), cq_obs(o)))
    return C.coq_eval_lists(HEADER, terms, name="xp", chunk=60)


def model_view(case, obs):
    import subprocess
    wd = C.workdir()
    fn = os.path.join(wd, "one_expr.v")
    with open(fn, "w") as fh:
        fh.write(HEADER + "Definition c := %s.\nEval vm_compute in (model_outcome c).\n"
                 "Eval vm_compute in (match py_run c with Ok (v, (_, l)) => Some (v, ilog_of c l) | Err _ => None end).\n"
                 "Eval vm_compute in (match rc_run c with Ok (v, (_, l)) => Some (v, ilog_of c l) | Err _ => None end).\n"
                 % cq_case(case, obs))
    p = subprocess.run(["coqc", "-Q", C.COQ, "ICV", fn], capture_output=True, text=True, cwd=wd)
    return " ".join((p.stdout + p.stderr).split())[:5000]


def shape_of(case, obs):
    kinds = collections.Counter(n[0] for n in X.subexprs(case["tree"]))
    tags = [k for k in ("comp", "named", "fstr", "star", "if", "dict", "slice", "attr") if kinds.get(k)]
    return "%s/%s" % ({0: "violation", 1: "recompute-error", 2: "no-error", 3: "condition-raises", 4: "other"}[obs["outcome"]],
                      "+".join(tags) or "plain")


def load_corpus(prop):
    out = []
    for path in sorted(glob.glob(os.path.join(C.VERIF, "corpus", prop, "expr-*.json"))):
        with open(path) as fh:
            out.append(json.load(fh)["case"])
    return out


KF = {"kf_C06_fstring_inner": "C06", "kf_C07_speculative": "C07"}


def run(prop, tier, cone, props_file, gen_cases, rule, replay=None, layout_cases=None, extra=None):
    """prop in C06/C07/C20.  gen_cases(rng, tier) -> list of cases compared in full; layout_cases(rng, tier) ->
    cases for which only the exception class and the condition text are compared (C07)."""
    out = C.Outcome(prop, tier)
    build = C.regenerate_and_build()
    problems = C.proof_section(out, build, cone, props_file)
    if not build.ok_for(MODEL_FILES):
        out.violation("the executable model does not build: " + "; ".join(problems),
                      {"problems": problems, "log": build.log[-3000:]}, found_input=False)
        return out.finish()
    rng = random.Random(C.seed() * 104729 + sum(map(ord, prop)))
    spec_col = {"C06": 2, "C07": 3, "C20": 4}[prop]
    if replay:
        with open(replay) as fh:
            rp = json.load(fh)
        full, partial = ([rp["case"]], []) if not rp.get("layout_only") else ([], [rp["case"]])
        ncorpus = 0
    else:
        corpus = load_corpus(prop)
        ncorpus = len(corpus)
        full = corpus + gen_cases(rng, tier)
        partial = layout_cases(rng, tier) if layout_cases else []
    cases = full + partial
    obs = observe(cases)
    herr = [(c, o) for c, o in zip(cases, obs) if "harness_error" in o]
    for c, o in herr[:1]:
        out.violation("the implementation could not be driven on a generated case: %s" % o["harness_error"],
                      {"case": c, "observation": o, "source": X.src(c["tree"])}, found_input=False)
    live = [(c, o, i >= len(full)) for i, (c, o) in enumerate(zip(cases, obs)) if "harness_error" not in o]
    codes = evaluate([c for c, _, _ in live], [o for _, o, _ in live])
    kf = C.load_known_findings()
    listed = {f["id"] for f in kf.get("findings", []) if prop in ([f["property"]] + f.get("also", []))}
    shapes = collections.Counter()
    distinct = set()
    spec_fail, py_dis, lib_dis, known_hits = [], [], [], collections.Counter()
    for (c, o, layout_only), code in zip(live, codes):
        shapes[shape_of(c, o) + ("/layout%d.%d" % (c.get("layout", 0), c.get("nesting", 0)) if layout_only else "")] += 1
        if o["outcome"] in (0, 1):
            distinct.add(json.dumps([c["tree"], o.get("lines"), o["outcome"]], sort_keys=True))
        if code[0]:
            py_dis.append((c, o))
        if code[1] and not layout_only:
            lib_dis.append((c, o))
        if layout_only and prop != "C07":
            continue
        if code[spec_col]:
            cls = None
            if prop == "C06" and not code[6]:
                cls = "kf_C06_fstring_inner"
            if prop == "C07" and code[5]:
                cls = "kf_C07_speculative"
            if cls and cls in listed:
                known_hits[cls] += 1
            else:
                spec_fail.append((c, o, layout_only, cls))
    for cls, n in known_hits.items():
        f = [f for f in kf["findings"] if f["id"] == cls][0]
        out.known_finding("%s (%d cases in the class on this run)" % (f["what"], n))

    def payload(c, o, layout_only=False):
        return {"case": c, "layout_only": layout_only, "source": "lambda %s: %s" % (", ".join(c["cond_params"]), X.src(c["tree"])),
                "call": {"args": c["args"], "closure": c["closure"], "globals": c["globals"][:-4], "kw_order": c.get("kw_order")},
                "observation": {k: o.get(k) for k in ("outcome", "message", "lines", "pytruth", "pyexc", "text_ok", "cause")},
                "python_log": o.get("pylog"), "recomputed_values": o.get("recorded"),
                "model": model_view(c, o) if "texts" in o else None, "how": "./check %s --replay <this file>" % prop}
    for c, o, layout_only, cls in spec_fail[:3]:
        out.violation("spec_%s is false of the implementation: %s" % (prop, (o.get("message") or "")[:160].replace("\n", " | ")),
                      payload(c, o, layout_only))
    if py_dis:
        problems.append("the reference semantics (Model/Expr.ev) disagrees with CPython on %d case(s)" % len(py_dis))
    if lib_dis and not spec_fail:
        problems.append("model and library disagree on %d case(s)" % len(lib_dis))
    if extra:
        extra(out, rng, tier, [c for c, _, lo in live if not lo], problems)
    if problems and not out.violations:
        pl = {"no_longer_checks": problems}
        if py_dis or lib_dis:
            pl.update(payload(*(py_dis or lib_dis)[0]))
        out.violation("; ".join(problems), pl, found_input=False)
    cov = out.coverage
    cov.update({
        "evaluations": cov.get("evaluations", 0) + len(cases),
        "distinct_nontrivial": len(distinct),
        "rule": rule,
        "traces_validated_against_impl": len(live),
        "vm_compute_cases": len(live),
        "corpus_cases": ncorpus,
        "disagreements_with_cpython": len(py_dis),
        "disagreements_with_library": len(lib_dis),
        "spec_failures_on_implementation": len(spec_fail) + sum(known_hits.values()),
        "known_finding_cases": dict(known_hits),
        "distribution": dict(shapes.most_common(60)),
        "samples": [{"source": X.src(c["tree"])[:200], "outcome": o["outcome"], "lines": o.get("lines", [])[:6]}
                    for c, o, _ in live[:2] + live[-1:]],
        "specs": ["agree_python", "agree_library", "spec_" + prop],
    })
    out.assumptions += [
        "the data model (operators, truth, calls, iteration, formatting) is an oracle: a mini-domain in Model/PyPrims.v, "
        "compared with CPython node by node on every run",
        "source text of a node is what asttokens returns (passed into the model as a table)",
        "not in the model: set displays and comprehensions, /, **, @, format specs, lambda, await, bytes, floats",
    ]
    return out.finish()
