#!/bin/bash
# usage: try_seeded.sh <name> <prop> [<prop> ...]  -- applies /verif/seeded/<name>/patch.diff to /repo, runs the checks, undoes it
# (the evidence files written while the change is applied are discarded: evidence is for the unchanged tree only)
name=$1; shift
cd /repo && git apply /verif/seeded/$name/patch.diff || { echo "patch does not apply"; exit 2; }
cd /verif
for p in "$@"; do echo "--- $p"; ./check $p 2>&1 | grep -v "^note" | tail -3; done
cd /repo && git checkout -- . && git status --short | head -3
cd /verif && git checkout -- evidence 2>/dev/null
