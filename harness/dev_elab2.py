import json, random, sys, subprocess, collections
import common as C, gen_elab as G
n=int(sys.argv[1]); seed=int(sys.argv[2])
rng=random.Random(seed)
g=G.GenElab(rng)
cases=[g.history() for _ in range(n)]
obs=C.run_impl("impl_elab.py", {"cases": cases})
HEADER="From ICV Require Import Base Bind Checker Elab ElabCase ElabOracle.\nOpen Scope string_scope.\nOpen Scope list_scope.\n"
terms=[]; idx=[]
for i,(c,o) in enumerate(zip(cases,obs)):
    if isinstance(o, dict): print("DRIVER ERROR", o); continue
    terms.append("(let c := %s in let h := %s in let mh := run_ecase c in let wm := fst (run_defs empty_world (e_ops c)) in [if history_eqb mh h then 0%%Z else 1%%Z; if spec_C17 c wm h then 0%%Z else 1%%Z; spec_C04_code c wm (snd (last h (None, empty_view))); if spec_C14_stacks c h then 0%%Z else 1%%Z; if spec_C19_defs c h then 0%%Z else 1%%Z; if spec_C03_selection_ true c wm h then 0%%Z else 1%%Z; if spec_C17 c wm mh then 0%%Z else 1%%Z; spec_C04_code c wm (snd (last mh (None, empty_view))); if spec_C14_stacks c mh then 0%%Z else 1%%Z; if spec_C19_defs c mh then 0%%Z else 1%%Z; if spec_C03_selection_ true c wm mh then 0%%Z else 1%%Z])" % (G.cq_case(c), G.cq_history(o))); idx.append(i)
res=C.coq_eval_lists(HEADER, terms, name="develab2", chunk=40)
print(collections.Counter(tuple(r) for r in res))
show=[(idx[j],r) for j,r in enumerate(res) if r[6:]!=[0,0,0,0,0] or r[1]!=0 or r[2]==2 or r[3]!=0 or r[4]!=0 or r[5]!=0]
print(show[:10])
