"""Shared correspondence for the re-entrancy properties (C10, C11): programs whose contracts call
contracted code, sequences of top-level operations, exceptions raised at every kind of site,
cancellation / close injected at suspension points of async calls."""
import collections
import glob
import json
import os
import random
import subprocess

import common as C
import gen_run as G

HEADER = ("From Coq Require Import List ZArith Bool.\nFrom ICV Require Import Run RunCase RunRef RunOracle.\n"
          "Import ListNotations.\n")
MODEL_FILES = ["Model/Run.v", "Spec/RunCase.v", "Spec/RunRef.v", "Spec/RunOracle.v"]


def load_corpus(prop):
    out = []
    for path in sorted(glob.glob(os.path.join(C.VERIF, "corpus", prop, "*.json"))):
        with open(path) as fh:
            case = json.load(fh)["case"]
        if "prog" in case:          # other clusters keep their witnesses in the same directory
            out.append(case)
    return out


def observe(cases, chunk=150):
    payloads = [{"cases": cases[i:i + chunk]} for i in range(0, len(cases), chunk)]
    obs = []
    for r in C.run_impl_parallel("impl_run.py", payloads):
        obs.extend(r)
    return obs


def model_observation(case):
    wd = C.workdir()
    fn = os.path.join(wd, "one_run.v")
    with open(fn, "w") as fh:
        fh.write(HEADER + "Eval vm_compute in run_rcase %s.\n" % G.cq_case(case))
    p = subprocess.run(["coqc", "-Q", C.COQ, "ICV", fn], capture_output=True, text=True, cwd=wd)
    return " ".join(p.stdout.split())[:6000]


def python_script(case):
    return ("# replay: PYTHONPATH=/repo /venv/bin/python /verif/harness/impl_run.py < file containing {\"cases\": [case]}\n"
            "# functions f<i> carry pre/post/snapshot conditions that call the listed targets; see harness/impl_run.py")


def run(prop, tier, cone, props_file, spec, gen_cases, nquick, nthorough, rule, replay=None):
    out = C.Outcome(prop, tier)
    build = C.regenerate_and_build()
    problems = C.proof_section(out, build, cone, props_file)
    run_into(out, build, problems, prop, tier, spec, gen_cases, nquick, nthorough, rule, replay)
    return out.finish()


def run_into(out, build, problems, prop, tier, spec, gen_cases, nquick, nthorough, rule, replay=None):
    rng = random.Random(C.seed() * 104729 + sum(map(ord, prop)))
    if not build.ok_for(MODEL_FILES):
        out.violation("the executable model does not build: " + "; ".join(problems),
                      {"problems": problems, "log": build.log[-3000:]}, found_input=False)
        return
    if replay:
        with open(replay) as fh:
            cases = [json.load(fh)["case"]]
        ncorpus = 0
    else:
        corpus = load_corpus(prop)
        ncorpus = len(corpus)
        cases = corpus + gen_cases(rng, nquick if tier == "quick" else nthorough)
    obs = observe(cases)
    live, skipped, defn = [], 0, []
    for c, o in zip(cases, obs):
        if isinstance(o, dict):
            defn.append((c, o))
        elif any(op.get("truncated") for op in o):
            skipped += 1      # call tree too large to compare (more than 300 pieces of user code in one operation)
        else:
            live.append((c, o))
    terms = []
    for c, o in live:
        terms.append("(let c := %s in let o := %s in let mo := run_rcase c in "
                     "[if robs_list_eqb mo o then 0%%Z else 1%%Z; if %s c o then 0%%Z else 1%%Z; "
                     "if %s c mo then 0%%Z else 1%%Z])" % (G.cq_case(c), G.cq_robs(o), spec, spec))
    codes = C.coq_eval_lists(HEADER, terms, name="run", chunk=60)
    disagreements, spec_fail, model_fail = [], [], []
    shapes = collections.Counter()
    distinct = set()
    n_ops = n_reentrant = n_faulted = n_cancelled = 0
    for (c, o), code in zip(live, codes):
        truncated = any(op.get("truncated") for op in o)
        for op, ob in zip(c["ops"], o):
            n_ops += 1
            kinds = [e[0] for e in ob["events"]]
            # re-entry: the same body / method appears twice in one operation
            if len(kinds) != len(set(map(json.dumps, ob["events"]))):
                n_reentrant += 1
            if ob["outcome"][0] == "user":
                n_faulted += 1
            if op["plan"]:
                n_cancelled += 1
            shapes[ob["outcome"][0] + ("/async" if c["prog"]["async"] else "/sync")] += 1
            if len(ob["events"]) > 2:
                distinct.add(json.dumps([ob["events"], ob["outcome"]]))
        if code[0]:
            disagreements.append((c, o))
        if code[1]:
            spec_fail.append((c, o))
        if code[2]:
            model_fail.append((c, o))
    # prefer small failing programs in the report
    spec_fail.sort(key=lambda co: len(json.dumps(co[0])))
    for c, o in spec_fail[:2]:
        out.violation("%s is false of the implementation's observation" % spec,
                      {"case": c, "observation": o, "model_observation": model_observation(c),
                       "how": "./check %s --replay <this file>" % prop, "script": python_script(c)})
    for c, o in defn[:1]:
        out.violation("a generated program failed at definition time: %s" % o, {"case": c, "observation": o})
    if model_fail:
        problems.append("the model's own observation does not satisfy %s" % spec)
    if (problems or disagreements) and not out.violations:
        what = "; ".join(problems + (["model and implementation disagree on %d case(s)" % len(disagreements)]
                                     if disagreements else []))
        payload = {"no_longer_checks": problems or ["correspondence Model/Run.v <-> icontract._checkers wrappers"]}
        if disagreements:
            disagreements.sort(key=lambda co: len(json.dumps(co[0])))
            c, o = disagreements[0]
            payload.update({"case": c, "observation": o, "model_observation": model_observation(c)})
        out.violation(what, payload, found_input=False)
    samples = [{"program": c["prog"], "ops": c["ops"], "observation": o} for c, o in live[:1]]
    cov = out.coverage
    rule = (cov["rule"] + " || " if cov.get("rule") else "") + rule
    n_ops += cov.get("evaluations", 0)
    ndistinct = len(distinct) + cov.get("distinct_nontrivial", 0)
    samples = cov.get("samples", []) + samples
    nlive = len(live) + cov.get("traces_validated_against_impl", 0)
    out.coverage.update({
        "evaluations": n_ops,
        "distinct_nontrivial": ndistinct,
        "rule": rule,
        "samples": samples,
        "programs": len(cases),
        "traces_validated_against_impl": nlive,
        "run_cluster_vm_compute_cases": len(live),
        "run_cluster_corpus_cases": ncorpus,
        "programs_skipped_trace_too_long": skipped,
        "operations_with_reentry": n_reentrant,
        "operations_ending_in_user_exception": n_faulted,
        "operations_with_injected_cancellation": n_cancelled,
        "run_cluster_disagreements": len(disagreements),
        "run_cluster_spec_failures_on_implementation": len(spec_fail),
        "run_cluster_distribution": dict(shapes),
    })
    cov.setdefault("vm_compute_cases", len(live))
    cov.setdefault("corpus_cases", ncorpus)
    cov.setdefault("disagreements", len(disagreements))
    cov.setdefault("spec_failures_on_implementation", len(spec_fail))
    cov.setdefault("distribution", dict(shapes))
    out.assumptions += ["user code is scripts (calls, awaits, verdict); bodies are ranked (generator invariant)",
                        "async calls are driven by hand (coro.send / coro.throw) in the caller's context"]
