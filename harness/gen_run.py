"""Generator and renderers for the re-entrancy cluster (C10, C11): programs of contracted functions
and classes whose conditions / captures / bodies / invariants call each other."""
import common as C


# ------------------------------------------------------------------ generation
def exc_tag(rng):
    return 8 * rng.randrange(1, 40) + rng.choice([0, 0, 1, 2, 3, 4])


class GenRun:
    def __init__(self, rng, is_async=False, faults=0.0, awaits=0.0, new_style=0.0):
        self.rng = rng
        self.new_style = new_style      # share of classes that define __new__ and no __init__
        self.is_async = is_async
        self.faults = faults
        self.awaits = awaits
        self.next_pt = 0

    def script(self, targets, truthy=0.85, ncalls=(0, 0, 1, 1, 2), allow_false=True, sync_only=False):
        rng = self.rng
        acts = []
        for _ in range(0 if sync_only else rng.choice(ncalls)):
            if targets:
                acts.append(["call", rng.choice(targets)])
            if self.is_async and rng.random() < self.awaits:
                acts.append(["await", self.next_pt])
                self.next_pt += 1
        if rng.random() < self.faults:
            verdict = ["raise", exc_tag(rng)]
        else:
            verdict = ["ret", (rng.random() < truthy) or not allow_false]
        return [acts, verdict]

    def program(self, nf=None, nc=None):
        rng = self.rng
        nf = nf if nf is not None else rng.choice([1, 2, 2, 3])
        nc = nc if nc is not None else rng.choice([0, 1, 1, 2])
        nmeth = [rng.choice([1, 2]) for _ in range(nc)]
        objs = []
        for c in range(nc):
            objs += [c] * rng.choice([1, 2])
        fn_targets = [["fn", f] for f in range(nf)]
        meth_targets = [["meth", o, m] for o, c in enumerate(objs) for m in range(nmeth[c])]
        everything = fn_targets + meth_targets
        # bodies must be ranked (the uncontracted program terminates): a body may only call targets of lower rank.
        # rank: functions by index, then methods (object-major).
        rank = {tuple(t): i for i, t in enumerate(everything)}

        def lower(t):
            return [u for u in everything if rank[tuple(u)] < rank[tuple(t)]]
        fns = []
        for f in range(nf):
            npre = rng.choice([0, 1, 1, 2])
            pre = [[self.script(everything) for _ in range(npre)]] if npre else []
            npost = rng.choice([0, 0, 1, 2])
            post = [self.script(everything) for _ in range(npost)]
            snaps = [self.script(everything, allow_false=False) for _ in range(rng.choice([0, 0, 1]) if npost else 0)]
            # a body may call itself "recursively" only through lower-ranked targets; plus (checked) self-recursion
            # is exercised by lower-ranked functions calling higher-ranked ones from contracts.
            body = self.script(lower(["fn", f]), allow_false=False)
            fns.append({"pre": pre, "snaps": snaps, "post": post, "body": body})
        classes = []
        for c in range(nc):
            # the conditions of invariants are plain functions: in a program of coroutine functions they call nothing
            invs = [self.script(everything, sync_only=self.is_async) for _ in range(rng.choice([1, 1, 2]))]
            meths = []
            for m in range(nmeth[c]):
                # method bodies of class c: ranked by the lowest-ranked instance of the class
                insts = [o for o, cc in enumerate(objs) if cc == c]
                low = min(rank[("meth", o, m)] for o in insts)
                meths.append(self.script([u for u in everything if rank[tuple(u)] < low], allow_false=False))
            init = self.script([], allow_false=False)   # filled per instance below (self-calls)
            classes.append({"invs": invs, "meths": meths, "init": init, "new": rng.random() < self.new_style})
        # constructors may call methods of the instance under construction: expressed with the "self" pseudo-target
        for c in range(nc):
            acts = []
            for _ in range(0 if self.is_async else rng.choice([0, 1, 1])):
                acts.append(["call", ["selfmeth", rng.randrange(nmeth[c])]])
            for _ in range(0 if self.is_async else rng.choice([0, 0, 1])):
                if fn_targets:
                    acts.append(["call", rng.choice(fn_targets)])
            classes[c]["init"] = [acts, ["raise", exc_tag(rng)] if rng.random() < self.faults else ["ret", True]]
        return {"fns": fns, "classes": classes, "objs": objs, "async": self.is_async}

    def case(self):
        rng = self.rng
        self.next_pt = 0
        prog = self.program()
        ops = []
        for o in range(len(prog["objs"])):
            ops.append({"target": ["new" if prog["classes"][prog["objs"][o]].get("new") else "init", o], "plan": {}})
        targets = [["fn", f] for f in range(len(prog["fns"]))] + \
                  [["meth", o, m] for o, c in enumerate(prog["objs"]) for m in range(len(prog["classes"][c]["meths"]))]
        for _ in range(rng.choice([2, 3, 4])):
            plan = {}
            if self.is_async and self.next_pt and rng.random() < 0.5:
                plan[str(rng.randrange(self.next_pt))] = 8 * rng.randrange(1, 40) + rng.choice([0, 3, 4])
            ops.append({"target": rng.choice(targets), "plan": plan})
        return {"prog": prog, "ops": ops}


# ------------------------------------------------------------------ Coq terms
def cq_target(t, self_obj=None):
    if t[0] == "fn":
        return "(TFn %d)" % t[1]
    if t[0] == "meth":
        return "(TMeth %d %d)" % (t[1], t[2])
    if t[0] == "init":
        return "(TInit %d)" % t[1]
    if t[0] == "new":
        return "(TNew %d)" % t[1]
    if t[0] == "selfmeth":
        return "(TMeth %d %d)" % (self_obj, t[1])
    raise ValueError(t)


def cq_script(sc, self_obj=None):
    acts = []
    for a in sc[0]:
        if a[0] == "call":
            acts.append("ACall %s" % cq_target(a[1], self_obj))
        else:
            acts.append("AAwait %d" % a[1])
    v = sc[1]
    verdict = "VRet %s" % C.cq_bool(v[1]) if v[0] == "ret" else "VRaise %d%%Z" % v[1]
    return "(%s, %s)" % (C.cq_list(acts), verdict)


def cq_program(prog):
    """Each instance gets its own copy of its class in the Coq term so that the constructor's
    calls on `self` name the instance (classes are shared on the Python side)."""
    fns = C.cq_list(["{| fn_pre := %s; fn_snaps := %s; fn_post := %s; fn_body := %s |}" % (
        C.cq_list([C.cq_list([cq_script(s) for s in g]) for g in f["pre"]]),
        C.cq_list([cq_script(s) for s in f["snaps"]]), C.cq_list([cq_script(s) for s in f["post"]]),
        cq_script(f["body"])) for f in prog["fns"]])
    classes = []
    for o, c in enumerate(prog["objs"]):
        cd = prog["classes"][c]
        classes.append("{| cl_invs := %s; cl_meths := %s; cl_init := %s |}" % (
            C.cq_list([cq_script(s) for s in cd["invs"]]), C.cq_list([cq_script(s) for s in cd["meths"]]),
            cq_script(cd["init"], self_obj=o)))
    return "{| p_fns := %s; p_classes := %s; p_objs := %s |}" % (
        fns, C.cq_list(classes), C.cq_list([str(o) for o in range(len(prog["objs"]))]))


def cq_case(case, fuel=40):
    ops = C.cq_list(["(%s, %s)" % (cq_target(op["target"]),
                                   C.cq_list(["(%s, %d%%Z)" % (k, v) for k, v in op["plan"].items()]))
                     for op in case["ops"]])
    return "{| r_prog := %s; r_ops := %s; r_fuel := %d |}" % (cq_program(case["prog"]), ops, fuel)


def cq_site(s):
    k = s[0]
    if k == "pre":
        return "SPre %d %d %d" % (s[1], s[2], s[3])
    if k == "cap":
        return "SCap %d %d" % (s[1], s[2])
    if k == "body":
        return "SBody %d" % s[1]
    if k == "post":
        return "SPost %d %d" % (s[1], s[2])
    if k == "inv":
        return "SInv %d %d" % (s[1], s[2])
    if k == "meth":
        return "SMeth %d %d" % (s[1], s[2])
    if k == "initbody":
        return "SInitBody %d" % s[1]
    raise ValueError(s)


def cq_robs(obs):
    out = []
    for op in obs:
        tr = C.cq_list(["EvSite (%s)" % cq_site(s) for s in op["events"]])
        o = op["outcome"]
        if o[0] == "ret":
            oc = "ORet true"
        elif o[0] == "user":
            oc = "OExn (EUser %d%%Z)" % o[1]
        elif o[0] == "viol":
            oc = "OExn (EViol (%s))" % cq_site(o[1])
        else:
            oc = "OExn (EUser (-1)%Z)"    # anything else (RecursionError, library errors): never equal to a model outcome
        ks = C.cq_list(["KF %d" % k[1] if k[0] == "f" else ("KO %d" % k[1] if k[0] == "o" else "KF 99")
                        for k in op["in_progress"]])
        out.append("(%s, %s, %s)" % (tr, oc, ks))
    return C.cq_list(out)


# ------------------------------------------------------------------ C12: concurrent worlds
def gen_conc_case(rng, mode=None):
    mode = mode or rng.choice(["asyncio", "asyncio", "threads"])
    g = GenRun(rng, is_async=True, faults=0.03, awaits=0.6)   # awaits are gates in both modes
    nf = rng.choice([1, 1, 2])
    # threads only (__new__ is no coroutine): two callers construct instances of one class that defines __new__, the
    # first one waits inside an invariant of its new instance while the second one constructs its own
    newrace = mode == "threads" and rng.random() < 0.3
    prog = g.program(nf=nf, nc=1 if newrace else rng.choice([0, 0, 1]))
    while newrace and len(prog["objs"]) < 2:
        prog = g.program(nf=nf, nc=1)
    if newrace:
        prog["classes"][0]["new"] = True
        prog["classes"][0]["invs"][rng.randrange(len(prog["classes"][0]["invs"]))][0].append(["await", g.next_pt])
        g.next_pt += 1
    prog["async"] = (mode == "asyncio")
    meths = [["meth", o, m] for o, c in enumerate(prog["objs"]) for m in range(len(prog["classes"][c]["meths"]))]
    # make sure the first function has a suspension point inside a contract or its body
    f0 = prog["fns"][0]
    if not f0["pre"]:
        f0["pre"] = [[[[], ["ret", True]]]]
    where = rng.choice(["pre", "pre", "body", "post"])
    if where == "pre":
        f0["pre"][0][0][0].append(["await", g.next_pt]); g.next_pt += 1
    elif where == "body":
        f0["body"][0].append(["await", g.next_pt]); g.next_pt += 1
    else:
        if not f0["post"]:
            f0["post"] = [[[], ["ret", True]]]
        f0["post"][0][0].append(["await", g.next_pt]); g.next_pt += 1
    ntasks = rng.choice([2, 2, 3])
    ops = []
    # threads only (a constructor is no coroutine): one caller re-runs the constructor of a shared object and waits in
    # there while the others call its methods
    reinit = None
    if mode == "threads" and prog["objs"] and not newrace and rng.random() < 0.5:
        reinit = rng.randrange(len(prog["objs"]))
        init = prog["classes"][prog["objs"][reinit]]["init"]
        init[0].append(["await", g.next_pt]); g.next_pt += 1
    warm = rng.random() < 0.7
    inherit = []
    for i in range(ntasks):
        h = rng.choice(["copy", "copy", "fresh"])
        inherit.append(h)
        if newrace and i < 2:
            target = ["new", i]
        elif reinit is not None and i == 0:
            target = ["init", reinit]
        elif reinit is not None and rng.random() < 0.7:
            target = rng.choice([t for t in meths if t[1] == reinit] or meths)
        elif meths and rng.random() < 0.6:
            target = rng.choice(meths)            # several tasks on the methods of the same few objects
        else:
            target = ["fn", rng.randrange(nf) if rng.random() < 0.3 else 0]
        ops.append(["spawn", h, warm, target])
    budget = [rng.choice([2, 3, 4]) for _ in range(ntasks)]
    slots = [i for i in range(ntasks) for _ in range(budget[i])]
    style = rng.random()
    if style < 0.15:
        pass                                  # one after the other
    elif style < 0.3:
        slots = sorted(slots, key=lambda i: -i)
    else:
        rng.shuffle(slots)
    for t in slots:
        if mode == "asyncio" and rng.random() < 0.06:
            ops.append(["cancel", t])
        ops.append(["advance", t])
    case = {"prog": prog, "mode": mode, "ops": ops, "warm_fn": 0}
    if not small_enough(case, cap=120):
        return gen_conc_case(rng, mode)
    return case


def cq_conc_case(case, fuel=30):
    ops = []
    for op in case["ops"]:
        if op[0] == "spawn":
            ops.append("CSpawn %s %s %s" % ("CopyOfCreator" if op[1] == "copy" else "Fresh", C.cq_bool(op[2]), cq_target(op[3])))
        elif op[0] == "advance":
            ops.append("CAdvance %d" % op[1])
        else:
            ops.append("CCancel %d 4%%Z" % op[1])
    return "{| cc_prog := %s; cc_ops := %s; cc_fuel := %d |}" % (cq_program(case["prog"]), C.cq_list(ops), fuel)


def cq_cobs(obs):
    out = []
    for tk in obs:
        tr = C.cq_list(["EvSite (%s)" % cq_site(s) for s in tk["events"]])
        o = tk["outcome"]
        if o is None:
            oc = "None"
        elif o[0] == "ret":
            oc = "Some (ORet true)"
        elif o[0] == "user":
            oc = "Some (OExn (EUser %d%%Z))" % o[1]
        elif o[0] == "viol":
            oc = "Some (OExn (EViol (%s)))" % cq_site(o[1])
        else:
            oc = "Some (OExn (EUser (-1)%Z))"
        ks = C.cq_list(["KF %d" % k[1] if k[0] == "f" else ("KO %d" % k[1] if k[0] == "o" else "KF 99")
                        for k in tk["in_progress"]])
        out.append("(%s, %s, %s)" % (tr, oc, ks))
    return C.cq_list(out)


# ------------------------------------------------------------------ sizing (generator-side only)
def tree_size(prog, target, sigma=frozenset(), cap=400, self_obj=None):
    """Number of pieces of user code one operation runs (an upper bound, following the marker rule);
    used only to keep generated programs small enough to compare - never for verdicts."""
    count = [0]

    class TooBig(Exception):
        pass

    def script(sc, sig, so):
        count[0] += 1
        if count[0] > cap:
            raise TooBig()
        for a in sc[0]:
            if a[0] == "call":
                call(a[1], sig, so)

    def call(t, sig, so):
        if t[0] == "selfmeth":
            t = ["meth", so, t[1]]
        if t[0] == "fn":
            fd = prog["fns"][t[1]]
            key = ("f", t[1])
            if key in sig:
                script(fd["body"], sig, so)
                return
            s2 = sig | {key}
            for g in fd["pre"]:
                for sc in g:
                    script(sc, s2, so)
            if fd["post"]:
                for sc in fd["snaps"]:
                    script(sc, s2, so)
            script(fd["body"], sig, so)
            for sc in fd["post"]:
                script(sc, s2, so)
        else:
            o = t[1]
            cd = prog["classes"][prog["objs"][o]]
            key = ("o", o)
            if t[0] == "new":        # nothing is suspended around __new__ and the invariants after it
                script(cd["init"], sig, o)
                for sc in cd["invs"]:
                    script(sc, sig, o)
                return
            body = cd["init"] if t[0] == "init" else cd["meths"][t[2]]
            if key in sig:
                script(body, sig, o)
                return
            s2 = sig | {key}
            if t[0] == "meth":
                for sc in cd["invs"]:
                    script(sc, s2, o)
            script(body, s2, o)
            for sc in cd["invs"]:
                script(sc, s2, o)
    try:
        call(target, frozenset(sigma), self_obj)
    except TooBig:
        return cap + 1
    except RecursionError:
        return cap + 1
    return count[0]


def small_enough(case, cap=250):
    prog = case["prog"]
    for op in case["ops"]:
        t = op["target"] if isinstance(op, dict) else (op[3] if op[0] == "spawn" else None)
        if t is not None and tree_size(prog, t, cap=cap) > cap:
            return False
    return True
