"""Shared machinery of the checks: regenerate + build the Coq development, evaluate cases inside
Coq, run the implementation in a subprocess, decide, write evidence / replays."""
import atexit
import fcntl
import hashlib
import json
import os
import re
import shutil
import subprocess
import sys
import time

VERIF = os.path.dirname(os.path.dirname(os.path.abspath(__file__)))
COQ = os.path.join(VERIF, "coq")
REPO = os.environ.get("ICV_REPO", "/repo")
PY = os.environ.get("ICV_PYTHON", "/venv/bin/python")
WORK = os.path.join(VERIF, ".work", str(os.getpid()))
NPROC = min(16, os.cpu_count() or 4)

FORBIDDEN = re.compile(
    r"\b(Admitted|admit|Axiom|Axioms|Parameter|Parameters|Conjecture|Hypothesis|Variable)\b|Unset Guard|bypass_check|"
    r"type-in-type|impredicative-set|Admit Obligations|native_compute")


def workdir():
    os.makedirs(WORK, exist_ok=True)
    return WORK


@atexit.register
def _cleanup():
    shutil.rmtree(WORK, ignore_errors=True)


def seed():
    try:
        return int(os.environ.get("VERIF_SEED", "0"))
    except ValueError:
        return 0


def tier(argv_tier=None):
    t = argv_tier or os.environ.get("VERIF_TIER") or "quick"
    return t if t in ("quick", "thorough") else "quick"


class BuildResult:
    def __init__(self):
        self.translator_ok = True
        self.translator_msg = ""
        self.failed = []          # list of .v files whose compilation failed
        self.log = ""
        self.forbidden = []       # forbidden tokens found in the development

    def ok_for(self, files):
        """All the given .v files (relative to coq/) compiled."""
        return all(os.path.exists(os.path.join(COQ, f[:-2] + ".vo")) and f not in self.failed for f in files)


class Lock:
    def __enter__(self):
        os.makedirs(os.path.join(VERIF, ".work"), exist_ok=True)
        self.fh = open(os.path.join(VERIF, ".work", "build.lock"), "w")
        fcntl.flock(self.fh, fcntl.LOCK_EX)
        return self

    def __exit__(self, *a):
        fcntl.flock(self.fh, fcntl.LOCK_UN)
        self.fh.close()


def project_files():
    out = []
    with open(os.path.join(COQ, "_CoqProject")) as fh:
        for line in fh:
            line = line.strip()
            if line.endswith(".v"):
                out.append(line)
    return out


def strip_strings_and_comments(text):
    """string literals first (the pinned source text holds `(*args` and the word Parameter), then comments"""
    text = re.sub(r'"(?:[^"]|"")*"', '""', text)
    return re.sub(r"\(\*.*?\*\)", "", text, flags=re.S)


def scan_forbidden():
    hits = []
    for f in project_files():
        if f.startswith("Gen/"):
            continue
        path = os.path.join(COQ, f)
        if not os.path.exists(path):
            continue
        text = open(path).read()
        # Section variables / hypotheses are allowed only inside sections: checked by looking at
        # whether the file has a matching "Section".  Comments are stripped first.
        stripped = strip_strings_and_comments(text)
        for m in FORBIDDEN.finditer(stripped):
            tok = m.group(0)
            if tok in ("Variable", "Variables", "Hypothesis"):
                # allowed inside a Section ... End block only
                before = stripped[:m.start()]
                depth = len(re.findall(r"^\s*Section\s", before, flags=re.M)) - len(
                    re.findall(r"^\s*End\s+\w+\.", before, flags=re.M))
                if depth > 0:
                    continue
            hits.append("%s: %s" % (f, tok))
    return hits


def regenerate_and_build(targets=None, timeout=1500):
    """Run translator T on /repo's working tree, then make the development.

    Model/ and Spec/ files never import Gen/Generated.v, so they build even when the translator
    or a refinement lemma fails; the result says which files failed."""
    res = BuildResult()
    with Lock():
        gen = os.path.join(COQ, "Gen", "Generated.v")
        p = subprocess.run([sys.executable, os.path.join(VERIF, "harness", "py2coq.py"), gen],
                           capture_output=True, text=True, env=dict(os.environ, ICV_REPO=REPO))
        res.translator_msg = (p.stdout + p.stderr).strip()
        if p.returncode != 0:
            res.translator_ok = False
            # stale generated file must not be used: remove it and its compiled form
            for ext in (".v", ".vo", ".glob", ".vok", ".vos"):
                try:
                    os.remove(gen[:-2] + ext)
                except OSError:
                    pass
            os.makedirs(os.path.dirname(gen), exist_ok=True)
            with open(gen, "w") as fh:
                fh.write("(* translator failed: %s *)\nFail Definition translator_failed := tt tt.\n"
                         "Definition translator_failed : False := ltac:(fail).\n" % res.translator_msg.replace("*)", "* )"))
        if not os.path.exists(os.path.join(COQ, "Makefile")):
            subprocess.run(["coq_makefile", "-f", "_CoqProject", "-o", "Makefile"], cwd=COQ,
                           capture_output=True, text=True)
        elif os.path.getmtime(os.path.join(COQ, "Makefile")) < os.path.getmtime(os.path.join(COQ, "_CoqProject")):
            subprocess.run(["coq_makefile", "-f", "_CoqProject", "-o", "Makefile"], cwd=COQ,
                           capture_output=True, text=True)
        cmd = ["make", "-k", "-j%d" % NPROC]
        if targets:
            cmd += [t[:-2] + ".vo" for t in targets]
        try:
            p = subprocess.run(cmd, cwd=COQ, capture_output=True, text=True, timeout=timeout)
            res.log = p.stdout + p.stderr
        except subprocess.TimeoutExpired as err:
            res.log = "make timed out after %ss" % timeout
            res.failed.append("<timeout>")
        for m in re.finditer(r"\[Makefile[^\]]*:\s*(\S+?)\.vo\]\s*Error", res.log):
            res.failed.append(m.group(1) + ".v")
        for m in re.finditer(r'File "\./(\S+?\.v)", line \d+, characters [\d-]+:\s*\nError', res.log):
            if m.group(1) not in res.failed:
                res.failed.append(m.group(1))
        # files that depend on a failed one have no .vo
        for f in (targets or project_files()):
            if not os.path.exists(os.path.join(COQ, f[:-2] + ".vo")) and f not in res.failed:
                res.failed.append(f)
        res.forbidden = scan_forbidden()
    return res


def print_assumptions(props_file):
    """Re-compile Props/Cxx.v to capture its Print Assumptions output (theorem -> text)."""
    with Lock():
        p = subprocess.run(["coqc", "-Q", ".", "ICV", props_file], cwd=COQ, capture_output=True, text=True,
                           timeout=600)
    out = p.stdout
    blocks = [b.strip() for b in re.split(r"\n(?=Closed under|Axioms:)", "\n" + out) if b.strip()]
    src = open(os.path.join(COQ, props_file)).read()
    names = re.findall(r"Print Assumptions (\w+)\.", src)
    return p.returncode == 0, dict(zip(names, blocks)), out


def count_obligations(files):
    n = 0
    names = []
    for f in files:
        path = os.path.join(COQ, f)
        if not os.path.exists(path):
            continue
        text = strip_strings_and_comments(open(path).read())
        for m in re.finditer(r"^\s*(Theorem|Lemma|Example|Corollary|Fact|Remark|Proposition)\s+(\w+)", text, flags=re.M):
            n += 1
            names.append("%s:%s" % (f, m.group(2)))
    return n, names


# ---------------------------------------------------------------- evaluating cases inside Coq
def coq_eval_lists(header, terms, name="cases", chunk=400, timeout=900):
    """Evaluate a list of Coq terms of type [list Z] with vm_compute, in parallel chunks.

    Returns a list (one per term) of lists of ints.  Raises RuntimeError if coqc fails."""
    wd = workdir()
    files = []
    for ci in range(0, len(terms), chunk):
        part = terms[ci:ci + chunk]
        fn = os.path.join(wd, "%s_%d.v" % (name, ci // chunk))
        with open(fn, "w") as fh:
            fh.write(header + "\n")
            fh.write("Definition all_cases : list (list Z) := [\n  ")
            fh.write(";\n  ".join(part))
            fh.write("\n].\nEval vm_compute in all_cases.\n")
        files.append(fn)
    procs = []
    results = [None] * len(files)

    def launch(i):
        # outputs go to files: a pipe that fills up (e.g. with warnings) would block coqc for ever
        so = open(files[i] + ".out", "w")
        se = open(files[i] + ".err", "w")
        p = subprocess.Popen(["coqc", "-Q", COQ, "ICV", files[i]], cwd=wd, stdout=so, stderr=se, text=True)
        p._icv_files = (so, se)
        return p
    pending = list(range(len(files)))
    running = {}
    t0 = time.time()
    while pending or running:
        while pending and len(running) < NPROC:
            i = pending.pop(0)
            running[i] = launch(i)
        for i, p in list(running.items()):
            if p.poll() is not None:
                for fh in p._icv_files:
                    fh.close()
                out = open(files[i] + ".out").read()
                err = open(files[i] + ".err").read()
                if p.returncode != 0:
                    for q in running.values():
                        if q.poll() is None:
                            q.kill()
                    raise RuntimeError("coqc failed on %s:\n%s\n%s" % (files[i], out[-2000:], err[-4000:]))
                results[i] = parse_list_of_lists(out)
                del running[i]
        if time.time() - t0 > timeout:
            for q in running.values():
                q.kill()
            raise RuntimeError("coq evaluation timed out")
        time.sleep(0.02)
    flat = []
    for r in results:
        flat.extend(r)
    if len(flat) != len(terms):
        raise RuntimeError("coq evaluation returned %d results for %d terms" % (len(flat), len(terms)))
    return flat


def parse_list_of_lists(out):
    m = re.search(r"=\s*(\[.*\])\s*:\s*list \(list Z\)", out, flags=re.S)
    if not m:
        raise RuntimeError("cannot parse coq output: %s" % out[-500:])
    text = m.group(1)
    text = text.replace("%Z", "")
    res = []
    cur = None
    depth = 0
    num = ""
    for ch in text:
        if ch == "[":
            depth += 1
            if depth == 2:
                cur = []
        elif ch == "]":
            if num:
                cur.append(int(num)); num = ""
            if depth == 2:
                res.append(cur); cur = None
            depth -= 1
        elif ch in "-0123456789":
            num += ch
        else:
            if num and cur is not None:
                cur.append(int(num))
            num = ""
    return res


# ---------------------------------------------------------------- Coq term rendering
def cq_str(s):
    assert '"' not in s and "\\" not in s
    return '"%s"' % s


def cq_list(items):
    return "[" + "; ".join(items) + "]"


def cq_pv(v):
    """Python value -> Coq pv term.  ints are object tags."""
    if v is None:
        return "PNone"
    if isinstance(v, bool):
        return "(PBool %s)" % ("true" if v else "false")
    if isinstance(v, int):
        return "(PObj %d)" % v if v >= 0 else "(PObj (%d))" % v
    if isinstance(v, str):
        return "(PStr %s)" % cq_str(v)
    if isinstance(v, tuple):
        return "(PTuple %s)" % cq_list([cq_pv(x) for x in v])
    if isinstance(v, list):
        return "(PList %s)" % cq_list([cq_pv(x) for x in v])
    if isinstance(v, dict):
        return "(PDict %s)" % cq_dict(v)
    raise TypeError(v)


def cq_dict(d):
    return cq_list(["(%s, %s)" % (cq_str(k), cq_pv(v)) for k, v in d.items()])


def cq_opt(x, f):
    return "None" if x is None else "(Some %s)" % f(x)


def cq_bool(b):
    return "true" if b else "false"


# ---------------------------------------------------------------- running the implementation
def run_impl(script, payload, timeout=900, extra_env=None, pyflags=()):
    env = dict(os.environ)
    env["PYTHONPATH"] = REPO
    env["PYTHONDONTWRITEBYTECODE"] = "1"
    env.pop("ICONTRACT_SLOW", None)
    env.pop("ICV_HASHSEED", None)
    if extra_env:
        env.update(extra_env)
    # the hash seed of the driver: fixed, unless the check varies it on purpose (C20)
    env["PYTHONHASHSEED"] = env.get("ICV_HASHSEED", "0")
    p = subprocess.run([PY, *pyflags, os.path.join(VERIF, "harness", script)], input=json.dumps(payload),
                       capture_output=True, text=True, env=env, timeout=timeout, cwd=workdir())
    if p.returncode != 0:
        raise RuntimeError("implementation driver %s failed:\n%s" % (script, p.stderr[-4000:]))
    return json.loads(p.stdout)


def run_impl_parallel(script, payloads, **kw):
    from concurrent.futures import ThreadPoolExecutor
    with ThreadPoolExecutor(max_workers=NPROC) as ex:
        return list(ex.map(lambda pl: run_impl(script, pl, **kw), payloads))


# ---------------------------------------------------------------- known findings / replays / evidence
def load_known_findings():
    path = os.path.join(VERIF, "known_findings.json")
    if not os.path.exists(path):
        return {"findings": [], "fixed": []}
    with open(path) as fh:
        return json.load(fh)


def write_replay(prop, payload):
    os.makedirs(os.path.join(VERIF, "replays"), exist_ok=True)
    text = json.dumps(payload, indent=1, sort_keys=True, default=str)
    h = hashlib.sha1(text.encode()).hexdigest()[:10]
    path = os.path.join(VERIF, "replays", "%s-%s.json" % (prop, h))
    with open(path, "w") as fh:
        fh.write(text)
    return path


class Outcome:
    """Collects what a check found and turns it into exit status, output lines and evidence."""

    def __init__(self, prop, tier_):
        self.prop = prop
        self.tier = tier_
        self.t0 = time.time()
        self.violations = []       # (what, replay payload, found_input: bool)
        self.known = []            # strings
        self.coverage = {}
        self.assumptions = []
        self.notes = []

    def violation(self, what, payload, found_input=True):
        self.violations.append((what, payload, found_input))

    def known_finding(self, what):
        if what not in self.known:
            self.known.append(what)

    def finish(self):
        os.makedirs(os.path.join(VERIF, "evidence"), exist_ok=True)
        ev = {
            "property_id": self.prop,
            "tier": self.tier,
            "seed": seed(),
            "level": "proof",
            "coverage": self.coverage,
            "assumptions": self.assumptions,
            "wall_s": round(time.time() - self.t0, 2),
            "violations": len(self.violations),
        }
        with open(os.path.join(VERIF, "evidence", "%s.json" % self.prop), "w") as fh:
            json.dump(ev, fh, indent=1, sort_keys=True, default=str)
        for k in self.known:
            print("KNOWN-FINDING: property=%s %s" % (self.prop, k))
        seen = set()
        for what, payload, found in self.violations:
            payload = dict(payload)
            payload["property"] = self.prop
            payload["what"] = what
            payload["failing_input_found"] = found
            path = write_replay(self.prop, payload)
            if path in seen:
                continue
            seen.add(path)
            print("VIOLATION property=%s replay=%s%s" % (self.prop, path, "" if found else " no-failing-input-found"))
        for n in self.notes:
            print("note: %s" % n)
        if self.violations:
            return 1
        print("OK property=%s tier=%s wall=%.1fs" % (self.prop, self.tier, time.time() - self.t0))
        return 0


TRUSTED_BASE = [
    "Coq 8.16.1 kernel (coqc, Debian build); vm_compute used in finite case analyses and for running the model on "
    "correspondence cases; native_compute not used",
    "axioms: none - every Print Assumptions reads 'Closed under the global context' (checked on this run)",
    "translator harness/py2coq.py + harness/facts.py (Python ast -> Gallina text, fail-closed); its output is also "
    "run against the Python originals",
    "no extraction: the model is evaluated inside Coq (vm_compute) on cases.v files written by the harness",
    "correspondence harness (Python): case generators, world builder, canonicaliser",
    "modelled, not verified: CPython call protocol/binding, try/finally, exceptions, await/tasks, contextvars, "
    "attribute lookup/MRO, functools.update_wrapper, inspect.*, ast visitor dispatch, compile/exec, asttokens, reprlib",
]


# the pinned source text (Proofs/SrcPin*.v) behind the hand-written models each property's theorems speak about
_RT, _EL, _EX, _GL = "Proofs/SrcPinCheckers.v", "Proofs/SrcPinElab.v", "Proofs/SrcPinExpr.v", "Proofs/SrcPinGlobals.v"
SRC_PINS = {"C01": [_RT, _EL], "C02": [_RT, _EL], "C03": [_RT, _EL], "C04": [_RT, _EL], "C05": [_RT, _EL],
            "C06": [_EX, _RT, _EL], "C07": [_EX, _RT, _EL], "C08": [_RT, _EL], "C09": [_RT, _EL], "C10": [_RT], "C11": [_RT],
            "C12": [_RT], "C13": [_RT, _EL], "C14": [_RT, _EL], "C15": [_RT, _EL, _GL], "C16": [_RT, _EL],
            "C17": [_RT, _EL], "C18": [_RT, _EL], "C19": [_RT, _EL], "C20": [_EX, _GL, _RT, _EL]}


def proof_section(out, build, cone_files, props_file):
    """Fill the proof-level coverage keys; report broken obligations. Returns True if all discharged."""
    cone_files = list(cone_files) + [f for f in SRC_PINS.get(out.prop, []) if f not in cone_files]
    n, names = count_obligations(cone_files)
    ok = build.translator_ok and build.ok_for(cone_files) and not build.forbidden
    assum_ok, assum, raw = (False, {}, "")
    if ok:
        assum_ok, assum, raw = print_assumptions(props_file)
        ok = ok and assum_ok
    not_closed = {k: v for k, v in assum.items() if "Closed under the global context" not in v}
    failed_files = [f for f in cone_files if f in build.failed or not os.path.exists(os.path.join(COQ, f[:-2] + ".vo"))]
    discharged = 0
    if ok:
        discharged = n
    else:
        good = [f for f in cone_files if f not in failed_files]
        discharged = count_obligations(good)[0]
    out.coverage.update({
        "obligations": n,
        "discharged": discharged,
        "checker_cmd": "python3 harness/py2coq.py && make -C coq -k (coq_makefile, full .vo build) && coqc -Q coq ICV coq/%s" % props_file,
        "trusted_base": TRUSTED_BASE + ["Print Assumptions: " + "; ".join("%s: %s" % kv for kv in sorted(assum.items()))],
        "theorems": names[-40:],
        "translator": build.translator_msg,
    })
    problems = []
    if not build.translator_ok:
        problems.append("translator stopped (fail-closed): %s" % build.translator_msg)
    if failed_files:
        problems.append("proof obligations no longer check: %s" % ", ".join(failed_files))
    if build.forbidden:
        problems.append("forbidden declarations in the development: %s" % ", ".join(build.forbidden))
    if not_closed:
        problems.append("theorems depending on axioms: %s" % json.dumps(not_closed))
    if problems:
        errs = re.findall(r'File "\./(\S+?)", line (\d+).*?\n(Error:.*?)(?=\n\S|\Z)', build.log, flags=re.S)
        out.coverage["build_errors"] = ["%s:%s %s" % (a, b, c[:400]) for a, b, c in errs[:5]]
    return problems
