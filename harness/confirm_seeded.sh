#!/bin/bash
# usage: confirm_seeded.sh <worktree> <name>   -- confirms a seeded change in its scratch worktree and stores it
wt=$1; name=$2
tmp=$(mktemp -d)
cd $wt
# the delivered patch.diff is what counts: the worktree is reset and the patch applied afresh (worktrees of one
# repository share `git stash`; a seeding agent's stash/pop can have picked up another agent's change)
git diff -- icontract > $tmp/confirm.diff
if ! diff -q $tmp/confirm.diff _seeded/patch.diff >/dev/null; then echo "NOTE: patch.diff differs from the worktree diff; using patch.diff on a clean tree"; fi
git checkout -q -- icontract
if ! git apply _seeded/patch.diff; then echo "patch.diff does not apply to a clean tree"; exit 2; fi
echo "== tests with change"; /venv/bin/python -m pytest -q -p no:cacheprovider --timeout=900 --continue-on-collection-errors 2>&1 | tail -1
echo "== demo with change"; PYTHONPATH=$wt /venv/bin/python _seeded/demo.py > $tmp/demo_with.out 2>&1; echo "status=$?"; tail -3 $tmp/demo_with.out
git apply -R _seeded/patch.diff
echo "== demo without change"; PYTHONPATH=$wt /venv/bin/python _seeded/demo.py > $tmp/demo_without.out 2>&1; echo "status=$?"; tail -2 $tmp/demo_without.out
git apply _seeded/patch.diff
mkdir -p /verif/seeded/$name
cp _seeded/patch.diff _seeded/demo.py _seeded/meta.json /verif/seeded/$name/
echo stored /verif/seeded/$name
rm -rf $tmp
