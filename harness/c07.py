"""C07 - a violation always surfaces as the contract's error with the true condition text."""
import expr_cluster as K
import gen_expr as G

PROP = "C07"
CONE = K.MODEL_FILES + ["Proofs/ExprRefine.v", "Proofs/ExprCorollaries.v", "Proofs/ExprRange.v", "Proofs/ExprSound.v", "Props/C07.v"]
RULE = ("the generator of C06 with the guard shapes first (`xs and xs[0] > 0`, `opt is None or ...`, `0 < n < 10 // n`, "
        "`len(t) > 0 and len(t[0]) > 0`, `r.child is not None and r.child.size > 0`, conditional expressions) plus a "
        "layout stream: every condition of a base set under 10 layouts of the decorator (one line, many lines, comment, "
        "keyword form, keyword form over many lines after a comment line, lambda body on the next line, neighbouring "
        "decorators of other kinds, arguments on lines of their own one of which starts with a name beginning like `def`/`class`, a description with characters outside ASCII before the condition on its line) x 3 nestings (function in a factory, method of a class in a factory, async function) x "
        "with/without description.  Compared: exception class at the caller, the condition text in the message parsed back "
        "to the generated expression, and the nodes the re-evaluator evaluated against those CPython evaluated.")


def gen(rng, tier):
    return G.gen_many(rng, 800 if tier == "quick" else 20000, depth=4 if tier == "quick" else 5)


def layouts(rng, tier):
    return G.gen_layouts(rng, 400 if tier == "quick" else 4000)


def run(tier, replay=None):
    return K.run(PROP, tier, CONE, "Props/C07.v", gen, RULE, replay=replay, layout_cases=layouts)
