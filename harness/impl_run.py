"""Implementation side of the re-entrancy cluster: build the program with real icontract decorators,
run the top-level operations one after the other in this context, observe which user code ran,
the outcome and the content of the in-progress variable after each operation."""
import json
import os
import re
import sys
import warnings

sys.path.insert(0, os.path.dirname(os.path.abspath(__file__)))
warnings.simplefilter("ignore")

import icontract  # noqa: E402
import icontract._checkers  # noqa: E402
import world  # noqa: E402


class Turnstile:
    def __init__(self, pt):
        self.pt = pt

    def __await__(self):
        yield self.pt


class RunWorld:
    def __init__(self, prog):
        self.prog = prog
        self.events = []
        self.F = {}
        self.forig = {}
        self.O = {}
        self.K = {}
        self.excs = {}
        self.oid_of = {}
        self.last_site = {}
        self.self_stack = []
        self.is_async = prog["async"]
        self.build()

    def exc(self, tag):
        if tag not in self.excs:
            e = world.exc_class(tag)(tag)
            e.tag = tag
            self.excs[tag] = e
        return self.excs[tag]

    # ---- calling targets from scripts
    def call(self, t):
        if t[0] == "fn":
            # the contracted functions take a first parameter called `self` and get a fresh object at every call:
            # re-entrancy is a matter of the function, whatever it is called on
            return self.F[t[1]](object())
        if t[0] == "meth":
            return getattr(self.O[t[1]], "m%d" % t[2])()
        if t[0] == "selfmeth":
            return getattr(self.self_stack[-1], "m%d" % t[1])()
        if t[0] == "init":
            return self.O[t[1]].__init__()
        if t[0] == "new":
            self.pending = self.O[t[1]]
            return self.K[self.prog["objs"][t[1]]]()
        raise ValueError(t)

    def play(self, site, name, script):
        self.events.append(site)
        self.last_site[name] = site
        for a in script[0]:
            if a[0] == "call":
                self.call(a[1])
        v = script[1]
        if v[0] == "raise":
            raise self.exc(v[1])
        return v[1]

    async def aplay(self, site, name, script):
        self.events.append(site)
        self.last_site[name] = site
        for a in script[0]:
            if a[0] == "call":
                await self.call(a[1])
            else:
                await Turnstile(a[1])
        v = script[1]
        if v[0] == "raise":
            raise self.exc(v[1])
        return v[1]

    def whose(self):
        """who is running (the concurrency driver says which task or thread; one caller here)"""
        return None

    def fn_of(self, site, name, script, params=(), capture=False, old=None, receiver=False):
        """capture: what is captured names the caller; old: a postcondition that reads these snapshots and holds only if
        every one of them was captured by *this* caller (OLD belongs to the call)"""
        W = self

        def finish(v, OLD=None):
            if capture:
                return ("captured-by", W.whose())
            if old:
                return v and all(getattr(OLD, n) == ("captured-by", W.whose()) for n in old)
            return v
        if receiver and self.is_async:
            async def user(self):
                return finish(await W.aplay(site, name, script))
        elif receiver:
            def user(self):
                return finish(W.play(site, name, script))
        elif self.is_async:
            if old:
                async def user(OLD):
                    return finish(await W.aplay(site, name, script), OLD)
            else:
                async def user():
                    return finish(await W.aplay(site, name, script))
        else:
            if old:
                def user(OLD):
                    return finish(W.play(site, name, script), OLD)
            else:
                def user():
                    return finish(W.play(site, name, script))
        user.__name__ = name
        user.__qualname__ = name
        return user

    def build(self):
        W = self
        for f, fd in enumerate(self.prog["fns"]):
            func = self.fn_of(["body", f], "body_%d" % f, fd["body"], receiver=True)
            self.forig[f] = func
            for i, sc in enumerate(fd["post"]):
                func = icontract.ensure(self.fn_of(["post", f, i], "post_%d_%d" % (f, i), sc,
                                                   old=["s%d" % j for j in range(len(fd["snaps"]))]))(func)
            for i, sc in enumerate(fd["snaps"]):
                func = icontract.snapshot(self.fn_of(["cap", f, i], "cap_%d_%d" % (f, i), sc, capture=True), name="s%d" % i)(func)
            for g, grp in enumerate(fd["pre"]):
                for i, sc in enumerate(grp):
                    func = icontract.require(self.fn_of(["pre", f, g, i], "pre_%d_%d_%d" % (f, g, i), sc))(func)
            self.F[f] = func
        for c, cd in enumerate(self.prog["classes"]):
            ns = {}

            def make_init(cd=cd, c=c):
                def __init__(self):
                    o = W.oid_of[id(self)]
                    W.self_stack.append(self)
                    try:
                        W.play(["initbody", o], "init_%d" % c, cd["init"])
                    finally:
                        W.self_stack.pop()
                return __init__
            def make_new(cd=cd, c=c):
                def __new__(cls):
                    # hands out the instance the operation is about (created beforehand with object.__new__)
                    inst = W.pending
                    o = W.oid_of[id(inst)]
                    W.self_stack.append(inst)
                    try:
                        W.play(["initbody", o], "init_%d" % c, cd["init"])
                    finally:
                        W.self_stack.pop()
                    return inst
                return __new__
            if cd.get("new"):
                ns["__new__"] = make_new()
            else:
                ns["__init__"] = make_init()
            for m, sc in enumerate(cd["meths"]):
                def make_meth(m=m, sc=sc, c=c):
                    if W.is_async:
                        async def meth(self):
                            return await W.aplay(["meth", W.oid_of[id(self)], m], "meth_%d_%d" % (c, m), sc)
                    else:
                        def meth(self):
                            return W.play(["meth", W.oid_of[id(self)], m], "meth_%d_%d" % (c, m), sc)
                    meth.__name__ = "m%d" % m
                    return meth
                ns["m%d" % m] = make_meth()
            K = type("K%d" % c, (icontract.DBC,), ns)
            for i, sc in enumerate(cd["invs"]):
                def make_inv(i=i, sc=sc, c=c):
                    def inv(self):
                        return W.play(["inv", W.oid_of.get(id(self), -1), i], "inv_%d_%d" % (c, i), sc)
                    inv.__name__ = "inv_%d_%d" % (c, i)
                    return inv
                K = icontract.invariant(make_inv())(K)
            self.K[c] = K
        for o, c in enumerate(self.prog["objs"]):
            inst = object.__new__(self.K[c])
            self.O[o] = inst
            self.oid_of[id(inst)] = o

    # ---- top-level operations
    NAME_RE = re.compile(r"\b((?:pre|post|cap)_\d+(?:_\d+)*|inv_\d+_\d+)\b")

    def canon_exc(self, err):
        if hasattr(err, "tag") and type(err) in world.EXC_CLASSES:
            return ["user", err.tag]
        if type(err) is icontract.ViolationError:
            m = self.NAME_RE.search(str(err))
            if m and m.group(1) in self.last_site:
                return ["viol", self.last_site[m.group(1)]]
            return ["other", "ViolationError?"]
        return ["other", type(err).__name__]

    def in_progress(self):
        s = icontract._checkers._IN_PROGRESS.get()
        out = []
        for k in (s or []):
            for f, func in self.forig.items():
                if id(func) == k:
                    out.append(["f", f])
                    break
            else:
                if k in self.oid_of:
                    out.append(["o", self.oid_of[k]])
                else:
                    out.append(["?", 0])
        return sorted(out)

    def drive(self, coro, plan):
        to_throw = None
        while True:
            try:
                if to_throw is not None:
                    exc, to_throw = to_throw, None
                    y = coro.throw(exc)
                else:
                    y = coro.send(None)
            except StopIteration as stop:
                return stop.value
            if str(y) in plan:
                to_throw = self.exc(plan[str(y)])

    def op(self, op):
        self.events = []
        t = op["target"]
        try:
            if t[0] == "init":
                self.O[t[1]].__init__()
            elif t[0] == "new":
                self.pending = self.O[t[1]]
                self.K[self.prog["objs"][t[1]]]()
            elif self.is_async:
                self.drive(self.call(t), op["plan"])
            else:
                self.call(t)
            out = ["ret"]
        except BaseException as err:  # noqa
            out = self.canon_exc(err)
        truncated = len(self.events) > 300
        if truncated:
            out = ["other", "trace longer than 300 events (%d)" % len(self.events)]
        return {"events": self.events[:300], "outcome": out, "in_progress": self.in_progress(), "truncated": truncated}


def main():
    payload = json.load(sys.stdin)
    sys.setrecursionlimit(1500)
    res = []
    import contextvars

    def one(case):
        W = RunWorld(case["prog"])
        return [W.op(op) for op in case["ops"]]
    for case in payload["cases"]:
        try:
            # every program runs in a context of its own: what one program leaves in the in-progress
            # variable must not be taken for the next one's
            res.append(contextvars.Context().run(one, case))
        except BaseException as err:  # noqa
            res.append({"defn_error": type(err).__name__, "msg": str(err)[:300]})
    json.dump(res, sys.stdout)


if __name__ == "__main__":
    main()
