import json, sys
sys.path.insert(0, "/verif/harness")
import common as C
cases = [
 {"tree": ["cmp", ["name", "x"], [[">", ["call", ["name", "len"], [["name", "xs"]], []]]]], "cond_params": ["x", "xs"], "func_params": ["x", "xs", "z"],
  "args": [["x", 1], ["xs", [1, 2, 3]], ["z", {"t": [1]}]], "closure": [], "globals": []},
 {"tree": ["call", ["name", "bool"], [["bool", "or", [["name", "a"], ["name", "b"]]]], []], "cond_params": ["a", "b"], "func_params": ["a", "b"],
  "args": [["a", 0], ["b", 0]], "closure": [], "globals": []},
 {"tree": ["bool", "and", [["name", "xs"], ["cmp", ["sub", ["name", "xs"], ["const", 0]], [[">", ["const", 0]]]]]], "cond_params": ["xs"], "func_params": ["xs"],
  "args": [["xs", []]], "closure": [], "globals": []},
 {"tree": ["cmp", ["call", ["name", "abs"], [["name", "y"]], []], [[">", ["bin", "*", ["name", "x"], ["const", 1000]]]]], "cond_params": ["x"], "func_params": ["x", "y"],
  "args": [["x", 5], ["y", 1]], "closure": [], "globals": [["y", 100]]},
 {"tree": ["call", ["name", "all"], [["comp", "gen", ["cmp", ["name", "v"], [[">", ["name", "lim"]]]], None, [[["v"], False, ["name", "xs"], []]]]], []], "cond_params": ["xs"], "func_params": ["xs"],
  "args": [["xs", [5, 1, 7]]], "closure": [["lim", 2]], "globals": []},
]
r = C.run_impl("impl_expr.py", {"cases": cases})
for o in r:
    print(json.dumps(o)[:900])
