"""The expression language of the Expr cluster (C06, C07, C20): JSON trees, rendering to Python
source and to Coq terms, pre-order listing, conversion from a Python ast (used to check the renderer
and to pick up asttokens' text of every node).

tree ::= ["const", v] | ["name", id] | ["attr", e, a] | ["sub", e, i] | ["slice", lo|None, hi|None]
       | ["call", f, [args], [[name|None, e], ...]] | ["star", e] | ["un", op, e] | ["bin", op, l, r]
       | ["bool", "and"|"or", [es]] | ["cmp", l, [[op, e], ...]] | ["if", t, b, o] | ["named", tg, e]
       | ["fstr", [["lit", s] | ["fmt", e, conv]]] | ["list", es] | ["tuple", es] | ["dict", [[k, v], ...]]
       | ["comp", kind, elt, elt2|None, [[names, tuple_target, iter, [ifs]], ...]]
values: None / bool / int / str / list; {"t": [...]} tuple; {"d": [[k, v], ...]} dict;
        {"rec": tag, "f": [[name, v], ...]} record; {"fn": name} function; {"gen": 1} generator object;
        {"allfail": [[name, v], ...]} FirstExceptionInAll; {"ph": 1} the re-evaluator's PLACEHOLDER."""
import ast

UOPS = {"not": ("UNot", "not "), "neg": ("UNeg", "-"), "pos": ("UPos", "+"), "inv": ("UInv", "~")}
BOPS = {"+": "BAdd", "-": "BSub", "*": "BMul", "/": "BDiv", "//": "BFloorDiv", "%": "BMod", "**": "BPow",
        "<<": "BLShift", ">>": "BRShift", "|": "BOr", "^": "BXor", "&": "BAnd", "@": "BMatMul"}
COPS = {"==": "CEq", "!=": "CNe", "<": "CLt", "<=": "CLe", ">": "CGt", ">=": "CGe", "is": "CIs", "is not": "CIsNot",
        "in": "CIn", "not in": "CNotIn"}
CONVS = {"": "ConvNone", "s": "ConvS", "r": "ConvR", "a": "ConvA"}
KINDS = {"list": "KList", "gen": "KGen", "dict": "KDict"}

AST_BOPS = {ast.Add: "+", ast.Sub: "-", ast.Mult: "*", ast.Div: "/", ast.FloorDiv: "//", ast.Mod: "%", ast.Pow: "**",
            ast.LShift: "<<", ast.RShift: ">>", ast.BitOr: "|", ast.BitXor: "^", ast.BitAnd: "&", ast.MatMult: "@"}
AST_COPS = {ast.Eq: "==", ast.NotEq: "!=", ast.Lt: "<", ast.LtE: "<=", ast.Gt: ">", ast.GtE: ">=", ast.Is: "is",
            ast.IsNot: "is not", ast.In: "in", ast.NotIn: "not in"}
AST_UOPS = {ast.Not: "not", ast.USub: "neg", ast.UAdd: "pos", ast.Invert: "inv"}


# ------------------------------------------------------------------ rendering to Python source
def src_value(v):
    if v is None or isinstance(v, (bool, int)):
        return repr(v)
    if isinstance(v, str):
        return repr(v)
    raise ValueError("only None/bool/int/str literals: %r" % (v,))


def src(t):
    """Source text; every operand that is not atomic is parenthesised, so precedence never matters."""
    k = t[0]
    if k == "const":
        return src_value(t[1])
    if k == "name":
        return t[1]
    if k == "attr":
        return "%s.%s" % (atom(t[1]), t[2])
    if k == "sub":
        i = t[2]
        if i[0] == "slice":
            return "%s[%s:%s]" % (atom(t[1]), "" if i[1] is None else src(i[1]), "" if i[2] is None else src(i[2]))
        return "%s[%s]" % (atom(t[1]), src(i))
    if k == "call":
        parts = [("*" + atom(a[1])) if a[0] == "star" else src(a) for a in t[2]]
        parts += [("**" + atom(e)) if n is None else "%s=%s" % (n, src(e)) for n, e in t[3]]
        if len(t[2]) == 1 and not t[3] and t[2][0][0] == "comp" and t[2][0][1] == "gen":
            return "%s(%s)" % (atom(t[1]), comp_inside(t[2][0]))
        return "%s(%s)" % (atom(t[1]), ", ".join(parts))
    if k == "un":
        if t[1] == "neg" and t[2][0] == "const" and isinstance(t[2][1], int) and not isinstance(t[2][1], bool):
            return "-(%s)" % src(t[2])      # keep it a unary operation: -4 alone is read as the literal
        return UOPS[t[1]][1] + atom(t[2])
    if k == "bin":
        return "%s %s %s" % (atom(t[2]), t[1], atom(t[3]))
    if k == "bool":
        return (" %s " % t[1]).join(atom(e) for e in t[2])
    if k == "cmp":
        return atom(t[1]) + "".join(" %s %s" % (op, atom(e)) for op, e in t[2])
    if k == "if":
        return "%s if %s else %s" % (atom(t[2]), atom(t[1]), atom(t[3]))
    if k == "named":
        return "(%s := %s)" % (t[1], src(t[2]))
    if k == "fstr":
        out = []
        for p in t[1]:
            if p[0] == "lit":
                out.append(p[1].replace("{", "{{").replace("}", "}}"))
            else:
                inner = atom(p[1])
                if inner.startswith("{"):
                    inner = " " + inner                      # "{{" would be an escaped brace
                out.append("{%s%s}" % (inner, "!" + p[2] if p[2] else ""))
        return 'f"%s"' % "".join(out)
    if k == "list":
        return "[%s]" % ", ".join(src(e) for e in t[1])
    if k == "tuple":
        return "(%s%s)" % (", ".join(src(e) for e in t[1]), "," if len(t[1]) == 1 else "")
    if k == "dict":
        return "{%s}" % ", ".join(("**" + atom(b)) if a is None else "%s: %s" % (src(a), src(b)) for a, b in t[1])
    if k == "comp":
        inside = comp_inside(t)
        return {"list": "[%s]", "gen": "(%s)", "dict": "{%s}"}[t[1]] % inside
    raise ValueError(k)


def comp_inside(t):
    head = "%s: %s" % (atom(t[2]), atom(t[3])) if t[1] == "dict" else atom(t[2])
    for names, tup, it, ifs in t[4]:
        head += " for %s in %s" % ("(%s)" % ", ".join(names) if tup else names[0], atom(it))
        for f in ifs:
            head += " if %s" % atom(f)
    return head


ATOMIC = ("const", "name", "attr", "sub", "call", "list", "tuple", "dict", "comp", "named", "fstr")


def atom(t):
    s = src(t)
    if t[0] in ATOMIC and not (t[0] == "const" and isinstance(t[1], int) and not isinstance(t[1], bool) and t[1] < 0):
        return s
    return "(%s)" % s


# ------------------------------------------------------------------ pre-order listing (same order as Message.subexprs)
def subexprs(t):
    out = [t]
    k = t[0]
    if k in ("const", "name", "omit"):
        return out
    if k == "attr":
        return out + subexprs(t[1])
    if k == "sub":
        return out + subexprs(t[1]) + subexprs(t[2])
    if k == "slice":
        return out + subexprs(t[1] or ["omit"]) + subexprs(t[2] or ["omit"])
    if k == "call":
        out += subexprs(t[1])
        for a in t[2]:
            out += subexprs(a)
        for _, e in t[3]:
            out += subexprs(e)
        return out
    if k in ("star", "named"):
        return out + subexprs(t[-1])
    if k == "un":
        return out + subexprs(t[2])
    if k == "bin":
        return out + subexprs(t[2]) + subexprs(t[3])
    if k == "bool":
        for e in t[2]:
            out += subexprs(e)
        return out
    if k == "cmp":
        out += subexprs(t[1])
        for _, e in t[2]:
            out += subexprs(e)
        return out
    if k == "if":
        return out + subexprs(t[1]) + subexprs(t[2]) + subexprs(t[3])
    if k == "fstr":
        for p in t[1]:
            if p[0] == "fmt":
                out += subexprs(p[1])
        return out
    if k in ("list", "tuple"):
        for e in t[1]:
            out += subexprs(e)
        return out
    if k == "dict":
        for a, b in t[1]:
            out += (subexprs(a) if a is not None else []) + subexprs(b)
        return out
    if k == "comp":
        out += subexprs(t[2]) + subexprs(t[3] or ["omit"])
        for _names, _tup, it, ifs in t[4]:
            out += subexprs(it)
            for f in ifs:
                out += subexprs(f)
        return out
    raise ValueError(k)


def inner_nodes(t, inside=False):
    """ids of the tree nodes that lie inside a comprehension"""
    out = set()

    def walk(n, ins):
        if not isinstance(n, list) or not n or not isinstance(n[0], str):
            return
        if ins:
            out.add(id(n))
        k = n[0]
        child_in = ins or k == "comp"
        for c in children(n):
            walk(c, child_in)
    walk(t, inside)
    return out


def children(t):
    k = t[0]
    if k in ("const", "name", "omit"):
        return []
    if k == "attr":
        return [t[1]]
    if k == "sub":
        return [t[1], t[2]]
    if k == "slice":
        return [x for x in (t[1], t[2]) if x is not None]
    if k == "call":
        return [t[1]] + list(t[2]) + [e for _, e in t[3]]
    if k in ("star", "named"):
        return [t[-1]]
    if k == "un":
        return [t[2]]
    if k == "bin":
        return [t[2], t[3]]
    if k == "bool":
        return list(t[2])
    if k == "cmp":
        return [t[1]] + [e for _, e in t[2]]
    if k == "if":
        return [t[1], t[2], t[3]]
    if k == "fstr":
        return [p[1] for p in t[1] if p[0] == "fmt"]
    if k in ("list", "tuple"):
        return list(t[1])
    if k == "dict":
        return [x for a, b in t[1] for x in (a, b) if x is not None]
    if k == "comp":
        out = [t[2]] + ([t[3]] if t[3] is not None else [])
        for _n, _t, it, ifs in t[4]:
            out += [it] + list(ifs)
        return out
    raise ValueError(k)


# ------------------------------------------------------------------ from a Python ast (with the nodes, for texts)
def from_ast(n, pairs):
    """Convert an ast expression to a tree; append (tree, ast node) to pairs for every node."""
    t = _from_ast(n, pairs)
    pairs.append((t, n))
    return t


def _from_ast(n, pairs):
    f = lambda x: from_ast(x, pairs)  # noqa: E731
    if isinstance(n, ast.Constant):
        return ["const", n.value]
    if isinstance(n, ast.Name):
        return ["name", n.id]
    if isinstance(n, ast.Attribute):
        return ["attr", f(n.value), n.attr]
    if isinstance(n, ast.Subscript):
        return ["sub", f(n.value), f(n.slice)]
    if isinstance(n, ast.Slice):
        if n.step is not None:
            raise ValueError("step")
        return ["slice", None if n.lower is None else f(n.lower), None if n.upper is None else f(n.upper)]
    if isinstance(n, ast.Call):
        return ["call", f(n.func), [f(a) for a in n.args], [[k.arg, f(k.value)] for k in n.keywords]]
    if isinstance(n, ast.Starred):
        return ["star", f(n.value)]
    if isinstance(n, ast.UnaryOp):
        if isinstance(n.op, ast.USub) and isinstance(n.operand, ast.Constant) and isinstance(n.operand.value, int) \
                and not isinstance(n.operand.value, bool) and n.operand.value > 0 \
                and n.operand.end_col_offset - n.operand.col_offset == len(str(n.operand.value)) \
                and n.col_offset + 1 == n.operand.col_offset:
            return ["const", -n.operand.value]
        return ["un", AST_UOPS[type(n.op)], f(n.operand)]
    if isinstance(n, ast.BinOp):
        return ["bin", AST_BOPS[type(n.op)], f(n.left), f(n.right)]
    if isinstance(n, ast.BoolOp):
        return ["bool", "and" if isinstance(n.op, ast.And) else "or", [f(v) for v in n.values]]
    if isinstance(n, ast.Compare):
        return ["cmp", f(n.left), [[AST_COPS[type(o)], f(c)] for o, c in zip(n.ops, n.comparators)]]
    if isinstance(n, ast.IfExp):
        return ["if", f(n.test), f(n.body), f(n.orelse)]
    if isinstance(n, ast.NamedExpr):
        return ["named", n.target.id, f(n.value)]
    if isinstance(n, ast.JoinedStr):
        parts = []
        for v in n.values:
            if isinstance(v, ast.Constant):
                parts.append(["lit", v.value])
            else:
                if v.format_spec is not None:
                    raise ValueError("format spec")
                parts.append(["fmt", f(v.value), {-1: "", 115: "s", 114: "r", 97: "a"}[v.conversion]])
        return ["fstr", parts]
    if isinstance(n, ast.List):
        return ["list", [f(e) for e in n.elts]]
    if isinstance(n, ast.Tuple):
        return ["tuple", [f(e) for e in n.elts]]
    if isinstance(n, ast.Dict):
        return ["dict", [[f(k) if k is not None else None, f(v)] for k, v in zip(n.keys, n.values)]]
    if isinstance(n, (ast.ListComp, ast.GeneratorExp, ast.DictComp)):
        gens = []
        for g in n.generators:
            if isinstance(g.target, ast.Name):
                names, tup = [g.target.id], False
            else:
                names, tup = [e.id for e in g.target.elts], True
            gens.append([names, tup, f(g.iter), [f(i) for i in g.ifs]])
        if isinstance(n, ast.DictComp):
            return ["comp", "dict", f(n.key), f(n.value), gens]
        return ["comp", "list" if isinstance(n, ast.ListComp) else "gen", f(n.elt), None, gens]
    raise ValueError("unsupported node %s" % type(n).__name__)


def canon_tree(t):
    """negative literals: [-5] may come as ("un","neg",5) or ("const",-5); normalise to const"""
    import json
    return json.loads(json.dumps(t))


# ------------------------------------------------------------------ rendering to Coq
def cq_str(s):
    return '"' + s.replace('"', '""') + '"'


def cq_val(v):
    if v is None:
        return "VNone"
    if isinstance(v, bool):
        return "(VBool %s)" % ("true" if v else "false")
    if isinstance(v, int):
        return "(VInt (%d))" % v
    if isinstance(v, str):
        return "(VStr %s)" % cq_str(v)
    if isinstance(v, list):
        return "(VList [%s])" % "; ".join(cq_val(x) for x in v)
    if isinstance(v, dict):
        if "t" in v:
            return "(VTuple [%s])" % "; ".join(cq_val(x) for x in v["t"])
        if "d" in v:
            return "(VDict [%s])" % "; ".join("(%s, %s)" % (cq_val(a), cq_val(b)) for a, b in v["d"])
        if "rec" in v:
            return "(VRec (%d) [%s])" % (v["rec"], "; ".join("(%s, %s)" % (cq_str(a), cq_val(b)) for a, b in v["f"]))
        if "fn" in v:
            return "(VFun %s)" % cq_str(v["fn"])
        if "gen" in v:
            return "(VGen [])"
        if "allfail" in v:
            return "(VAllFail VNone [%s])" % "; ".join("(%s, %s)" % (cq_str(a), cq_val(b)) for a, b in v["allfail"])
        if "ph" in v:
            return '(VStr "<Placeholder>")'   # no Python value is the PLACEHOLDER; seeing one is a defect
        if "slice" in v:
            return "(VSlice %s %s)" % (cq_val(v["slice"][0]), cq_val(v["slice"][1]))
    return "(VStr %s)" % cq_str("<other: %r>" % (v,))


def cq_exprs(es):
    out = "ENil"
    for e in reversed(es):
        out = "(ECons %s %s)" % (cq(e), out)
    return out


def cq(t):
    k = t[0]
    if k == "const":
        return "(EConst %s)" % cq_val(t[1])
    if k == "name":
        return "(EName %s)" % cq_str(t[1])
    if k == "omit":
        return "EOmit"
    if k == "attr":
        return "(EAttr %s %s)" % (cq(t[1]), cq_str(t[2]))
    if k == "sub":
        return "(ESub %s %s)" % (cq(t[1]), cq(t[2]))
    if k == "slice":
        return "(ESlice %s %s)" % (cq(t[1] or ["omit"]), cq(t[2] or ["omit"]))
    if k == "call":
        kws = "KNil"
        for n, e in reversed(t[3]):
            kws = "(KCons %s %s %s)" % ("None" if n is None else "(Some %s)" % cq_str(n), cq(e), kws)
        return "(ECall %s %s %s)" % (cq(t[1]), cq_exprs(t[2]), kws)
    if k == "star":
        return "(EStar %s)" % cq(t[1])
    if k == "un":
        return "(EUn %s %s)" % (UOPS[t[1]][0], cq(t[2]))
    if k == "bin":
        return "(EBin %s %s %s)" % (BOPS[t[1]], cq(t[2]), cq(t[3]))
    if k == "bool":
        return "(EBool %s %s)" % ("true" if t[1] == "and" else "false", cq_exprs(t[2]))
    if k == "cmp":
        cs = "CNil"
        for op, e in reversed(t[2]):
            cs = "(CCons %s %s %s)" % (COPS[op], cq(e), cs)
        return "(ECmp %s %s)" % (cq(t[1]), cs)
    if k == "if":
        return "(EIf %s %s %s)" % (cq(t[1]), cq(t[2]), cq(t[3]))
    if k == "named":
        return "(ENamed %s %s)" % (cq_str(t[1]), cq(t[2]))
    if k == "fstr":
        ps = "PNil"
        for p in reversed(t[1]):
            if p[0] == "lit":
                ps = "(PLit %s %s)" % (cq_str(p[1]), ps)
            else:
                ps = "(PFmt %s %s %s)" % (cq(p[1]), CONVS[p[2]], ps)
        return "(EFStr %s)" % ps
    if k == "list":
        return "(EList %s)" % cq_exprs(t[1])
    if k == "tuple":
        return "(ETuple %s)" % cq_exprs(t[1])
    if k == "dict":
        ds = "DNil"
        for a, b in reversed(t[1]):
            ds = "(DStar %s %s)" % (cq(b), ds) if a is None else "(DCons %s %s %s)" % (cq(a), cq(b), ds)
        return "(EDict %s)" % ds
    if k == "comp":
        gs = "GNil"
        for names, tup, it, ifs in reversed(t[4]):
            gs = "(GCons [%s] %s %s %s %s)" % ("; ".join(cq_str(n) for n in names), "true" if tup else "false",
                                               cq(it), cq_exprs(ifs), gs)
        return "(EComp %s %s %s %s)" % (KINDS[t[1]], cq(t[2]), cq(t[3] or ["omit"]), gs)
    raise ValueError(k)


def cq_env(pairs):
    return "[%s]" % "; ".join("(%s, %s)" % (cq_str(k), cq_val(v)) for k, v in pairs)
