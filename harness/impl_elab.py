"""Implementation side of the definition cluster: execute a history of definitions with real
icontract, and after every step look at everything defined so far through the introspection
interface (find_checker, the three list attributes, the class invariant lists)."""
import functools
import inspect
import json
import os
import sys
import warnings

sys.path.insert(0, os.path.dirname(os.path.abspath(__file__)))
warnings.simplefilter("ignore")

import icontract  # noqa: E402
import icontract._checkers  # noqa: E402
import icontract._metaclass  # noqa: E402
import gen_elab  # noqa: E402
import world  # noqa: E402

SLOT_TYPES = (type(object.__init__), type(object.__new__), type(object.__repr__), type(int.__add__))


class ElabWorld(world.World):
    def __init__(self):
        super().__init__({"cond": {}, "capture": {}, "error": {}, "body": {}}, {})
        self.foreign_ids = {}
        self.keep = []
        # callables that are neither functions, methods, exception classes nor exception instances
        self.partial_error = functools.partial(ValueError, "x")

        class _CallableError:
            def __call__(self, *a, **k):
                return ValueError("x")
        self.callable_error = _CallableError()

    def foreign(self, k):
        W = self

        def deco(fn):
            if inspect.iscoroutinefunction(fn):
                @functools.wraps(fn)
                async def wrapper(*a, **kw):
                    return await fn(*a, **kw)
            else:
                @functools.wraps(fn)
                def wrapper(*a, **kw):
                    return fn(*a, **kw)
            W.foreign_ids[id(wrapper)] = k
            W.keep.append(wrapper)
            return wrapper
        return deco

    def foreign_obj(self, k):
        W = self

        def deco(fn):
            wrapper = ForeignObj(fn)
            W.foreign_ids[id(wrapper)] = k
            W.keep.append(wrapper)
            return wrapper
        return deco


class ForeignObj:
    """what a class-based decorator returns: a callable object that binds like a function"""

    def __init__(self, fn):
        functools.update_wrapper(self, fn)
        self._fn = fn

    def __call__(self, *a, **kw):
        return self._fn(*a, **kw)

    def __get__(self, obj, objtype=None):
        import types
        return self if obj is None else types.MethodType(self, obj)


def role_of(W, f):
    if id(f) in W.foreign_ids:
        return ["foreign", W.foreign_ids[id(f)]]
    code = getattr(f, "__code__", None)
    qn = getattr(code, "co_qualname", "") if code is not None else ""
    if qn.startswith("decorate_with_checker"):
        return ["checker"]
    if qn.startswith("_decorate_new_with_invariants"):
        return ["new"]
    if qn.startswith("_pass_on_to_next_in_mro") or qn == "add_invariant_checks.<locals>.__init__":
        # a method that the library gives a class lacking it: super(cls, self).<name>(*args, **kwargs)
        cells = [c.cell_contents for c in (f.__closure__ or ())]
        if any(isinstance(c, type) for c in cells) and "super" in code.co_names:
            return ["passon"]
    if qn.startswith("_decorate_with_invariants"):
        # the wrapper of a constructor evaluates all invariants, the one of a method those selected by the event
        # (told apart by the names the code uses: docstrings are gone under -OO)
        return ["inv", "__invariants__" in code.co_names and "__invariants_on_call__" not in code.co_names]
    return ["orig"]


def ident(fn):
    n = getattr(fn, "__name__", "")
    for prefix in ("c_", "s_"):
        if n.startswith(prefix) and n[2:].isdigit():
            return int(n[2:])
    return -1


def view_func(W, f):
    chain = []
    objs = []
    cur = f
    guard = 0
    while True:
        chain.append(role_of(W, cur))
        objs.append(cur)
        guard += 1
        if not hasattr(cur, "__wrapped__") or guard > 50:
            break
        cur = cur.__wrapped__
    # metadata: the outermost object against the original function at the end of the chain
    orig = objs[-1]
    meta = True
    for attr in ("__name__", "__qualname__", "__doc__", "__module__", "__annotations__"):
        if getattr(f, attr, None) != getattr(orig, attr, None):
            meta = False
    try:
        if str(inspect.signature(f)) != str(inspect.signature(orig)):
            meta = False
    except (TypeError, ValueError):
        meta = False
    if inspect.iscoroutinefunction(f) != inspect.iscoroutinefunction(orig):
        meta = False
    if getattr(f, "__isabstractmethod__", False) != getattr(orig, "__isabstractmethod__", False):
        meta = False
    if chain[-1] not in (["orig"], ["passon"]):
        meta = False
    if not inspect.isfunction(orig):
        meta = True        # a slot wrapper of object (no annotations, no Python signature): nothing to compare
    # the wrapper whose code evaluates the contracts (it reads the lists off itself) ...
    enforcing = next((o for o, r in zip(objs, chain) if r == ["checker"]), None)
    # ... and what the introspection interface hands out
    ch = icontract._checkers.find_checker(f)
    intro = ch is enforcing
    if enforcing is None:
        return {"chain": chain, "pre": [], "snaps": [], "post": [], "intro": intro, "meta": meta}
    return {"chain": chain,
            "pre": [[ident(c.condition) for c in g] for g in getattr(enforcing, "__preconditions__", [])],
            "snaps": [ident(s.capture) for s in getattr(enforcing, "__postcondition_snapshots__", [])],
            "post": [ident(c.condition) for c in getattr(enforcing, "__postconditions__", [])],
            "intro": intro, "meta": meta}


def pass_on_owner(f):
    """the class whose pass-on method ends the __wrapped__ chain of f, or None"""
    cur = f
    for _ in range(50):
        if not hasattr(cur, "__wrapped__"):
            break
        cur = cur.__wrapped__
    code = getattr(cur, "__code__", None)
    qn = getattr(code, "co_qualname", "") if code is not None else ""
    if qn.startswith("_pass_on_to_next_in_mro") or qn == "add_invariant_checks.<locals>.__init__":
        for c in (cur.__closure__ or ()):
            if isinstance(c.cell_contents, type):
                return c.cell_contents
    return None


def view_along(W, mro, name):
    """the member as it is reached at run time along the resolution order `mro` (a pass-on method continues with
    the classes after its owner)"""
    for i, klass in enumerate(mro):
        if name not in klass.__dict__:
            continue
        raw = klass.__dict__[name]
        if klass is object or klass is icontract.DBC and not inspect.isfunction(raw):
            return ["slot"]
        if isinstance(raw, staticmethod):
            # Python turns a __new__ defined in a class body into a static method by itself
            return ["func", "plain" if name == "__new__" else "static", view_func(W, raw.__func__)]
        if isinstance(raw, classmethod):
            return ["func", "classm", view_func(W, raw.__func__)]
        if isinstance(raw, property):
            return ["prop"] + [view_func(W, a) if a is not None else None for a in (raw.fget, raw.fset, raw.fdel)]
        if isinstance(raw, ForeignObj):
            return ["func", "plain", view_func(W, raw)]
        if inspect.isfunction(raw):
            v = view_func(W, raw)
            owner = pass_on_owner(raw)
            if owner is not None:
                if owner is not klass:
                    v["meta"] = False          # the pass-on method of another class: must not happen
                nxt = view_along(W, mro[i + 1:], name)
                if nxt[0] == "func":
                    w = nxt[2]
                    return ["func", "plain", {"chain": v["chain"] + w["chain"], "pre": w["pre"], "snaps": w["snaps"],
                                              "post": w["post"], "intro": w["intro"], "meta": v["meta"]}]
            return ["func", "plain", v]
        if isinstance(raw, SLOT_TYPES) or inspect.isbuiltin(raw) or inspect.ismethoddescriptor(raw):
            return ["slot"]
        return ["absent"]
    return ["absent"]


def view_member(W, cls, name):
    return view_along(W, list(cls.__mro__), name)


DUNDERS = ["__invariants__", "__invariants_on_call__", "__invariants_on_setattr__"]


def view_class(W, classes, cls, names):
    if cls is None:
        return {"members": [["absent"] for _ in names], "invs": [], "invs_call": [], "invs_set": [],
                "owners": [None, None, None]}
    lists = [getattr(cls, d, None) for d in DUNDERS]
    owners = []
    for d, lst in zip(DUNDERS, lists):
        if lst is None:
            owners.append(None)
            continue
        owner = None
        for j, other in enumerate(classes):
            if other is not None and getattr(other, d, None) is lst:
                owner = j
                break
        owners.append(owner)
    ids = [[ident(c.condition) for c in (lst or [])] for lst in lists]
    return {"members": [view_member(W, cls, n) for n in names], "invs": ids[0], "invs_call": ids[1],
            "invs_set": ids[2], "owners": owners}


def run_case(case):
    W = ElabWorld()
    import abc
    ns = {"icontract": icontract, "W": W, "abc": abc, "functools": functools, "__name__": case.get("module", "elab_case")}
    registered = []
    classes = []
    funcs = []
    orig_hook = icontract._metaclass._register_for_hypothesis

    def hook(cls):
        registered.append(cls)
    icontract._metaclass._register_for_hypothesis = hook
    out = []
    try:
        for i, op in enumerate(case["ops"]):
            src = gen_elab.py_op(len(classes) if op["op"] == "class" else i, op, ["K%d" % j for j in range(len(classes))])
            err = None
            try:
                exec(compile(src, "<elab-%d>" % i, "exec"), ns)
            except BaseException as e:  # noqa
                err = type(e).__name__
            if op["op"] == "class":
                name = "K%d" % len(classes)
                classes.append(ns.get(name) if err is None else None)
                if err is not None:
                    ns.pop(name, None)
            elif op["op"] == "func" and err is None:
                funcs.append(ns[op["name"]])
            out.append({"error": err,
                        "funcs": [view_func(W, f) for f in funcs],
                        "classes": [view_class(W, classes, c, case["names"]) for c in classes],
                        "registered": [classes.index(c) for c in registered if c in classes],
                        "src": src if case.get("keep_src") else None})
    finally:
        icontract._metaclass._register_for_hypothesis = orig_hook
    return out


def main():
    payload = json.load(sys.stdin)
    if payload.get("explicit_enabled"):
        gen_elab.EXPLICIT_ENABLED = True
    res = []
    for case in payload["cases"]:
        try:
            res.append(run_case(case))
        except BaseException as err:  # noqa
            import traceback
            res.append({"defn_error": type(err).__name__, "msg": traceback.format_exc()[-600:]})
    json.dump(res, sys.stdout)


if __name__ == "__main__":
    main()
