#!/usr/bin/env python3
"""Developer tool: (re)write /verif/MANIFEST.json from the table below."""
import json
import os

VERIF = os.path.dirname(os.path.dirname(os.path.abspath(__file__)))

TB = ("Trusted: Coq 8.16.1 kernel (vm_compute used, native_compute not), translator harness/py2coq.py+facts.py, "
      "the Python correspondence harness. No axioms (Print Assumptions checked on every run). ")

CHECKS = {
    "C01": dict(
        text="Theorems over Model/Checker.v for every mode, user-code oracle, signature, stack of groups, snapshots, "
             "postconditions, arguments and store: body entered only if the effective precondition (DNF) holds "
             "(C01_body_only_if_pre); otherwise no body, no capture, an error, store untouched (C01_reject), namely the "
             "error of the first falsy conjunct of the last group (C01_violated_contracts_error); conversely the body is "
             "entered (C01_body_if_pre). Tie: pinned wrapper skeletons regenerated from /repo + correspondence over all "
             "9 callable kinds x sync/async with the executable statement spec_C01 evaluated on the implementation.",
        note=TB + "Modelled, not verified: CPython call protocol, try/finally, exceptions. Kind-independence rests on the "
             "correspondence (the model runs one checker for every kind).",
        design="DESIGN.md section 6 C01"),
    "C02": dict(
        text="Theorems: a normal return hands back the body's very object and implies all postconditions held on "
             "result/OLD/post-body store (C02_return); with the body's result fixed, all hold => returned, else the error "
             "of the first falsy postcondition (C02_gate); a raising body's exception object passes unchanged and no "
             "postcondition is evaluated (C02_raise), for every exception tag. Tie as C01, spec_C02 on the implementation.",
        note=TB + "Exception classes are tags (residue mod 8 = class); identity compared with `is` in the harness.",
        design="DESIGN.md section 6 C02"),
    "C05": dict(
        text="Coq theorems for all signatures and calls: the translated kwargs_from_call refines Bind.resolve "
             "(C05_code_is_model), and Bind.resolve agrees with Python's binding on every named non-variadic parameter, "
             "_ARGS and _KWARGS outside the two recorded finding classes (C05_agree_partial); two _refuted theorems "
             "exhibit the findings. Tie: translation of the leaf function on every run + correspondence (reference binder "
             "vs CPython, model vs code, spec on the implementation's observation).",
        note=TB + "Bind.pybind (CPython's binding) is a hand-written reference validated against CPython on every case. "
             "_partial: excludes kf_C05_surplus / kf_C05_posonly (known findings).",
        design="DESIGN.md section 6 C05"),
    "C10": dict(
        text="Theorems over Model/Run.v (wrappers as programs over get/set/emit/suspend effects) for every program, "
             "target, fuel, cancellation plan: the marker in the context variable implements exactly the declarative "
             "stack rule of Spec/RunRef.v - bare iff an open frame of the same function/instance is evaluating contracts "
             "(C10_skip_only_own, a refinement proof); if the bodies are ranked, evaluation never exhausts a depth budget "
             "of (#keys+1)*(R+1) however contracts re-enter (C10_terminates, lexicographic measure). Tie: pinned wrapper "
             "skeletons + correspondence on generated call graphs with spec_C10 (the reference) on the implementation.",
        note=TB + "Modelled: contextvars get/set, try/finally, coroutine send/throw. The D1/D2 repairs are in /repo "
             "(fix: commits); their witnesses are corpus cases.",
        design="DESIGN.md section 6 C10"),
    "C11": dict(
        text="Theorems for every program, target, fuel, in-progress set and plan of exceptions thrown in at suspension "
             "points: the in-progress value after the call equals the one before (C11_restore); the first exception that "
             "starts to propagate is the outcome and a normal outcome means none was raised (C11_no_lost_error); every "
             "operation of a history is observed as if it were the first (C11_probe). Tie: pinned skeletons + fault "
             "enumeration by correspondence (exceptions of 5 classes at every kind of site, cancellation/close at awaits).",
        note=TB + "Not modelled (named): closing a suspended contracted coroutine from another context; signals between "
             "two bytecodes of the library's own finally. repr/__bool__ faults are exercised in the checker cluster.",
        design="DESIGN.md section 6 C11"),
    "C12": dict(
        text="Theorems over Model/Conc.v (worlds of tasks/threads each with its own immutable value of the in-progress "
             "variable; schedules that spawn, advance to the next suspension point, cancel): under every schedule a task "
             "evolves by its own decisions only (C12_noninterference); a task that runs to completion shows exactly the "
             "sequential behaviour of its call from the value its context held at creation (C12_sequential_verdict), "
             "which is empty whenever the creator was not inside a check - also after it ran contracted code "
             "(C12_creator_clean = C11_restore). Tie: real asyncio tasks (context copy / fresh Context) and real threads "
             "(fresh / copy_context().run) behind a turnstile, model vs implementation and spec_C12 on the implementation.",
        note=TB + "Trusted contextvars facts: a context is touched only by code running in it; a copy copies the mapping. "
             "Partial (named): pre-emption of threads inside the library's own statements is not exhibited by the "
             "turnstile; tasks spawned from inside a running check inherit that suspension by value (stated, not hidden).",
        design="DESIGN.md section 6 C12"),
}

PENDING = "check under construction in this session (model and theorems not yet committed)"


def main():
    props = [json.loads(l) for l in open(os.path.join(VERIF, "properties.jsonl"))]
    ids = [p["id"] for p in props]
    checks = []
    for pid in ids:
        if pid not in CHECKS:
            continue
        c = CHECKS[pid]
        checks.append({
            "property_id": pid,
            "quick_cmd": "./check %s --tier quick" % pid,
            "thorough_cmd": "./check %s --tier thorough" % pid,
            "evidence_file": "/verif/evidence/%s.json" % pid,
            "replay_cmd_template": "./check %s --replay {path}" % pid,
            "engine": "icv-coq",
            "level_claimed": {"category": "proof", "text": c["text"], "design_ref": c["design"]},
            "level_note": c["note"],
            "technique": "machine-checked proof in Coq (model + theorems) tied to /repo by translation (py2coq) and "
                         "differential correspondence (vm_compute vs real icontract)",
        })
    m = {
        "version": 1,
        "setup_cmd": "./setup.sh",
        "hooks": {"guard": "ICONTRACT_VERIF",
                  "enable": "no hooks are needed: every observation point is reachable from outside (DESIGN.md section 4)",
                  "baseline_off_cmd": "cd /repo && /venv/bin/python -m pytest -ra -q -p no:cacheprovider --timeout=900 "
                                      "--continue-on-collection-errors",
                  "source_commits": [], "add_only": True},
        "engines": [
            {"name": "icv-coq", "path": "coq/", "serves_properties": sorted(CHECKS),
             "kind_free_text": "Coq 8.16.1 development: executable Gallina models (Model/), declarative specifications and "
                               "executable oracles (Spec/), proofs (Proofs/), property theorems (Props/), leaf functions "
                               "and wrapper skeletons regenerated from /repo (Gen/)"},
            {"name": "icv-harness", "path": "harness/", "serves_properties": sorted(CHECKS),
             "kind_free_text": "Python: translator py2coq/facts, case generators, renderers, implementation drivers, "
                               "decision + evidence (check)"}],
        "checks": checks,
        "not_applicable": [{"property_id": pid, "reason": PENDING} for pid in ids if pid not in CHECKS],
        "notes": "See DESIGN.md. known_findings.json lists recorded and fixed defects; corpus/ holds their witnesses.",
    }
    with open(os.path.join(VERIF, "MANIFEST.json"), "w") as fh:
        json.dump(m, fh, indent=1)
    print("MANIFEST.json: %d checks, %d not applicable" % (len(checks), len(m["not_applicable"])))


if __name__ == "__main__":
    main()
