#!/usr/bin/env python3
"""Developer tool: (re)write /verif/MANIFEST.json from the table below."""
import json
import os

VERIF = os.path.dirname(os.path.dirname(os.path.abspath(__file__)))

TB = ("Trusted: Coq 8.16.1 kernel (vm_compute used, native_compute not), translator harness/py2coq.py+facts.py, "
      "the Python correspondence harness. No axioms (Print Assumptions checked on every run). Every statement of the "
      "source files the theorems speak about is pinned (Proofs/SrcPin*.v against the regenerated src_* skeletons): any "
      "change of that code breaks an obligation and sends the check into the search for a failing input. ")

CHECKS = {
    "C01": dict(
        text="Theorems over Model/Checker.v for every mode, user-code oracle, signature, stack of groups, snapshots, "
             "postconditions, arguments and store: body entered only if the effective precondition (DNF) holds "
             "(C01_body_only_if_pre); otherwise no body, no capture, an error, store untouched (C01_reject), namely the "
             "error of the first falsy conjunct of the last group (C01_violated_contracts_error); conversely the body is "
             "entered (C01_body_if_pre). Tie: pinned wrapper skeletons regenerated from /repo + correspondence over all "
             "9 callable kinds x sync/async with the executable statement spec_C01 evaluated on the implementation; histories of definitions: the lists on the wrapper that enforces the contracts are the declared effective contracts (spec_C04).",
        note=TB + "Modelled, not verified: CPython call protocol, try/finally, exceptions. Kind-independence rests on the "
             "correspondence (the model runs one checker for every kind).",
        design="DESIGN.md section 6 C01"),
    "C02": dict(
        text="Theorems: a normal return hands back the body's very object and implies all postconditions held on "
             "result/OLD/post-body store (C02_return); with the body's result fixed, all hold => returned, else the error "
             "of the first falsy postcondition (C02_gate); a raising body's exception object passes unchanged and no "
             "postcondition is evaluated (C02_raise), for every exception tag; for every case (any kind of callable, with "
             "or without invariants around it) a normal return has run the body and is the body's value "
             "(C02_a_return_is_the_bodys, Proofs/CheckerAfter.v). Tie as C01, spec_C02 on the implementation.",
        note=TB + "Exception classes are tags (residue mod 8 = class); identity compared with `is` in the harness.",
        design="DESIGN.md section 6 C02"),
    "C05": dict(
        text="Coq theorems for all signatures and calls: the translated kwargs_from_call refines Bind.resolve "
             "(C05_code_is_model), and Bind.resolve agrees with Python's binding on every named non-variadic parameter, "
             "_ARGS and _KWARGS outside the two recorded finding classes (C05_agree_partial); two _refuted theorems "
             "exhibit the findings; for whole checked calls of the checker model: the library's own TypeError always has a "
             "reason readable off the declarations and the call - a parameter the call binds stays available to every "
             "contract, whatever was evaluated before (C05_type_error_has_a_reason, Proofs/CheckerTypeError.v). Tie: translation of the leaf function on every run + correspondence (reference binder "
             "vs CPython, model vs code, spec on the implementation's observation).",
        note=TB + "Bind.pybind (CPython's binding) is a hand-written reference validated against CPython on every case. "
             "_partial: excludes kf_C05_surplus / kf_C05_posonly (known findings).",
        design="DESIGN.md section 6 C05"),
    "C10": dict(
        text="Theorems over Model/Run.v (wrappers as programs over get/set/emit/suspend effects) for every program, "
             "target, fuel, cancellation plan: the marker in the context variable implements exactly the declarative "
             "stack rule of Spec/RunRef.v - bare iff an open frame of the same function/instance is evaluating contracts "
             "(C10_skip_only_own, a refinement proof); if the bodies are ranked, evaluation never exhausts a depth budget "
             "of (#keys+1)*(R+1) however contracts re-enter (C10_terminates, lexicographic measure); targets include the "
             "creation of an instance through a wrapped __new__ (no suspension; terminates if it outranks what it calls). Tie: pinned wrapper "
             "skeletons + correspondence on generated call graphs with spec_C10 (the reference) on the implementation.",
        note=TB + "Modelled: contextvars get/set, try/finally, coroutine send/throw. The D1/D2 repairs are in /repo "
             "(fix: commits); their witnesses are corpus cases.",
        design="DESIGN.md section 6 C10"),
    "C11": dict(
        text="Theorems for every program, target, fuel, in-progress set and plan of exceptions thrown in at suspension "
             "points: the in-progress value after the call equals the one before (C11_restore); the first exception that "
             "starts to propagate is the outcome and a normal outcome means none was raised (C11_no_lost_error); every "
             "operation of a history is observed as if it were the first (C11_probe); for whole checked calls of the checker "
             "model (alternative precondition groups, snapshots, error factories, invariants, all kinds, sync/async): the "
             "first exception raised by user code ends the call and surfaces as that very object or the library's wrapper "
             "chaining it - the executable statement spec_C11_surface proved of the model for every well-formed case "
             "(C11_first_exception_surfaces_in_a_checked_call, Proofs/CheckerSurface.v). Tie: pinned skeletons + fault "
             "enumeration by correspondence (exceptions of 5 classes at every kind of site, cancellation/close at awaits).",
        note=TB + "Not modelled (named): closing a suspended contracted coroutine from another context; signals between "
             "two bytecodes of the library's own finally. repr/__bool__ faults are exercised in the checker cluster.",
        design="DESIGN.md section 6 C11"),
    "C12": dict(
        text="Theorems over Model/Conc.v (worlds of tasks/threads each with its own immutable value of the in-progress "
             "variable; schedules that spawn, advance to the next suspension point, cancel): under every schedule a task "
             "evolves by its own decisions only (C12_noninterference); a task that runs to completion shows exactly the "
             "sequential behaviour of its call from the value its context held at creation (C12_sequential_verdict), "
             "which is empty whenever the creator was not inside a check - also after it ran contracted code "
             "(C12_creator_clean = C11_restore). Tie: real asyncio tasks (context copy / fresh Context) and real threads "
             "(fresh / copy_context().run) behind a turnstile - also a thread waiting inside a constructor or inside an "
             "invariant of an instance its __new__ just made while others call or construct - model vs implementation "
             "and spec_C12 on the implementation.",
        note=TB + "Trusted contextvars facts: a context is touched only by code running in it; a copy copies the mapping. "
             "Partial (named): pre-emption of threads inside the library's own statements is not exhibited by the "
             "turnstile; tasks spawned from inside a running check inherit that suspension by value (stated, not hidden).",
        design="DESIGN.md section 6 C12"),
    "C03": dict(
        text="Theorems: around a public operation the selected invariants are evaluated before (a falsy one keeps the "
             "body from running) and after, the first falsy one in list order is reported, after a constructor all of "
             "them (C03_before_and_after, C03_after_constructor, C03_first_falsy_invariant over Model/Checker.v); the "
             "member-selection rule of add_invariant_checks touches exactly public/dunder functions, slot wrappers and "
             "properties, never _x, class/static methods, __new__, __repr__, __getattribute__, and __setattr__ only on "
             "request (C03_selection over Model/Elab.v). Tie: pinned invariant-wrapper skeletons; run-time "
             "correspondence (methods, properties, __init__ with invariants) and definition histories whose wrapped "
             "members are compared with the must-wrap rule computed from the declarations (spec_C03_selection); "
             "constructor chains (Model/Ctor.v): whatever the constructors do with super().__init__(), K() runs every body "
             "first and only then evaluates the invariants of the class on the finished object "
             "(C03_outermost_constructor), chains of 1-4 classes against the library (spec_C03_ctor).",
        note=TB + "Partial: histories of operations on one instance are covered by the Run model (C10/C11) for one class "
             "per instance; kf_C03_newstyle (D4b) is a known finding.",
        design="DESIGN.md section 6 C03"),
    "C04": dict(
        text="Theorems: the merge at class creation denotes OR over inherited and own precondition groups (C04_pre_or), "
             "keeps the inherited precondition when none is declared (C04_pre_kept), accepts all without any "
             "(C04_accept_all), AND over postconditions (C04_post_and), rejects weakening without base preconditions "
             "(C04_weaken_rejected); the generated collapse_* functions refine the model's merge (Proofs/ElabRefine.v); "
             "C04_accept_all_refuted exhibits the known finding; the hierarchy the oracles read off an observed history is "
             "the model's on the model's own history (C04_oracle_hierarchy_is_the_models, Proofs/ElabSkeleton.v). Tie: "
             "definition histories with single and multiple inheritance on DBC, every member kind; the lists found through "
             "find_checker are compared with the effective contracts computed from the declarations along the MRO (spec_C04).",
        note=TB + "The whole-class-table induction (any DAG) is not proved; general DAGs are checked by correspondence. "
             "Known findings: kf_C04_accept_all (D6), kf_C04_accessor_gap (D23), kf_C04_copy_shadows (D34), "
             "kf_C04_hidden_definer (D36).",
        design="DESIGN.md section 6 C04"),
    "C06": dict(
        text="Theorems (any data model in which only callables are called, conditions without comprehensions): if "
             "Python evaluates the condition to v, the re-evaluator returns v, ends in the same tables and "
             "records exactly the nodes Python evaluated with Python's values in Python's order "
             "(C06_reevaluation_is_evaluation, by mutual induction over the 7 syntactic categories; C06_sound, C06_complete); "
             "for ALL conditions - comprehensions, generator expressions, all(<generator>) included - and every data model: "
             "whenever the re-evaluator returns it returns Python's value and its record outside comprehension scopes is "
             "Python's log (C06_reevaluation_agrees_whenever_it_returns, C06_sound_all, C06_complete_all; Proofs/ExprSound.v "
             "over the range lemmas of Proofs/ExprRange.v); "
             "a line is a recorded value or a representable argument, every representable argument is listed "
             "(C06_lines_come_from_the_record, C06_arguments_listed); the example of a failing all() is the first "
             "falsifying assignment (C06_all_first). Tie: correspondence - the model's Python semantics against instrumented "
             "CPython node by node, the re-evaluator model against Visitor.recomputed_values and the message lines (objects "
             "handed to a_repr), spec_C06 on the implementation's observation.",
        note=TB + "Partial: that the re-evaluator returns at all is proved without comprehensions only (with them: finding D12b); "
             "values shown for nodes inside comprehension scopes rest on the correspondence. "
             "Recorded finding D21 (names inside f-strings are not listed; C06_fstring_inner_refuted).",
        design="DESIGN.md section 6 C06"),
    "C07": dict(
        text="Theorems: for conditions without comprehensions the re-evaluator returns whenever Python's "
             "evaluation did (C07_no_replacement_partial) and records nothing Python did not evaluate - no operand skipped "
             "by short-circuiting is evaluated (C07_no_extra_evaluation_partial; for all conditions incl. comprehensions whenever "
             "the re-evaluator returns: C07_no_extra_evaluation); message = location, description, text, "
             "lines (C07_message_shape); D12b exhibited (C07_speculative_refuted). Tie: correspondence with the guard shapes "
             "first, exception class at the caller, condition text parsed back, evaluated nodes against CPython's; layouts "
             "of the decorator by enumeration (10 layouts x 3 nestings x description).",
        note=TB + "Partial: the layout clause is an enumeration of layout templates (source recovery is inspect/asttokens "
             "behaviour, not modelled). Recorded finding D12b (speculative evaluation inside comprehensions).",
        design="DESIGN.md section 6 C07"),
    "C08": dict(
        text="Theorems: the trace of a checked call is pre ++ captures ++ body ++ post; captures occur only after the "
             "effective precondition held and only with postconditions and snapshots, each exactly once in order when "
             "the body is entered (C08_once_between); postconditions see the values captured from the pre-body store "
             "whatever the body does (C08_old_values); none when a precondition fails. Definition-time rejections "
             "(Props/C19.v). Tie: run-time correspondence with spec_C08, definition histories with spec_C19_defs.",
        note=TB, design="DESIGN.md section 6 C08"),
    "C09": dict(
        text="Theorems: dispatch on the error argument - default ViolationError, class instantiated with the message, "
             "instance raised as is with nothing else called, factory called once with exactly the values it names "
             "and its result raised, non-exception result and missing names a TypeError (C09_default/_class/_instance/"
             "_factory), at most one factory call per contract and check (C09_factory_at_most_once); invalid error "
             "arguments rejected at construction (C19_invalid_decorator). Tie: correspondence with spec_C09; a raising "
             "call whose body has not run is made a second time and must be the same call (events, outcome).",
        note=TB + "ViolationError <: AssertionError and the message text are checked by the harness, not modelled.",
        design="DESIGN.md section 6 C09"),
    "C13": dict(
        text="Theorems: the async wrapper, awaited, equals the sync wrapper in which coroutine conditions/captures are "
             "replaced by their awaited values (C13_awaited), hence equal traces and outcomes for sync-valued contracts "
             "(C13_same_observation); on a sync callable a coroutine condition/capture is rejected without truth test "
             "(C13_sync_rejects_*). Tie: skeleton parity lemmas over the wrappers regenerated from /repo (async with "
             "await erased = sync, five pairs) + paired correspondence (each case rendered with def and async def) + "
             "programs of coroutine functions and async methods that await each other (run cluster), judged by the "
             "model, which knows no difference between def and async def (spec_C11).",
        note=TB, design="DESIGN.md section 6 C13"),
    "C14": dict(
        text="Theorems: with satisfied contracts the caller receives the body's very object or exception, the body is "
             "entered and receives what Python binds (C14_result_unchanged, _exception_unchanged, _body_entered, "
             "_identical_arguments). Tie: correspondence (spec_C14), decorator stacks with foreign functools.wraps "
             "decorators: one checker, all foreign decorators kept in order, original at the end (spec_C14_stacks), "
             "members resolve as declared along the MRO (spec_C04), selection (spec_C03_selection); nested calls incl. async methods: without a violation the bodies entered and the outcome are those of the bare program (spec_C14_run); "
             "a scenario probe: a foreign decorator that passes __wrapped__ on but no attributes.",
        note=TB + "Partial (correspondence only): metadata preservation (__name__, signature, abstractness, "
             "coroutine-ness) is a functools/inspect fact. The single-checker clause is checked, not yet proved.",
        design="DESIGN.md section 6 C14"),
    "C15": dict(
        text="Theorems over the expressions translated from /repo on this run: icontract.SLOW is __debug__ and "
             "ICONTRACT_SLOW non-empty, the four enabled defaults are __debug__, so the flag is the documented one for "
             "every mode x environment x argument x decorator (C15_slow, C15_default, C15_enabled_flag); a disabled "
             "decorator - any kind, valid or not, any stack - returns its argument and leaves the world unchanged "
             "(C15_absent_*); each __call__ starts with the early return and no assert of the library has an effect "
             "(C15_source_facts, C15_asserts_effect_free). Tie: translator facts + subprocess matrix (3 modes x 5 "
             "environments x 84 rows, spec_C15 evaluated in Coq on each observation) + generated programs and generated "
             "histories of definitions with enabled=True spelled out, rerun under -O and -OO and compared with the normal "
             "interpreter, and the violation messages of generated conditions compared line by line between the modes "
             "(the histories found D37: an assert statement that rejected a misuse in the normal mode only; fixed).",
        note=TB + "The second sentence of the property (explicitly enabled contracts are enforced identically under -O) "
             "is decided by the effect-free-assert fact plus correspondence, not by a theorem about CPython's -O; an "
             "assert statement of the library that can fail on input a user can reach is a mode difference the "
             "correspondence has to find (D37 was one).",
        design="DESIGN.md section 6 C15"),
    "C16": dict(
        text="Theorems: phase order pre, snapshots, body, post with invariants strictly outside (C16_phase_order, "
             "C16_invariants_outermost); groups tried in order until one holds, each stops at its first falsy "
             "condition, error of the first falsy one of the last group / first falsy postcondition (C16_groups, "
             "C16_first_falsy_postcondition); each condition at most once per check, a lambda once more, each factory "
             "at most once (C16_at_most_once); base lists precede own (Proofs/ElabRefine.v). Tie: spec_C16 + spec_C04 + "
             "spec_C16_after (after a body that returned every invariant has been evaluated, in list order - proved of "
             "the model for every case: C16_every_invariant_after_a_return; so is the phase order of whole calls, the "
             "invariants around them included: C16_phases_of_a_whole_call; Proofs/CheckerAfter.v).",
        note=TB, design="DESIGN.md section 6 C16"),
    "C17": dict(
        text="Theorems over the heap model of Model/Elab.v where aliasing is explicit: decorating a function with any "
             "decorator stack leaves every list cell, function object, class, binding and registration that existed before "
             "unchanged (C17_function_decoration_frame); so does a class statement - member definitions, the meta-class "
             "merging inherited contracts and invariant lists, invariant wrappers, registration, class decorators - provided "
             "the new class shows only invariant lists of its own (C17_class_statement_frame) - which holds for every class "
             "created through the meta-class in every world a history of definitions reaches "
             "(C17_class_statement_frame_reachable: an invariant of reachable worlds kept by every step, C3 merges only "
             "its inputs; Proofs/ElabOwnLists.v). Tie: contents and identity of all lists of all earlier classes after each "
             "step, incl. later decorations K.f = decorator(K.f) (spec_C17).",
        note=TB + "Not covered by a theorem: the frame of a later decoration of a member (correspondence only); recorded "
             "finding D32 (alias of another class's method in a class body).",
        design="DESIGN.md section 6 C17"),
    "C18": dict(
        text="Theorems: judging a call by hand over the introspected lists (DNF, then CNF on the result) gives the "
             "verdict of the call (C18_manual_precondition_verdict, C18_manual_postcondition_verdict). Tie: the lists "
             "found through find_checker equal the effective contracts computed from the declarations (spec_C04); find_checker returns the wrapper whose code evaluates the contracts (spec_C18_introspection); every "
             "class created through DBCMeta is announced exactly once, in order (spec_C18_registered); the members a class "
             "shows as checked are the ones its invariants select (spec_C03_selection).",
        note=TB + "Registration: C18_registered_are_the_meta_classes (in every reachable world the registrations are the "
             "numbers of the meta classes, ascending; Proofs/ElabRegistered.v) plus the correspondence.", design="DESIGN.md section 6 C18"),
    "C19": dict(
        text="Theorems (case analysis over Model/Elab.v and the guards of checker_call): invalid decorators abort the "
             "definition with their documented exception before anything is decorated, _ARGS/_KWARGS parameters are a "
             "TypeError at decoration, snapshots without a postcondition or with a duplicate name a ValueError, "
             "_ARGS/_KWARGS keywords and result/OLD parameters a TypeError at the call before any condition "
             "(C19_*); for whole calls of every kind, invariants around them or not, the executable statement spec_C19_call "
             "is proved of the model for every case (C19_reserved_names_in_a_whole_call, Proofs/CheckerAfter.v). "
             "Tie: definition histories with misuse; the exception class of each definition is compared with "
             "the set of misuses computed from the declarations (spec_C19_defs); calls with parameters named result / OLD of every kind, passed positionally, by keyword or by default (spec_C19_call).",
        note=TB, design="DESIGN.md section 6 C19"),
    "C20": dict(
        text="Theorems: value lines are sorted by key (C20_sorted); sorting is independent of input order for distinct keys, "
             "so keyword order cannot show (C20_sort_order_independent, C20_keyword_order); _ARGS/_KWARGS hidden unless named "
             "(C20_args_hidden); non-representable values left out of argument, name, attribute, f-string and target lines "
             "(C20_left_out_*); every value rendered by the contract's own repr and bounded by its bound (C20_own_repr, "
             "C20_bounded). Tie: correspondence (spec_C20 + lines against the model) and runtime part: hash seeds x keyword "
             "permutations x repetition, byte-identical messages; huge values under default and user-supplied repr.",
        note=TB + "That reprlib honours its limits is a standard-library fact, measured on every run.",
        design="DESIGN.md section 6 C20"),
}

PENDING = "check under construction in this session (model and theorems not yet committed)"


def main():
    props = [json.loads(l) for l in open(os.path.join(VERIF, "properties.jsonl"))]
    ids = [p["id"] for p in props]
    checks = []
    for pid in ids:
        if pid not in CHECKS:
            continue
        c = CHECKS[pid]
        checks.append({
            "property_id": pid,
            "quick_cmd": "./check %s --tier quick" % pid,
            "thorough_cmd": "./check %s --tier thorough" % pid,
            "evidence_file": "/verif/evidence/%s.json" % pid,
            "replay_cmd_template": "./check %s --replay {path}" % pid,
            "engine": "icv-coq",
            "level_claimed": {"category": "proof", "text": c["text"], "design_ref": c["design"]},
            "level_note": c["note"],
            "technique": "machine-checked proof in Coq (model + theorems) tied to /repo by translation (py2coq) and "
                         "differential correspondence (vm_compute vs real icontract)",
        })
    m = {
        "version": 1,
        "setup_cmd": "./setup.sh",
        "hooks": {"guard": "ICONTRACT_VERIF",
                  "enable": "no hooks are needed: every observation point is reachable from outside (DESIGN.md section 4)",
                  "baseline_off_cmd": "cd /repo && /venv/bin/python -m pytest -ra -q -p no:cacheprovider --timeout=900 "
                                      "--continue-on-collection-errors",
                  "source_commits": [], "add_only": True},
        "engines": [
            {"name": "icv-coq", "path": "coq/", "serves_properties": sorted(CHECKS),
             "kind_free_text": "Coq 8.16.1 development: executable Gallina models (Model/), declarative specifications and "
                               "executable oracles (Spec/), proofs (Proofs/), property theorems (Props/), leaf functions "
                               "and wrapper skeletons regenerated from /repo (Gen/)"},
            {"name": "icv-harness", "path": "harness/", "serves_properties": sorted(CHECKS),
             "kind_free_text": "Python: translator py2coq/facts, case generators, renderers, implementation drivers, "
                               "decision + evidence (check)"}],
        "checks": checks,
        "not_applicable": [{"property_id": pid, "reason": PENDING} for pid in ids if pid not in CHECKS],
        "notes": "See DESIGN.md. known_findings.json lists recorded and fixed defects; corpus/ holds their witnesses.",
    }
    with open(os.path.join(VERIF, "MANIFEST.json"), "w") as fh:
        json.dump(m, fh, indent=1)
    print("MANIFEST.json: %d checks, %d not applicable" % (len(checks), len(m["not_applicable"])))


if __name__ == "__main__":
    main()
