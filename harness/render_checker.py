"""Render a checker-cluster case (see gen_checker.py) to Python source: ``def case_<n>(W): ...``.

The source is laid out like user code: decorators one per line above the definitions, lambdas
inside decorators in a real file (so that inspect / asttokens work as in production)."""
from sigutil import sig_text, all_names

IND = "    "


def val_src(v):
    k = v[0]
    if k == "o":
        return "W.obj(%d)" % v[1]
    if k == "i":
        return "%d" % v[1]
    if k == "n":
        return "None"
    raise ValueError(v)


def sig_with_defaults(sig):
    """sig_text wants int defaults; here defaults are canonical values rendered as expressions."""
    def conv(ps):
        return [{"name": p["name"], "default": None if p["default"] is None else "@" + val_src(p["default"])} for p in ps]
    s = {"posonly": conv(sig["posonly"]), "poskw": conv(sig["poskw"]), "varpos": sig["varpos"],
         "kwonly": conv(sig["kwonly"]), "varkw": sig["varkw"]}
    parts = []
    for p in s["posonly"]:
        parts.append(p["name"] + ("=" + p["default"][1:] if p["default"] else ""))
    if s["posonly"]:
        parts.append("/")
    for p in s["poskw"]:
        parts.append(p["name"] + ("=" + p["default"][1:] if p["default"] else ""))
    if s["varpos"]:
        parts.append("*" + s["varpos"])
    elif s["kwonly"]:
        parts.append("*")
    for p in s["kwonly"]:
        parts.append(p["name"] + ("=" + p["default"][1:] if p["default"] else ""))
    if s["varkw"]:
        parts.append("**" + s["varkw"])
    return ", ".join(parts)


def with_receiver(sig, recv):
    """Signature with self/cls prepended (positional-only if the signature has positional-only parameters)."""
    if recv is None:
        return sig
    s = dict(sig)
    p = {"name": recv, "default": None}
    if sig["posonly"]:
        s["posonly"] = [p] + sig["posonly"]
    else:
        s["poskw"] = [p] + sig["poskw"]
    return s


RECEIVER = {"function": None, "staticmethod": None, "method": "self", "classmethod": "cls", "prop_get": "self",
            "prop_set": "self", "prop_del": "self", "init": "self", "new": "cls"}


def cond_params(c):
    return ", ".join(n + ("=W.MISSING" if d else "") for n, d in c["params"])


def cond_call(c, role):
    fn = "W.acond" if c["kind"] == "awaitable" else "W.cond"
    kws = ", ".join("'%s': %s" % (n, n) for n, _ in c["params"])
    return "%s('%s', %d, {%s})" % (fn, role, c["cid"], kws)


# condition functions written with `def` are made by a factory shared by all conditions of the same signature
SHARED_CODE = True


def render_contract(c, role, lines, ind, shared=False):
    """Emit helper definitions into lines; return the decorator argument text."""
    if c["lambda"] and c["kind"] != "corofn":
        cond = "lambda %s: %s" % (cond_params(c), cond_call(c, role)) if c["params"] else "lambda: %s" % cond_call(c, role)
    else:
        prefix = "async def" if c["kind"] == "corofn" else "def"
        if c["kind"] == "plain" and SHARED_CODE and shared:
            # conditions of one signature come out of one factory, as a helper such as `at_least(bound)` makes them:
            # distinct contracts whose condition functions share a code object
            ps = cond_params(c)
            kws = ", ".join("'%s': %s" % (n, n) for n, _ in c["params"])
            fac = "k_%s" % "_".join([n + ("D" if d else "") for n, d in c["params"]] or ["none"])
            head = "def %s(role, cid):" % fac
            if not any(l.strip() == head for l in lines):
                lines.append("%s%s" % (ind, head))
                lines.append("%s    def c(%s): return W.cond(role, cid, {%s})" % (ind, ps, kws))
                lines.append("%s    c.__name__ = 'c_%%d' %% cid          # the message of a violation names the function" % ind)
                lines.append("%s    return c" % ind)
            lines.append("%sc_%d = %s('%s', %d)" % (ind, c["cid"], fac, role, c["cid"]))
        else:
            lines.append("%s%s c_%d(%s): return %s" % (ind, prefix, c["cid"], cond_params(c), cond_call(c, role)))
        cond = "c_%d" % c["cid"]
    err = c["error"]
    if err[0] == "none":
        return cond
    if err[0] == "class":
        return "%s, error=W.ERR[%d]" % (cond, err[1])
    if err[0] == "instance":
        return "%s, error=W.exc(%d)" % (cond, err[1])
    if err[0] == "factory":
        names = err[1]
        dflt = err[3] if len(err) > 3 else []
        kws = ", ".join("'%s': %s" % (n, n) for n in names)
        plist = ", ".join(n + ("=W.MISSING" if n in dflt else "") for n in names)
        if names and c["cid"] % 4 == 0:
            plist = "*, " + plist            # a factory that takes its values by keyword only
        if len(err) > 2 and err[2] == "lambda":
            return "%s, error=lambda %s: W.error(%d, {%s})" % (cond, plist, c["cid"], kws)
        lines.append("%sdef e_%d(%s): return W.error(%d, {%s})" % (ind, c["cid"], plist, c["cid"], kws))
        return "%s, error=e_%d" % (cond, c["cid"])
    raise ValueError(err)


# set to ", enabled=True" to spell the flag out (C15 reruns cases under python -O, where the default is off)
ENABLED_SUFFIX = ""


def render_snapshot(s, lines, ind):
    fn = "W.acapture" if s["kind"] == "awaitable" else "W.capture"
    kws = ", ".join("'%s': %s" % (n, n) for n in s["params"])
    if s.get("lambda") and s["kind"] != "corofn":
        cap = "lambda %s: %s(%d, {%s})" % (", ".join(s["params"]), fn, s["sid"], kws)
    else:
        prefix = "async def" if s["kind"] == "corofn" else "def"
        lines.append("%s%s s_%d(%s): return %s(%d, {%s})" % (ind, prefix, s["sid"], ", ".join(s["params"]), fn, s["sid"], kws))
        cap = "s_%d" % s["sid"]
    if s["name"] is not None:
        cap += ", name='%s'" % s["name"]
    return cap


def interleave(pre, snaps, post, pattern):
    """Merge the three decorator sequences (each in application order) keeping each one's order;
    every snapshot comes after at least one postcondition.  Returns application order."""
    seqs = {"r": list(pre), "s": list(snaps), "e": list(post)}
    out = []
    x = pattern + 1
    applied_e = 0
    while any(seqs.values()):
        choices = [k for k in ("e", "s", "r") if seqs[k] and not (k == "s" and applied_e == 0)]
        x = (x * 1103515245 + 12345) % (2 ** 31)
        k = choices[(x >> 8) % len(choices)] if pattern else choices[0]
        out.append((k, seqs[k].pop(0)))
        if k == "e":
            applied_e += 1
    return out


def render_decorators(level, helper_lines, ind, pattern):
    """Returns decorator lines top-to-bottom (i.e. reverse application order)."""
    applied = interleave(level["pre"], level["snaps"], level["post"], pattern)
    decos = []
    for k, item in applied:
        if k == "r":
            decos.append("@icontract.require(%s%s)" % (render_contract(item, "pre", helper_lines, ind, shared=True), ENABLED_SUFFIX))
        elif k == "e":
            decos.append("@icontract.ensure(%s%s)" % (render_contract(item, "post", helper_lines, ind, shared=True), ENABLED_SUFFIX))
        else:
            decos.append("@icontract.snapshot(%s%s)" % (render_snapshot(item, helper_lines, ind), ENABLED_SUFFIX))
    return [ind + d for d in reversed(decos)]


def body_env(sig):
    return "{" + ", ".join("'%s': %s" % (n, n) for n in all_names(sig)) + "}"


def render_case(n, case):
    kind, is_async = case["kind"], case["async"]
    recv = RECEIVER[kind]
    fsig = with_receiver(case["sig"], recv)
    L = ["def case_%d(W):" % n]
    ind1, ind2 = IND, IND * 2
    args_src = "[" + ", ".join(val_src(v) for v in case["args"]) + "]"
    kwargs_src = "{" + ", ".join("'%s': %s" % (k, val_src(v)) for k, v in case["kwargs"].items()) + "}"
    L.append("%sARGS = %s" % (ind1, args_src))
    L.append("%sKWARGS = %s" % (ind1, kwargs_src))
    adef = "async def" if is_async else "def"
    if case.get("adapter"):
        adef = "@W.sync_adapter\n%sasync def"
    pattern = case.get("interleave", 0)
    bodyfn = "await W.abody" if "async" in adef else "W.body"
    hop = ", hop=True" if case.get("hop") else ""
    if kind == "function":
        helpers = []
        decos = render_decorators(case["levels"][-1], helpers, ind1, pattern)
        L += helpers + decos
        L.append("%s%s f(%s): return %s(%s)" % (ind1, adef % ind1 if "%s" in adef else adef, sig_with_defaults(fsig), bodyfn, body_env(fsig)))
        L.append("%sreturn W.run(lambda: f(*ARGS, **KWARGS), %s%s)" % (ind1, is_async, hop))
        return "\n".join(L)
    # class-based kinds
    nlev = len(case["levels"])
    for j, level in enumerate(case["levels"]):
        helpers = []
        decos = [IND + d for d in render_decorators(level, helpers, ind1, pattern)]
        inv_lines = []
        if case.get("invs") and j == nlev - 1:
            inv_helpers = []
            for c in case["invs"] + case.get("invs_set", []):
                arg = render_contract(c, "inv", inv_helpers, ind1)
                extra = ""
                if c.get("check_on"):
                    extra = ", check_on=icontract.InvariantCheckEvent.%s" % c["check_on"]
                inv_lines.insert(0, "%s@icontract.invariant(%s%s%s)" % (ind1, arg, extra, ENABLED_SUFFIX))
            L += inv_helpers
        L += helpers
        L += inv_lines
        base = "icontract.DBC" if j == 0 else "L%d" % (j - 1)
        if j == 1 and case.get("diamond"):
            # the contracts of L0 reach L1 along two paths (the same checker object through two bases)
            L.append("%sclass M1(L0): pass" % ind1)
            L.append("%sclass M2(L0): pass" % ind1)
            base = "M1, M2"
        L.append("%sclass L%d(%s):" % (ind1, j, base))
        L.append("%s_icv_tag = 900" % ind2)
        if kind == "method":
            L += decos
            L.append("%s%s f(%s): return %s(%s)" % (ind2, adef % ind2 if "%s" in adef else adef, sig_with_defaults(fsig), bodyfn, body_env(fsig)))
        elif kind == "staticmethod":
            L.append("%s@staticmethod" % ind2)
            L += decos
            L.append("%s%s f(%s): return %s(%s)" % (ind2, adef % ind2 if "%s" in adef else adef, sig_with_defaults(fsig), bodyfn, body_env(fsig)))
        elif kind == "classmethod":
            L.append("%s@classmethod" % ind2)
            L += decos
            L.append("%s%s f(%s): return %s(%s)" % (ind2, adef % ind2 if "%s" in adef else adef, sig_with_defaults(fsig), bodyfn, body_env(fsig)))
        elif kind == "prop_get":
            L.append("%s@property" % ind2)
            L += decos
            L.append("%sdef p(self): return W.body({'self': self})" % ind2)
        elif kind == "prop_set":
            L.append("%s@property" % ind2)
            L.append("%sdef p(self): return None" % ind2)
            L.append("%s@p.setter" % ind2)
            L += decos
            L.append("%sdef p(self, value): return W.body({'self': self, 'value': value})" % ind2)
        elif kind == "prop_del":
            L.append("%s@property" % ind2)
            L.append("%sdef p(self): return None" % ind2)
            L.append("%s@p.deleter" % ind2)
            L += decos
            L.append("%sdef p(self): return W.body({'self': self})" % ind2)
        elif kind == "init":
            L += decos
            L.append("%sdef __init__(%s): return W.body(%s)" % (ind2, sig_with_defaults(fsig), body_env(fsig)))
        elif kind == "new":
            L += decos
            L.append("%sdef __new__(%s): return W.body(%s)" % (ind2, sig_with_defaults(fsig), body_env(fsig)))
        else:
            raise ValueError(kind)
    K = "L%d" % (nlev - 1)
    if kind in ("method", "prop_get", "prop_set", "prop_del"):
        L.append("%sinst = %s()" % (ind1, K))
    if kind == "method":
        L.append("%sreturn W.run(lambda: inst.f(*ARGS, **KWARGS), %s%s)" % (ind1, is_async, hop))
    elif kind in ("staticmethod", "classmethod"):
        L.append("%sreturn W.run(lambda: %s.f(*ARGS, **KWARGS), %s%s)" % (ind1, K, is_async, hop))
    elif kind == "prop_get":
        L.append("%sreturn W.run(lambda: inst.p, False)" % ind1)
    elif kind == "prop_set":
        L.append("%sreturn W.run(lambda: setattr(inst, 'p', ARGS[0]), False)" % ind1)
    elif kind == "prop_del":
        L.append("%sreturn W.run(lambda: delattr(inst, 'p'), False)" % ind1)
    elif kind == "init":
        L.append("%sreturn W.run(lambda: %s(*ARGS, **KWARGS), False)" % (ind1, K))
    elif kind == "new":
        L.append("%sreturn W.run(lambda: %s.__new__(%s, *ARGS, **KWARGS), False)" % (ind1, K, K))
    return "\n".join(L)


def render_module(cases, first_index=0):
    parts = ["import icontract", ""]
    for i, case in enumerate(cases):
        parts.append(render_case(first_index + i, case))
        parts.append("")
    return "\n".join(parts)
