#!/bin/bash
# usage: seed_matrix.sh <scratch copy of the repository> [checks...]
# Applies every seeded change in turn to the scratch copy (never to /repo), runs the checks against it and prints one
# line per change: which checks reported a violation (a trailing ~ marks "no-failing-input-found" only).
repo=$1; shift
checks=${@:-C01 C02 C03 C04 C05 C06 C07 C08 C09 C10 C11 C12 C13 C14 C15 C16 C17 C18 C19 C20}
export ICV_REPO=$repo
here=$(cd "$(dirname "$0")/.." && pwd)
cd $here
./setup.sh > /dev/null 2>&1
echo "unchanged: $(for p in $checks; do ./check $p 2>&1 | grep -q '^VIOLATION' && printf '%s ' $p; done)"
i=0
for d in seeded/*/; do
  name=$(basename $d)
  i=$((i + 1))
  # MATRIX_PART=k/n: only every n-th change, starting with the k-th (several runs side by side)
  if [ -n "$MATRIX_PART" ] && [ $(( i % ${MATRIX_PART#*/} )) -ne $(( ${MATRIX_PART%/*} % ${MATRIX_PART#*/} )) ]; then continue; fi
  if ! (cd $repo && git apply $here/$d/patch.diff); then echo "$name: patch does not apply"; continue; fi
  row=""
  for p in $checks; do
    out=$(./check $p 2>&1 | grep '^VIOLATION')
    if [ -n "$out" ]; then
      if echo "$out" | grep -qv 'no-failing-input-found'; then row="$row $p"; else row="$row $p~"; fi
    fi
  done
  echo "$name:$row"
  (cd $repo && git checkout -- .)
done
