#!/bin/bash
# usage: coqgoal.sh File.v LINE  -- prints the goal just before LINE (1-based) of File.v
f=$1; n=$2
tmp=$(mktemp -d /verif/.work.goal.XXXX)
base=$(basename $f .v)
head -n $((n-1)) $f > $tmp/G_$base.v
echo "Show. Abort." >> $tmp/G_$base.v
(cd /verif/coq && timeout 120 coqc -Q . ICV $tmp/G_$base.v 2>&1 | tail -${3:-40})
rm -rf $tmp
