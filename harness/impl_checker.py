"""Implementation side for rendered checker-cluster cases (runs real icontract from PYTHONPATH)."""
import importlib.util
import json
import os
import sys
import warnings

sys.path.insert(0, os.path.dirname(os.path.abspath(__file__)))
warnings.simplefilter("ignore")

import render_checker  # noqa: E402
import world  # noqa: E402


def main():
    payload = json.load(sys.stdin)
    cases = payload["cases"]
    if payload.get("explicit_enabled"):
        render_checker.ENABLED_SUFFIX = ", enabled=True"
    src = render_checker.render_module(cases)
    path = os.path.join(os.getcwd(), "icv_cases_%d.py" % os.getpid())
    with open(path, "w") as fh:
        fh.write(src)
    spec = importlib.util.spec_from_file_location("icv_cases_%d" % os.getpid(), path)
    mod = importlib.util.module_from_spec(spec)
    sys.modules[spec.name] = mod
    spec.loader.exec_module(mod)
    out = []
    for i, case in enumerate(cases):
        W = world.World(case["user"], case.get("store", {}))
        try:
            obs = getattr(mod, "case_%d" % i)(W)
        except BaseException as err:  # definition-time failure
            obs = {"defn_error": type(err).__name__, "msg": str(err)[:300]}
        out.append(obs)
    if not payload.get("keep"):
        os.remove(path)
    json.dump(out, sys.stdout)


if __name__ == "__main__":
    main()
