#!/usr/bin/env python3
"""Developer tool (never run by the checks): rewrite the pinned wrapper skeletons in
coq/Proofs/SkelPin*.v from the current coq/Gen/Generated.v.  To be used only after reviewing that the
hand-written models (Model/Checker.v, Model/Run.v) mirror the new wrapper code."""
import os
import re

HERE = os.path.dirname(os.path.abspath(__file__))
COQ = os.path.join(HERE, "..", "coq")
g = open(os.path.join(COQ, "Gen", "Generated.v")).read()
defs = dict(re.findall(r"Definition (skel\w+) : list string := (\[.*?\n\])\.", g, flags=re.S))
HEADER = '''(** The statement skeletons of the run-time wrappers against which the hand-written model
    (Model/Checker.v, Model/Run.v) was written, pinned: a change of the wrappers in /repo breaks a
    lemma here; that is not by itself a violation - it makes the checks search for a failing input.
    (regenerate with harness/repin.py after reviewing the model against the new code) *)
From ICV Require Import Base Generated.
Open Scope string_scope.
Open Scope list_scope.

'''
FILES = {
    "SkelPinChecker.v": [("pinned_checker", "skel_checker_sync"),
                         ("pinned_assert_preconditions", "skel_assert_preconditions_sync"),
                         ("pinned_capture_old", "skel_capture_old_sync"),
                         ("pinned_assert_postconditions", "skel_assert_postconditions_sync")],
    "SkelPinInv.v": [("pinned_init_wrapper", "skel_init_wrapper"), ("pinned_invariant", "skel_invariant_sync"),
                     ("pinned_new_wrapper", "skel_new_wrapper")],
}
for fn, pins in FILES.items():
    out = [HEADER]
    for pin, src in pins:
        out.append("Definition %s : list string := %s.\n" % (pin, defs[src]))
    for pin, src in pins:
        out.append("Lemma %s_ok : %s = %s.\nProof. vm_compute. reflexivity. Qed.\n" % (pin, src, pin))
    with open(os.path.join(COQ, "Proofs", fn), "w") as fh:
        fh.write("\n".join(out))
    print("wrote", fn)
