#!/usr/bin/env python3
"""Developer tool (never run by the checks): rewrite the pinned wrapper skeletons in
coq/Proofs/SkelPin*.v from the current coq/Gen/Generated.v.  To be used only after reviewing that the
hand-written models (Model/Checker.v, Model/Run.v) mirror the new wrapper code."""
import os
import re

HERE = os.path.dirname(os.path.abspath(__file__))
COQ = os.path.join(HERE, "..", "coq")
g = open(os.path.join(COQ, "Gen", "Generated.v")).read()
defs = dict(re.findall(r"Definition ((?:skel|src_)\w+) : list string := (\[.*?\n\])\.", g, flags=re.S))
HEADER = '''(** The source text against which the hand-written models were written, pinned (SkelPin*: the
    statement skeletons of the run-time wrappers; SrcPin*: every statement of the package, normalised by
    unparsing): a change in /repo breaks a lemma here; that is not by itself a violation - it makes the
    checks search for a failing input.
    (regenerate with harness/repin.py after reviewing the model against the new code) *)
From ICV Require Import Base Generated.
Open Scope string_scope.
Open Scope list_scope.

'''
FILES = {
    "SkelPinChecker.v": [("pinned_checker", "skel_checker_sync"),
                         ("pinned_assert_preconditions", "skel_assert_preconditions_sync"),
                         ("pinned_capture_old", "skel_capture_old_sync"),
                         ("pinned_assert_postconditions", "skel_assert_postconditions_sync")],
    "SkelPinInv.v": [("pinned_init_wrapper", "skel_init_wrapper"), ("pinned_invariant", "skel_invariant_sync"),
                     ("pinned_new_wrapper", "skel_new_wrapper")],
    # the whole source, statement by statement: what the hand-written models were written against
    "SrcPinCheckers.v": [("pinned_src_checkers", "src_checkers")],
    "SrcPinElab.v": [("pinned_src_checkers_elab", "src_checkers_elab"), ("pinned_src_metaclass", "src_metaclass"),
                     ("pinned_src_decorators", "src_decorators"), ("pinned_src_types", "src_types")],
    "SrcPinExpr.v": [("pinned_src_recompute", "src_recompute"), ("pinned_src_represent", "src_represent")],
    "SrcPinGlobals.v": [("pinned_src_globals", "src_globals"), ("pinned_src_errors", "src_errors"),
                        ("pinned_src_init", "src_init")],
}
for fn, pins in FILES.items():
    out = [HEADER]
    for pin, src in pins:
        out.append("Definition %s : list string := %s.\n" % (pin, defs[src]))
    for pin, src in pins:
        out.append("Lemma %s_ok : %s = %s.\nProof. vm_compute. reflexivity. Qed.\n" % (pin, src, pin))
    with open(os.path.join(COQ, "Proofs", fn), "w") as fh:
        fh.write("\n".join(out))
    print("wrote", fn)
