"""C10 - contracts calling contracted code terminate; only own re-entry goes unchecked."""
import gen_run as G
import run_cluster as K

PROP = "C10"
CONE = K.MODEL_FILES + ["Gen/Generated.v", "Proofs/SkelPinChecker.v", "Proofs/SkelPinInv.v", "Proofs/RunProofs.v",
                        "Proofs/RunRefine.v", "Proofs/RunTerminates.v", "Props/C10.v"]
RULE = ("programs of 1-3 contracted functions and 0-2 classes (1-2 instances each, invariants, 1-2 public methods); "
        "every condition, capture, invariant and constructor calls 0-2 arbitrary targets (functions, methods of any "
        "instance), bodies call down a ranking; 2-4 top-level operations after constructing the instances; sync and "
        "async programs; seeded. evaluations = top-level operations; distinct = distinct (trace, outcome) with > 2 "
        "pieces of user code run.")


def gen(rng, n):
    out = []
    for i in range(n):
        g = G.GenRun(rng, is_async=(i % 4 == 3), faults=0.0, awaits=0.3, new_style=0.25)
        c = g.case()
        while not G.small_enough(c):
            c = g.case()
        out.append(c)
    return out


def run(tier, replay=None):
    return K.run(PROP, tier, CONE, "Props/C10.v", "spec_C10", gen, 1500, 20000, RULE, replay=replay)
