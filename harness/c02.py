"""C02 - postconditions gate every normal return; results and exceptions pass unchanged."""
import checker_cluster as K
import gen_checker as G

PROP = "C02"
CONE = K.MODEL_FILES + ["Gen/Generated.v", "Proofs/SkelPinChecker.v", "Proofs/CheckerFrame.v", "Proofs/CheckerProps.v", "Props/C02.v"]
RULE = ("as C01, with bodies returning identity-tagged objects, None, 0 or raising exceptions of five classes "
        "(Exception, BaseException-only, KeyboardInterrupt, GeneratorExit, CancelledError); postconditions see "
        "result / OLD / the post-body store; seeded.")


def run(tier, replay=None):
    return K.run(PROP, tier, CONE, "Props/C02.v", ["spec_C02"], lambda rng, n: G.gen_many(rng, n),
                 1400, 30000, RULE, replay=replay)
