"""C02 - postconditions gate every normal return; results and exceptions pass unchanged."""
import checker_cluster as K
import elab_cluster as E
import gen_checker as G
import gen_run
import run_cluster as R

PROP = "C02"
CONE = sorted(set(K.MODEL_FILES + E.MODEL_FILES + R.MODEL_FILES + ["Gen/Generated.v", "Proofs/SkelPinChecker.v", "Proofs/CheckerFrame.v", "Proofs/CheckerProps.v", "Proofs/CheckerAfter.v", "Proofs/ElabRefine.v", "Props/C02.v"]))
RULE_E = ("histories of definitions as for C04 (functions with decorator stacks incl. foreign functools.wraps decorators, "
          "DBC hierarchies with overriding members): the lists carried by the wrapper whose code evaluates the contracts - not the "
          "one find_checker hands out - are the declared effective contracts (spec_C04).")
RULE = ("as C01, with bodies returning identity-tagged objects, None, 0 or raising exceptions of five classes "
        "(Exception, BaseException-only, KeyboardInterrupt, GeneratorExit, CancelledError); postconditions see "
        "result / OLD / the post-body store; seeded.")


RULE_R = ("programs of contracted functions and classes with invariants whose conditions, captures, bodies and methods call "
          "each other, half of them coroutine functions / async methods driven by hand, user exceptions and cancellation "
          "injected at await points (the generator of C11): every operation shows exactly the contract evaluations the "
          "stack rule prescribes - nested and recursive calls are checked, an earlier outcome never switches checking off "
          "(spec_C11).")


def gen_run_cases(rng, n):
    cases = []
    for i in range(n):
        g = gen_run.GenRun(rng, is_async=(i % 2 == 1), faults=0.1, awaits=0.5, new_style=0.25)
        c = g.case()
        if gen_run.small_enough(c):
            cases.append(c)
    return cases


def run(tier, replay=None):
    out, build, problems = K.begin(PROP, tier, CONE, "Props/C02.v")
    rp = __import__("json").load(open(replay)).get("case", {}) if replay else {}
    is_run_replay = "prog" in rp
    is_elab_replay = "ops" in rp and not is_run_replay
    if not replay or is_run_replay:
        R.run_into(out, build, problems, PROP, tier, "spec_C11", gen_run_cases, 500, 12000, RULE_R, replay=replay)
    if not replay or not (is_elab_replay or is_run_replay):
        K.run_into(out, build, problems, PROP, tier, ["spec_C02"], lambda rng, n: G.gen_many(rng, n), 1400, 30000, RULE,
                   replay=replay)
    if not replay or is_elab_replay:
        E.run(out, build, problems, PROP, tier, ["spec_C04"], E.default_gen, 600, 12000, RULE_E, replay=replay,
              known={"spec_C04": "kf_C04_accept_all"})
    return out.finish()
