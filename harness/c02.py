"""C02 - postconditions gate every normal return; results and exceptions pass unchanged."""
import checker_cluster as K
import elab_cluster as E
import gen_checker as G

PROP = "C02"
CONE = sorted(set(K.MODEL_FILES + E.MODEL_FILES + ["Gen/Generated.v", "Proofs/SkelPinChecker.v", "Proofs/CheckerFrame.v", "Proofs/CheckerProps.v", "Props/C02.v"]))
RULE_E = ("histories of definitions as for C04 (functions with decorator stacks incl. foreign functools.wraps decorators, "
          "DBC hierarchies with overriding members): the lists carried by the wrapper whose code evaluates the contracts - not the "
          "one find_checker hands out - are the declared effective contracts (spec_C04).")
RULE = ("as C01, with bodies returning identity-tagged objects, None, 0 or raising exceptions of five classes "
        "(Exception, BaseException-only, KeyboardInterrupt, GeneratorExit, CancelledError); postconditions see "
        "result / OLD / the post-body store; seeded.")


def run(tier, replay=None):
    out, build, problems = K.begin(PROP, tier, CONE, "Props/C02.v")
    is_elab_replay = bool(replay) and "ops" in __import__("json").load(open(replay)).get("case", {})
    if not replay or not is_elab_replay:
        K.run_into(out, build, problems, PROP, tier, ["spec_C02"], lambda rng, n: G.gen_many(rng, n), 1400, 30000, RULE,
                   replay=replay)
    if not replay or is_elab_replay:
        E.run(out, build, problems, PROP, tier, ["spec_C04"], E.default_gen, 300, 8000, RULE_E, replay=replay,
              known={"spec_C04": "kf_C04_accept_all"})
    return out.finish()
