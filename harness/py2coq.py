#!/usr/bin/env python3
"""Translator (T): regenerate coq/Gen/Generated.v from /repo's current working tree.

Fail-closed: every construct outside the accepted shapes raises Unsupported and no file is
written (the caller reports this as a proof obligation that no longer checks).

Accepted shapes for *leaf functions* (pure: no user code, no try/finally, no await):
  statements  docstring | x = e | x[k] = e | x.append(e) | x.extend(e) | x.add(e) | pass
              | if/elif/else | for t in it (targets: name or flat tuple) | return e | return
              | raise X(...) | assert (recorded, must be effect free)
              | statements that only build the text of an exception message are dropped
                ("ghost" variables: only used inside raise expressions or mutated by append)
  expressions names, str/int/None/True/False, {..} with string keys, [], [a, b], dict(), set(),
              len(e), enumerate(e), e.items(), e.copy(), hasattr(e, "a"), getattr(e, "a"),
              e.attr, e[k], a + b, not e, a and b, a or b, single comparisons
              (<, ==, !=, in, not in, is None, is not None), [e for t in it if c],
              {k: v for t in it if c}, X(...) for exception classes in a return
Python values live in the universal Gallina type [pv] (Model/Base.v); a function becomes
[pv -> ... -> res pv] where [Err "X"] stands for ``raise X(...)``.

Besides the leaf functions the translator emits *facts* read off the AST (operator tables of the
re-evaluator, decorator defaults, the SLOW expression, exemption tuples, skeletons of the run-time
wrappers); the hand-written model states lemmas against them.
"""
import ast
import os
import sys
import textwrap

REPO = os.environ.get("ICV_REPO", "/repo")


class Unsupported(Exception):
    pass


COQ_KEYWORDS = {"in", "at", "as", "fun", "let", "match", "end", "with", "if", "then", "else", "fix",
                "forall", "exists", "Type", "Prop", "Set", "return", "using", "where", "for", "type"}
EXC_CLASSES = {"TypeError", "ValueError", "NotImplementedError", "AssertionError", "KeyError",
               "RuntimeError", "AttributeError", "SyntaxError"}


def cq(name: str) -> str:
    if name in COQ_KEYWORDS or name.startswith("_"):
        return "v_" + name.lstrip("_") + "_"
    return name


def cstr(s: str) -> str:
    if '"' in s or "\n" in s or "\\" in s:
        raise Unsupported("string constant with quote/newline: %r" % s)
    return '"%s"' % s


class FuncTr:
    def __init__(self, fn: ast.FunctionDef, src: str):
        self.fn = fn
        self.src = src
        self.asserts = []
        self.ghosts = self._find_ghosts()

    # ---------- ghost (message-only) variables
    def _find_ghosts(self):
        loads = {}
        for node in ast.walk(self.fn):
            for child in ast.iter_child_nodes(node):
                child._parent = node  # type: ignore
        def in_raise(n):
            while n is not None and n is not self.fn:
                if isinstance(n, ast.Raise):
                    return True
                n = getattr(n, "_parent", None)
            return False
        def is_self_mutation(n):
            # n is Name load used as receiver of n.append(...) expression statement
            p = getattr(n, "_parent", None)
            if isinstance(p, ast.Attribute) and p.attr in ("append", "extend") and p.value is n:
                pp = getattr(p, "_parent", None)
                if isinstance(pp, ast.Call) and pp.func is p:
                    ppp = getattr(pp, "_parent", None)
                    return isinstance(ppp, ast.Expr)
            return False
        params = {a.arg for a in self.fn.args.args + self.fn.args.kwonlyargs}
        cand = {}
        for node in ast.walk(self.fn):
            if isinstance(node, ast.Name) and isinstance(node.ctx, ast.Load):
                ok = in_raise(node) or is_self_mutation(node)
                cand[node.id] = cand.get(node.id, True) and ok
        return {n for n, ok in cand.items() if ok and n not in params and n not in EXC_CLASSES
                and n not in ("len", "enumerate", "hasattr", "getattr", "dict", "set", "list")}

    def _droppable(self, st) -> bool:
        if isinstance(st, ast.Assign) and len(st.targets) == 1 and isinstance(st.targets[0], ast.Name) \
                and st.targets[0].id in self.ghosts:
            return True
        if isinstance(st, ast.Expr) and isinstance(st.value, ast.Call) and isinstance(st.value.func, ast.Attribute) \
                and isinstance(st.value.func.value, ast.Name) and st.value.func.value.id in self.ghosts:
            return True
        if isinstance(st, ast.If) and all(self._droppable(s) for s in st.body) \
                and all(self._droppable(s) for s in st.orelse):
            self._pure(st.test)
            return True
        return False

    def _pure(self, e):
        """A dropped test must still be an accepted (hence effect-free) expression."""
        self.expr(e)

    # ---------- expressions -> Coq term of type pv
    def expr(self, e) -> str:
        if isinstance(e, ast.Name):
            if e.id in self.ghosts:
                raise Unsupported("ghost variable %s used as a value" % e.id)
            return cq(e.id)
        if isinstance(e, ast.Constant):
            v = e.value
            if v is None:
                return "PNone"
            if v is True:
                return "(PBool true)"
            if v is False:
                return "(PBool false)"
            if isinstance(v, int):
                return "(PInt %d)" % v if v >= 0 else "(PInt (%d))" % v
            if isinstance(v, str):
                return "(PStr %s)" % cstr(v)
            raise Unsupported("constant %r" % (v,))
        if isinstance(e, ast.Dict):
            items = []
            for k, v in zip(e.keys, e.values):
                if not (isinstance(k, ast.Constant) and isinstance(k.value, str)):
                    raise Unsupported("dict literal with non-string key")
                items.append("(%s, %s)" % (cstr(k.value), self.expr(v)))
            return "(PDict [%s])" % "; ".join(items)
        if isinstance(e, ast.List):
            return "(PList [%s])" % "; ".join(self.expr(x) for x in e.elts)
        if isinstance(e, ast.Tuple):
            return "(PTuple [%s])" % "; ".join(self.expr(x) for x in e.elts)
        if isinstance(e, ast.Attribute):
            return "(py_attr %s %s)" % (self.expr(e.value), cstr(e.attr))
        if isinstance(e, ast.Subscript):
            sl = e.slice
            if isinstance(sl, ast.Slice):
                raise Unsupported("slice")
            return "(py_getitem %s %s)" % (self.expr(e.value), self.expr(sl))
        if isinstance(e, ast.BinOp):
            if isinstance(e.op, ast.Add):
                return "(py_add %s %s)" % (self.expr(e.left), self.expr(e.right))
            raise Unsupported("binop %s" % type(e.op).__name__)
        if isinstance(e, ast.UnaryOp):
            if isinstance(e.op, ast.Not):
                return "(py_not %s)" % self.expr(e.operand)
            raise Unsupported("unaryop")
        if isinstance(e, ast.BoolOp):
            op = "py_and" if isinstance(e.op, ast.And) else "py_or"
            t = self.expr(e.values[-1])
            for v in reversed(e.values[:-1]):
                t = "(%s %s %s)" % (op, self.expr(v), t)
            return t
        if isinstance(e, ast.Compare):
            if len(e.ops) != 1:
                raise Unsupported("comparison chain")
            op, l, r = e.ops[0], e.left, e.comparators[0]
            if isinstance(op, (ast.Is, ast.IsNot)) and not (isinstance(r, ast.Constant) and r.value is None):
                # identity of two objects: records carry their identity, so structural equality decides it
                t = "(py_eq %s %s)" % (self.expr(l), self.expr(r))
                return t if isinstance(op, ast.Is) else "(py_not %s)" % t
            if isinstance(op, (ast.Is, ast.IsNot)):
                return "(%s %s)" % ("py_is_none" if isinstance(op, ast.Is) else "py_is_not_none", self.expr(l))
            table = {ast.Lt: "py_lt", ast.Eq: "py_eq", ast.NotEq: "py_ne", ast.In: "py_in", ast.NotIn: "py_not_in"}
            for k, f in table.items():
                if isinstance(op, k):
                    return "(%s %s %s)" % (f, self.expr(l), self.expr(r))
            raise Unsupported("comparison %s" % type(op).__name__)
        if isinstance(e, ast.Call):
            return self.call(e)
        if isinstance(e, ast.ListComp):
            return "(PList %s)" % self.comp(e.generators, self.expr_in_comp(e, lambda: self.expr(e.elt)))
        if isinstance(e, ast.DictComp):
            return "(py_dict_of_pairs %s)" % self.comp(
                e.generators, self.expr_in_comp(e, lambda: "(PTuple [%s; %s])" % (self.expr(e.key), self.expr(e.value))))
        raise Unsupported("expression %s at line %d" % (type(e).__name__, getattr(e, "lineno", -1)))

    def expr_in_comp(self, e, thunk):
        return thunk

    def bind_target(self, target, var: str) -> str:
        """Coq text binding the names of a loop target from the Coq variable [var]; ends with ' in '-chains."""
        if isinstance(target, ast.Name):
            return "let %s := %s in " % (cq(target.id), var)
        if isinstance(target, ast.Tuple) and all(isinstance(t, ast.Name) for t in target.elts):
            return "".join("let %s := py_getitem %s (PInt %d) in " % (cq(t.id), var, i)
                           for i, t in enumerate(target.elts))
        raise Unsupported("loop target")

    def comp(self, generators, elt_thunk) -> str:
        if len(generators) != 1 or generators[0].is_async:
            raise Unsupported("comprehension with several generators")
        g = generators[0]
        cond = "true"
        if g.ifs:
            cond = " && ".join("py_truth %s" % self.expr(c) for c in g.ifs)
        return "(filter_map_pv (fun x_ => %sif %s then Some %s else None) (py_iter %s))" % (
            self.bind_target(g.target, "x_"), cond, elt_thunk(), self.expr(g.iter))

    def call(self, e: ast.Call) -> str:
        f = e.func
        if e.keywords:
            raise Unsupported("keyword arguments in a call inside a leaf function")
        args = e.args
        if isinstance(f, ast.Name):
            if f.id == "len" and len(args) == 1:
                return "(py_len %s)" % self.expr(args[0])
            if f.id == "enumerate" and len(args) == 1:
                return "(py_enumerate %s)" % self.expr(args[0])
            if f.id == "dict" and not args:
                return "(PDict [])"
            if f.id in ("set", "list") and not args:
                return "(PList [])"
            if f.id == "list" and len(args) == 1:
                # a new list with the items of the iterable (values are immutable here: a copy is the same value)
                return "(PList (py_iter %s))" % self.expr(args[0])
            if f.id == "hasattr" and len(args) == 2 and isinstance(args[1], ast.Constant):
                return "(py_hasattr %s %s)" % (self.expr(args[0]), cstr(args[1].value))
            if f.id == "getattr" and len(args) == 2 and isinstance(args[1], ast.Constant):
                return "(py_attr %s %s)" % (self.expr(args[0]), cstr(args[1].value))
            if f.id in EXC_CLASSES:
                return "(PExn %s)" % cstr(f.id)
            if f.id in ("any", "all") and len(args) == 1 and isinstance(args[0], ast.GeneratorExp):
                g = args[0]
                if len(g.generators) != 1 or g.generators[0].is_async:
                    raise Unsupported("any/all over several generators")
                gen = g.generators[0]
                cond = " && ".join(["py_truth %s" % self.expr(c) for c in gen.ifs] + ["py_truth %s" % self.expr(g.elt)])
                if f.id == "any":
                    return "(PBool (existsb (fun x_ => %s%s) (py_iter %s)))" % (
                        self.bind_target(gen.target, "x_"), cond, self.expr(gen.iter))
                if gen.ifs:
                    raise Unsupported("all with a filter")
                return "(PBool (forallb (fun x_ => %s%s) (py_iter %s)))" % (
                    self.bind_target(gen.target, "x_"), cond, self.expr(gen.iter))
            raise Unsupported("call of %s" % f.id)
        if isinstance(f, ast.Attribute):
            if f.attr == "items" and not args:
                return "(py_items %s)" % self.expr(f.value)
            if f.attr == "copy" and not args:
                return self.expr(f.value)
            if f.attr == "format":
                raise Unsupported("str.format outside an exception message")
        raise Unsupported("call at line %d" % e.lineno)

    # ---------- statements -> Coq term of type res pv
    def mutated(self, stmts):
        out = []
        def add(n):
            if n not in out and n not in self.ghosts:
                out.append(n)
        for st in stmts:
            for node in ast.walk(st):
                if isinstance(node, ast.Assign):
                    for t in node.targets:
                        if isinstance(t, ast.Name):
                            add(t.id)
                        elif isinstance(t, ast.Subscript) and isinstance(t.value, ast.Name):
                            add(t.value.id)
                        else:
                            raise Unsupported("assignment target")
                elif isinstance(node, ast.Expr) and isinstance(node.value, ast.Call) \
                        and isinstance(node.value.func, ast.Attribute) \
                        and node.value.func.attr in ("append", "extend", "add") \
                        and isinstance(node.value.func.value, ast.Name):
                    add(node.value.func.value.id)
                elif isinstance(node, (ast.AugAssign, ast.Delete, ast.Global, ast.Nonlocal)):
                    raise Unsupported(type(node).__name__)
        return out

    def block(self, stmts, k: str) -> str:
        """Translate a statement list followed by continuation text k (a Coq term of type res S)."""
        if not stmts:
            return k
        st, rest = stmts[0], stmts[1:]
        if self._droppable(st):
            return self.block(rest, k)
        if isinstance(st, ast.Expr) and isinstance(st.value, ast.Constant) and isinstance(st.value.value, str):
            return self.block(rest, k)  # docstring
        if isinstance(st, ast.Pass):
            return self.block(rest, k)
        if isinstance(st, ast.Assert):
            self._pure(st.test)
            self.asserts.append(st.lineno)
            return self.block(rest, k)
        if isinstance(st, ast.Assign):
            if len(st.targets) != 1:
                raise Unsupported("multiple assignment")
            t = st.targets[0]
            if isinstance(t, ast.Name):
                return "let %s := %s in\n%s" % (cq(t.id), self.expr(st.value), self.block(rest, k))
            if isinstance(t, ast.Subscript) and isinstance(t.value, ast.Name):
                n = cq(t.value.id)
                return "let %s := py_setitem %s %s %s in\n%s" % (
                    n, n, self.expr(t.slice), self.expr(st.value), self.block(rest, k))
            raise Unsupported("assignment target")
        if isinstance(st, ast.Expr) and isinstance(st.value, ast.Call) and isinstance(st.value.func, ast.Attribute) \
                and isinstance(st.value.func.value, ast.Name) and st.value.func.attr in ("append", "extend", "add") \
                and len(st.value.args) == 1 and not st.value.keywords:
            n = cq(st.value.func.value.id)
            op = {"append": "py_append", "extend": "py_extend", "add": "py_set_add"}[st.value.func.attr]
            return "let %s := %s %s %s in\n%s" % (n, op, n, self.expr(st.value.args[0]), self.block(rest, k))
        if isinstance(st, ast.Return):
            if rest:
                raise Unsupported("statements after return")
            return "Ok %s" % (self.expr(st.value) if st.value is not None else "PNone")
        if isinstance(st, ast.Raise):
            exc = st.exc
            if isinstance(exc, ast.Call) and isinstance(exc.func, ast.Name) and exc.func.id in EXC_CLASSES:
                return "Err %s" % cstr(exc.func.id)
            raise Unsupported("raise of a non-literal exception")
        if isinstance(st, ast.If):
            kk = self.block(rest, k)
            return "(if py_truth %s then\n%s\nelse\n%s)" % (
                self.expr(st.test), self.block(st.body, kk), self.block(st.orelse, kk))
        if isinstance(st, ast.For):
            if st.orelse:
                raise Unsupported("for-else")
            for node in ast.walk(st):
                if isinstance(node, (ast.Break, ast.Continue)):
                    raise Unsupported("break/continue")
                if isinstance(node, ast.Return):
                    raise Unsupported("return inside a loop")
            m = [cq(x) for x in self.mutated(st.body)]
            if not m:
                pat, tup = "_", "tt"
            elif len(m) == 1:
                pat, tup = m[0], m[0]
            else:
                pat, tup = "'(%s)" % ", ".join(m), "(%s)" % ", ".join(m)
            body = self.block(st.body, "Ok %s" % tup)
            return "st_ <- fold_res (fun %s x_ => %s\n%s) (py_iter %s) %s ;;\nlet %s := st_ in\n%s" % (
                pat, self.bind_target(st.target, "x_"), body, self.expr(st.iter), tup,
                pat if pat != "_" else "_", self.block(rest, k))
        raise Unsupported("statement %s at line %d" % (type(st).__name__, st.lineno))

    def translate(self, coq_name=None) -> str:
        a = self.fn.args
        if a.vararg or a.kwarg or a.kwonlyargs or a.posonlyargs:
            raise Unsupported("signature of %s" % self.fn.name)
        params = [cq(p.arg) for p in a.args]
        body = self.block(self.fn.body, "Ok PNone")
        name = coq_name or cq(self.fn.name).replace("v_", "").rstrip("_")
        return "Definition %s %s : res pv :=\n%s.\n" % (
            name, " ".join("(%s : pv)" % p for p in params), textwrap.indent(body, "  "))


def find_function(tree, name):
    for node in ast.walk(tree):
        if isinstance(node, (ast.FunctionDef, ast.AsyncFunctionDef)) and node.name == name:
            return node
    raise Unsupported("function %s not found" % name)


def parse(path):
    with open(os.path.join(REPO, path)) as fh:
        src = fh.read()
    return ast.parse(src), src


LEAVES = [
    ("icontract/_checkers.py", "kwargs_from_call", "kwargs_from_call"),
    ("icontract/_checkers.py", "select_condition_kwargs", "select_condition_kwargs"),
    ("icontract/_checkers.py", "select_capture_kwargs", "select_capture_kwargs"),
    ("icontract/_checkers.py", "select_error_kwargs", "select_error_kwargs"),
    ("icontract/_checkers.py", "_assert_no_invalid_kwargs", "assert_no_invalid_kwargs"),
    ("icontract/_checkers.py", "_assert_resolved_kwargs_valid", "assert_resolved_kwargs_valid"),
    ("icontract/_metaclass.py", "_collapse_preconditions", "collapse_preconditions"),
    ("icontract/_metaclass.py", "_collapse_snapshots", "collapse_snapshots"),
    ("icontract/_metaclass.py", "_collapse_postconditions", "collapse_postconditions"),
]


def generate() -> str:
    out = ["(* GENERATED by harness/py2coq.py from %s -- do not edit; regenerated on every check. *)" % REPO,
           "From ICV Require Import Base.", "Open Scope string_scope.", "Open Scope bool_scope.", ""]
    trees = {}
    asserts = []
    for path, pyname, coqname in LEAVES:
        if path not in trees:
            trees[path] = parse(path)
        tree, src = trees[path]
        # fail-closed per definition: a function the translator cannot express is left out (with the reason), so
        # that exactly the proofs that depend on it stop checking - not the whole generated file
        try:
            fn = find_function(tree, pyname)
            tr = FuncTr(fn, src)
            text = tr.translate(coqname)
        except Unsupported as err:
            out.append("(* NOT TRANSLATED %s (%s:%s): %s *)" % (coqname, path, pyname, str(err).replace("*)", "* )")))
            SKIPPED.append("%s: %s" % (coqname, err))
            continue
        out.append("(* %s:%d %s *)" % (path, fn.lineno, pyname))
        out.append(text)
        asserts += [(path, ln) for ln in tr.asserts]
    import facts
    out.append(facts.generate(trees, parse, SKIPPED))
    return "\n".join(out)


SKIPPED = []


def main():
    dest = sys.argv[1] if len(sys.argv) > 1 else os.path.join(os.path.dirname(__file__), "..", "coq", "Gen", "Generated.v")
    try:
        text = generate()
    except Unsupported as err:
        print("py2coq: UNSUPPORTED: %s" % err)
        return 2
    except SyntaxError as err:
        print("py2coq: source does not parse: %s" % err)
        return 2
    old = None
    if os.path.exists(dest):
        with open(dest) as fh:
            old = fh.read()
    if old != text:
        os.makedirs(os.path.dirname(os.path.abspath(dest)), exist_ok=True)
        with open(dest, "w") as fh:
            fh.write(text)
        print("py2coq: wrote %s" % dest)
    else:
        print("py2coq: %s up to date" % dest)
    if SKIPPED:
        print("py2coq: NOT TRANSLATED (the proofs that use them will not check): " + "; ".join(SKIPPED))
    return 0


if __name__ == "__main__":
    sys.path.insert(0, os.path.dirname(os.path.abspath(__file__)))
    sys.exit(main())
