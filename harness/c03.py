"""C03 - invariants are checked around every public operation on a constructed object."""
import checker_cluster as K
import ctor_cluster as T
import elab_cluster as E
import gen_checker as G
import gen_run
import run_cluster as R

PROP = "C03"
CONE = sorted(set(K.MODEL_FILES + E.MODEL_FILES + R.MODEL_FILES + T.MODEL_FILES + ["Proofs/CtorProofs.v", "Gen/Generated.v", "Proofs/SkelPinInv.v", "Proofs/CheckerFrame.v", "Proofs/CheckerProps.v", "Proofs/CheckerAfter.v",
                                                     "Proofs/ElabSelect.v", "Props/C03.v"]))
RULE_E = ("member selection: definition histories as for C17 (classes with / without DBC, single and multiple bases, "
          "members f/g/p/__init__/__new__/__setattr__/_priv/__repr__/__eq__ of every kind, invariants with check_on "
          "CALL/SETATTR/ALL in both orders, own and inherited); for every class the wrapped members are compared with "
          "the must-wrap / must-not-wrap rule computed from the declarations.")
RULE_C = ("run time: checker-cluster cases of kinds method (def and async def) / property get,set,del / __init__ with 1-2 invariants "
          "(truth before and after the body independent, raising and non-boolean results, all error forms): "
          "invariants before and after the operation, first falsy one reported, body skipped on a violation before.")


def gen_with_invs(rng, n):
    g = G.Gen(rng)
    kinds = ["method", "prop_get", "prop_set", "prop_del", "init"]
    out = []
    while len(out) < n:
        kind = kinds[len(out) % len(kinds)]
        # async methods too: their wrapper selects the invariants for calls like the one of a plain method
        c = g.case(kind=kind, is_async=(kind == "method" and rng.random() < 0.5))
        if c["invs"]:
            out.append(c)
    return out


RULE_R = ("programs of contracted functions and classes with invariants whose conditions, captures, bodies and methods call "
          "each other, half of them coroutine functions / async methods driven by hand, user exceptions and cancellation "
          "injected at await points (the generator of C11): every operation shows exactly the contract evaluations the "
          "stack rule prescribes - nested and recursive calls are checked, an earlier outcome never switches checking off "
          "(spec_C11).")


def gen_run_cases(rng, n):
    cases = []
    for i in range(n):
        g = gen_run.GenRun(rng, is_async=(i % 2 == 1), faults=0.1, awaits=0.5, new_style=0.25)
        c = g.case()
        if gen_run.small_enough(c):
            cases.append(c)
    return cases


def run(tier, replay=None):
    out, build, problems = K.begin(PROP, tier, CONE, "Props/C03.v")
    rp = __import__("json").load(open(replay)).get("case", {}) if replay else {}
    is_run_replay = "prog" in rp
    is_elab_replay = "ops" in rp and not is_run_replay
    is_ctor_replay = "chain" in rp
    if not replay or is_run_replay:
        R.run_into(out, build, problems, PROP, tier, "spec_C11", gen_run_cases, 500, 12000, RULE_R, replay=replay)
    if not replay or is_ctor_replay:
        T.run_into(out, build, problems, PROP, tier, replay=replay)
    if not replay or not (is_elab_replay or is_ctor_replay or is_run_replay):
        K.run_into(out, build, problems, PROP, tier, ["spec_C16", "spec_C09", "spec_C03_call", "spec_C16_after"], gen_with_invs, 800, 15000, RULE_C, replay=replay)
    if not replay or is_elab_replay:
        E.run(out, build, problems, PROP, tier, ["spec_C03_selection"], E.default_gen, 600, 10000, RULE_E, replay=replay,
              known={"spec_C03_selection": "kf_C03_newstyle"})
    return out.finish()
