"""Facts read off the AST of /repo (part of translator T); emitted into Gen/Generated.v."""
import ast

from py2coq import Unsupported, cstr


def generate(trees, parse) -> str:
    out = []
    return "\n".join(out)
