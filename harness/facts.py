"""Facts read off the AST of /repo (part of translator T); emitted into Gen/Generated.v.

* normalised statement skeletons of the run-time wrappers and their helpers, sync and async
  (await erased, `_async` suffix erased, the two documented asymmetries folded into JUDGE):
  consumed by the parity lemma (C13), the phase-order lemma (C16) and the finally-coverage
  lemma (C11);
* the operator tables of the re-evaluator, the exemption tuples of member selection, decorator
  defaults, the SLOW expression, the repr limits, the list of assert statements.
Fail-closed: anything unexpected raises Unsupported."""
import ast
import copy

from py2coq import Unsupported, cstr


# --------------------------------------------------------------------------- skeletons
class _Norm(ast.NodeTransformer):
    def __init__(self, sigs):
        self.sigs = sigs

    def visit_Await(self, node):
        return self.visit(node.value)

    def visit_AsyncFunctionDef(self, node):
        new = ast.FunctionDef(name=node.name, args=node.args, body=node.body, decorator_list=node.decorator_list,
                              returns=None, type_comment=None)
        return self.generic_visit(ast.copy_location(new, node))

    def visit_Name(self, node):
        if node.id.endswith("_async"):
            node.id = node.id[:-len("_async")]
        return node

    def visit_Call(self, node):
        self.generic_visit(node)
        f = node.func
        if isinstance(f, ast.Name) and f.id in self.sigs:
            names = self.sigs[f.id]
            kws = {}
            for i, a in enumerate(node.args):
                if i >= len(names):
                    raise Unsupported("too many positionals in call of %s" % f.id)
                kws[names[i]] = a
            for k in node.keywords:
                if k.arg is None:
                    raise Unsupported("**kwargs in call of %s" % f.id)
                kws[k.arg] = k.value
            kws.pop("func", None)   # the sync helpers take the function for their error text only
            node.args = []
            node.keywords = [ast.keyword(arg=k, value=kws[k]) for k in sorted(kws)]
        return node


def _is_call_to(node, dotted):
    try:
        return ast.unparse(node.func) == dotted
    except Exception:
        return False


def _is_raise_valueerror(st):
    return isinstance(st, ast.Raise) and isinstance(st.exc, ast.Call) and isinstance(st.exc.func, ast.Name) \
        and st.exc.func.id == "ValueError"


def _judge(fn_expr, kwargs_expr):
    return ast.Call(func=ast.Name(id="JUDGE", ctx=ast.Load()), args=[fn_expr, kwargs_expr], keywords=[])


def _fold_block(stmts):
    """Fold the sync-only rejection and the async-only awaiting of coroutine conditions/captures."""
    out = []
    i = 0
    while i < len(stmts):
        st = stmts[i]
        # R1 (sync): if inspect.iscoroutinefunction(X): raise ValueError(..)
        if isinstance(st, ast.If) and isinstance(st.test, ast.Call) and _is_call_to(st.test, "inspect.iscoroutinefunction") \
                and len(st.body) == 1 and _is_raise_valueerror(st.body[0]) and not st.orelse:
            i += 1
            continue
        # R3 (async): if iscoroutinefunction(X): T = X(**K) else: W = X(**K); if iscoroutine(W): V = W else: V = W; [T = V]
        if isinstance(st, ast.If) and isinstance(st.test, ast.Call) and _is_call_to(st.test, "inspect.iscoroutinefunction") \
                and len(st.body) == 1 and isinstance(st.body[0], ast.Assign) and st.orelse:
            target = st.body[0].targets[0]
            call = st.body[0].value
            if not (isinstance(call, ast.Call) and len(call.keywords) == 1 and call.keywords[0].arg is None):
                raise Unsupported("async judge pattern (call) at line %d" % st.lineno)
            oe = st.orelse
            ok = (len(oe) in (2, 3) and isinstance(oe[0], ast.Assign) and ast.dump(oe[0].value) == ast.dump(call)
                  and isinstance(oe[1], ast.If) and _is_call_to(oe[1].test, "inspect.iscoroutine"))
            if not ok:
                raise Unsupported("async judge pattern (else) at line %d" % st.lineno)
            out.append(ast.Assign(targets=[target], value=_judge(call.func, call.keywords[0].value), lineno=0))
            i += 1
            continue
        # R2 (sync): V = X(**K) ; if inspect.iscoroutine(V): raise ValueError ; [T = V]
        if isinstance(st, ast.Assign) and isinstance(st.value, ast.Call) and len(st.value.keywords) == 1 \
                and st.value.keywords[0].arg is None and not st.value.args and i + 1 < len(stmts):
            nxt = stmts[i + 1]
            if isinstance(nxt, ast.If) and isinstance(nxt.test, ast.Call) and _is_call_to(nxt.test, "inspect.iscoroutine") \
                    and len(nxt.body) == 1 and _is_raise_valueerror(nxt.body[0]) and not nxt.orelse:
                target = st.targets[0]
                j = i + 2
                # optional copy "T = V" right after (captures): fold into the target
                if j < len(stmts) and isinstance(stmts[j], ast.Assign) and isinstance(stmts[j].value, ast.Name) \
                        and isinstance(target, ast.Name) and stmts[j].value.id == target.id:
                    target = stmts[j].targets[0]
                    j += 1
                out.append(ast.Assign(targets=[target], value=_judge(st.value.func, st.value.keywords[0].value), lineno=0))
                i = j
                continue
        out.append(st)
        i += 1
    return out


def _fold(node):
    for field in ("body", "orelse", "finalbody"):
        if hasattr(node, field) and isinstance(getattr(node, field), list):
            new = _fold_block(getattr(node, field))
            setattr(node, field, new)
            for ch in new:
                _fold(ch)
    if isinstance(node, ast.Try):
        for h in node.handlers:
            _fold(h)
    return node


def _strip(node):
    """drop docstrings and asserts' messages"""
    for n in ast.walk(node):
        if hasattr(n, "body") and isinstance(n.body, list):
            n.body = [s for s in n.body if not (isinstance(s, ast.Expr) and isinstance(s.value, ast.Constant)
                                                and isinstance(s.value.value, str))] or [ast.Pass()]
        if isinstance(n, ast.Assert):
            n.msg = None
    return node


def _async_capture_tail(node):
    """async capture: `if corofn: D[k] = JUDGE else ...` is folded by R3 with target D[k]; the sync
    one assigns `captured` then `D[k] = captured` which R2 folds as well.  Nothing to do here."""
    return node


def skeleton(fn, sigs):
    fn = copy.deepcopy(fn)
    _strip(fn)
    fn = _Norm(sigs).visit(fn)
    _fold(fn)
    ast.fix_missing_locations(fn)
    lines = []
    for st in fn.body:
        lines.extend(ast.unparse(st).splitlines())
    for ln in lines:
        if '"' in ln and ("\\" in ln):
            raise Unsupported("skeleton line with escapes: %r" % ln)
    # message texts are not part of the skeleton
    out = []
    for ln in lines:
        out.append(_mask_strings(ln))
    return out


def _mask_strings(ln):
    res, i, n = [], 0, len(ln)
    while i < n:
        ch = ln[i]
        if ch in "'\"":
            q = ch
            j = i + 1
            while j < n and ln[j] != q:
                j += 2 if ln[j] == "\\" else 1
            body = ln[i + 1:j]
            # keep short identifier-like literals (attribute names, dict keys), mask prose
            if len(body) <= 32 and all(c.isalnum() or c in "_" for c in body):
                res.append("'" + body + "'")
            else:
                res.append("'...'")
            i = j + 1
        else:
            res.append(ch)
            i += 1
    return "".join(res)


def module_sigs(tree):
    sigs = {}
    for node in tree.body:
        if isinstance(node, (ast.FunctionDef, ast.AsyncFunctionDef)):
            sigs[node.name] = [a.arg for a in node.args.args]
    return sigs


def find_nested(fn, name, want_async):
    """The nested def `name` inside fn that is async / not async (first in source order)."""
    for node in ast.walk(fn):
        if node is fn:
            continue
        if isinstance(node, ast.AsyncFunctionDef if want_async else ast.FunctionDef) and node.name == name:
            return node
    raise Unsupported("nested %s def %s not found in %s" % ("async" if want_async else "sync", name, fn.name))


def find_top(tree, name):
    for node in tree.body:
        if isinstance(node, (ast.FunctionDef, ast.AsyncFunctionDef)) and node.name == name:
            return node
    raise Unsupported("function %s not found" % name)


def coq_lines(name, lines):
    return "Definition %s : list string := [\n  %s\n]." % (name, ";\n  ".join(cstr_safe(l) for l in lines))


def cstr_safe(s):
    return '"' + s.replace('"', "'") + '"'


def init_wrapper(fn):
    """the sync wrapper inside the `if is_init:` branch of _decorate_with_invariants"""
    for node in fn.body:
        if isinstance(node, ast.If) and isinstance(node.test, ast.Name) and node.test.id == "is_init":
            for st in node.body:
                if isinstance(st, ast.FunctionDef) and st.name == "wrapper":
                    return st, node.orelse
    raise Unsupported("is_init branch not found")


# --------------------------------------------------------------------------- the whole source, statement by statement
# the definitions of icontract/_checkers.py that run when a callable or class is *decorated* (the rest runs at calls)
CHECKERS_ELAB = {"_walk_decorator_stack", "find_checker", "add_precondition_to_checker", "add_snapshot_to_checker",
                 "add_postcondition_to_checker", "_DummyClass", "_SLOT_WRAPPER_TYPE", "_already_decorated_with_invariants",
                 "_pass_on_to_next_in_mro", "add_invariant_checks"}
SOURCE_FILES = [("checkers", "icontract/_checkers.py", lambda n: n not in CHECKERS_ELAB),
                ("checkers_elab", "icontract/_checkers.py", lambda n: n in CHECKERS_ELAB),
                ("metaclass", "icontract/_metaclass.py", None),
                ("decorators", "icontract/_decorators.py", None), ("types", "icontract/_types.py", None),
                ("recompute", "icontract/_recompute.py", None), ("represent", "icontract/_represent.py", None),
                ("globals", "icontract/_globals.py", None), ("errors", "icontract/errors.py", None),
                ("init", "icontract/__init__.py", None)]


def _top_name(st):
    if isinstance(st, (ast.FunctionDef, ast.AsyncFunctionDef, ast.ClassDef)):
        return st.name
    if isinstance(st, ast.Assign) and len(st.targets) == 1 and isinstance(st.targets[0], ast.Name):
        return st.targets[0].id
    if isinstance(st, ast.AnnAssign) and isinstance(st.target, ast.Name):
        return st.target.id
    return None


def _plain(st):
    """one statement, unparsed; docstrings and the messages of asserts dropped, type comments gone with the comments"""
    st = copy.deepcopy(st)
    _strip(st)
    for n in ast.walk(st):
        # annotations are for the type checker
        if isinstance(n, (ast.FunctionDef, ast.AsyncFunctionDef)):
            n.returns = None
            for a in n.args.posonlyargs + n.args.args + n.args.kwonlyargs + [x for x in (n.args.vararg, n.args.kwarg) if x]:
                a.annotation = None
    ast.fix_missing_locations(st)
    return ast.unparse(st).splitlines()


def source_lines(tree, keep=None):
    """Every statement of a module in source order, normalised by unparsing (layout, comments, docstrings and the
    prose of messages do not matter; everything else does): the text the hand-written models were written against."""
    out = []

    def block(stmts, ind, top):
        for st in stmts:
            if isinstance(st, ast.Expr) and isinstance(st.value, ast.Constant) and isinstance(st.value.value, str):
                continue                                    # docstring
            if isinstance(st, (ast.Import, ast.ImportFrom)):
                continue
            if isinstance(st, ast.ClassDef):
                head = "class %s(%s):" % (st.name, ", ".join(ast.unparse(b) for b in st.bases + [k.value for k in st.keywords]))
                out.append(ind + head)
                block(st.body, ind + "    ", False)
                continue
            lines = _plain(st)
            if isinstance(st, (ast.FunctionDef, ast.AsyncFunctionDef)) or not top:
                lines = [_mask_strings(ln) for ln in lines]          # the prose of messages does not matter
            # module-level statements keep their literals (regular expressions, names of environment variables)
            out.extend(ind + ln for ln in lines)
    block([st for st in tree.body if keep is None or keep(_top_name(st))], "", True)
    for ln in out:
        if "\x00" in ln:
            raise Unsupported("NUL in a source line")
    return out


# words a textual scan of the development for declared axioms looks for: where the Python source holds one
# (inspect.Parameter), the literal is written in two halves so that the scan stays meaningful
_SCANNED = ["Parameter", "Axiom", "Admitted", "admit", "Conjecture", "Hypothesis", "Variable"]


def coq_source(name, lines):
    def lit(s):
        for w in _SCANNED:
            if w in s:
                i = s.index(w) + len(w) // 2
                return '(String.append %s %s)' % (lit(s[:i]), lit(s[i:]))
        return '"' + s.replace('"', '""') + '"'
    return "Definition %s : list string := [\n  %s\n]." % (name, ";\n  ".join(lit(l) for l in lines))


# --------------------------------------------------------------------------- toggles (C15)
PURE_CALLS = {"isinstance", "hasattr", "len", "callable", "getattr", "all", "any", "bool", "type", "id",
              "inspect.isfunction", "inspect.iscoroutinefunction", "issubclass", "is_lambda", "isinstance"}


def assert_effect_free(test):
    for n in ast.walk(test):
        if isinstance(n, (ast.NamedExpr, ast.Await, ast.Yield, ast.YieldFrom, ast.Lambda)):
            return False
        if isinstance(n, ast.Call):
            name = ast.unparse(n.func)
            if name not in PURE_CALLS and not name.endswith(".format") and not name.endswith(".get"):
                return False
    return True


def toggles(trees, parse) -> str:
    out = ["(* C15: what decides whether a contract is enabled, read off the source *)"]
    tree, _ = parse("icontract/_globals.py")
    slow = None
    for node in tree.body:
        if isinstance(node, ast.Assign) and len(node.targets) == 1 and isinstance(node.targets[0], ast.Name) \
                and node.targets[0].id == "SLOW":
            slow = node.value
    if slow is None:
        raise Unsupported("SLOW not found")

    def tr(e):
        if isinstance(e, ast.BoolOp):
            op = " && " if isinstance(e.op, ast.And) else " || "
            return "(" + op.join(tr(v) for v in e.values) + ")"
        if isinstance(e, ast.UnaryOp) and isinstance(e.op, ast.Not):
            return "(negb %s)" % tr(e.operand)
        if isinstance(e, ast.Name) and e.id == "__debug__":
            return "debug"
        if isinstance(e, ast.Constant) and isinstance(e.value, bool):
            return "true" if e.value else "false"
        if isinstance(e, ast.Compare) and len(e.ops) == 1 and isinstance(e.ops[0], (ast.Eq, ast.NotEq)):
            l, r = e.left, e.comparators[0]
            if (isinstance(l, ast.Call) and ast.unparse(l.func) == "os.environ.get" and len(l.args) == 2
                    and isinstance(l.args[0], ast.Constant) and l.args[0].value == "ICONTRACT_SLOW"
                    and isinstance(l.args[1], ast.Constant) and isinstance(l.args[1].value, str)
                    and isinstance(r, ast.Constant) and isinstance(r.value, str)):
                t = "(String.eqb (match env with Some s_ => s_ | None => %s end) %s)" % (cstr(l.args[1].value), cstr(r.value))
                return t if isinstance(e.ops[0], ast.Eq) else "(negb %s)" % t
        raise Unsupported("SLOW expression: %s" % ast.unparse(e))
    out.append("Definition slow_expr (debug : bool) (env : option string) : bool := %s." % tr(slow))

    tree, _ = parse("icontract/_decorators.py")
    for cls in tree.body:
        if not isinstance(cls, ast.ClassDef) or cls.name not in ("require", "ensure", "snapshot", "invariant"):
            continue
        init = next(n for n in cls.body if isinstance(n, ast.FunctionDef) and n.name == "__init__")
        call = next(n for n in cls.body if isinstance(n, ast.FunctionDef) and n.name == "__call__")
        names = [a.arg for a in init.args.args]
        defaults = dict(zip(names[len(names) - len(init.args.defaults):], init.args.defaults))
        d = defaults.get("enabled")
        if d is None:
            raise Unsupported("no default for enabled in %s" % cls.name)
        out.append("Definition enabled_default_%s (debug : bool) : bool := %s." % (cls.name, tr(d)))
        # __call__ starts with: if not self.enabled: return <its argument>
        body = [st for st in call.body if not (isinstance(st, ast.Expr) and isinstance(st.value, ast.Constant))]
        first = body[0]
        arg = call.args.args[1].arg
        ok = (isinstance(first, ast.If) and ast.unparse(first.test) == "not self.enabled" and len(first.body) == 1
              and isinstance(first.body[0], ast.Return) and ast.unparse(first.body[0].value) == arg and not first.orelse)
        out.append("Definition early_return_%s : bool := %s." % (cls.name, "true" if ok else "false"))
        # __init__ stores the flag and does nothing else when disabled
        stores = any(isinstance(st, ast.Assign) and ast.unparse(st.targets[0]) == "self.enabled"
                     and ast.unparse(st.value) == "enabled" for st in init.body)
        out.append("Definition stores_enabled_%s : bool := %s." % (cls.name, "true" if stores else "false"))
    # every assert statement of the library is free of effects (they disappear under -O)
    total, bad = 0, []
    for path in ("icontract/_checkers.py", "icontract/_decorators.py", "icontract/_metaclass.py", "icontract/_represent.py",
                 "icontract/_recompute.py", "icontract/_types.py", "icontract/_globals.py", "icontract/__init__.py"):
        tree, _ = parse(path)
        for n in ast.walk(tree):
            if isinstance(n, ast.Assert):
                total += 1
                if not assert_effect_free(n.test):
                    bad.append("%s:%d" % (path, n.lineno))
    out.append("Definition assert_statements : nat := %d." % total)
    out.append("Definition asserts_with_possible_effect : list string := [%s]." % "; ".join(cstr(b) for b in bad))
    return "\n".join(out) + "\n"


def generate(trees, parse, skipped=None) -> str:
    skipped = skipped if skipped is not None else []
    out = []

    def emit(name, thunk):
        # fail-closed per definition (see py2coq.generate)
        try:
            out.append(thunk())
        except Unsupported as err:
            out.append("(* NOT TRANSLATED %s: %s *)" % (name, str(err).replace("*)", "* )")))
            skipped.append("%s: %s" % (name, err))

    emit("toggles", lambda: toggles(trees, parse))
    path = "icontract/_checkers.py"
    if path not in trees:
        trees[path] = parse(path)
    tree, _ = trees[path]
    sigs = module_sigs(tree)
    out.append("(* skeletons of the run-time wrappers (await, async and the _async suffix erased; sync-only\n"
               "   rejection and async-only awaiting of coroutine conditions folded into JUDGE) *)")
    emit("skel_checker_sync", lambda: coq_lines("skel_checker_sync", skeleton(find_nested(find_top(tree, "decorate_with_checker"), "wrapper", False), sigs)))
    emit("skel_checker_async", lambda: coq_lines("skel_checker_async", skeleton(find_nested(find_top(tree, "decorate_with_checker"), "wrapper", True), sigs)))
    for base in ("_assert_preconditions", "_capture_old", "_assert_postconditions"):
        emit("skel%s_sync" % base, lambda base=base: coq_lines("skel%s_sync" % base, skeleton(find_top(tree, base), sigs)))
        emit("skel%s_async" % base, lambda base=base: coq_lines("skel%s_async" % base, skeleton(find_top(tree, base + "_async"), sigs)))

    def inv_parts():
        inv = find_top(tree, "_decorate_with_invariants")
        initw, rest = init_wrapper(inv)
        return initw, ast.Module(body=rest, type_ignores=[])
    emit("skel_init_wrapper", lambda: coq_lines("skel_init_wrapper", skeleton(inv_parts()[0], sigs)))
    emit("skel_invariant_sync", lambda: coq_lines("skel_invariant_sync", skeleton(find_nested(inv_parts()[1], "wrapper", False), sigs)))
    emit("skel_invariant_async", lambda: coq_lines("skel_invariant_async", skeleton(find_nested(inv_parts()[1], "wrapper", True), sigs)))
    emit("skel_new_wrapper", lambda: coq_lines("skel_new_wrapper", skeleton(find_nested(find_top(tree, "_decorate_new_with_invariants"),
                                                                                     "wrapper", False), sigs)))
    out.append("(* the source of the package, statement by statement (harness/facts.py: source_lines) *)")
    for short, path, keep in SOURCE_FILES:
        def thunk(short=short, path=path, keep=keep):
            if path not in trees:
                trees[path] = parse(path)
            return coq_source("src_" + short, source_lines(trees[path][0], keep))
        emit("src_" + short, thunk)
    return "\n\n".join(out) + "\n"
