"""C16 - deterministic evaluation order and first-failure reporting."""
import checker_cluster as K
import elab_cluster as E
import gen_checker as G

PROP = "C16"
CONE = sorted(set(K.MODEL_FILES + E.MODEL_FILES + ["Gen/Generated.v"] + ['Proofs/SkelPinChecker.v', 'Proofs/SkelPinInv.v', 'Proofs/CheckerFrame.v', 'Proofs/CheckerProps.v', 'Proofs/CheckerCount.v', 'Proofs/CheckerAfter.v', 'Proofs/ElabRefine.v', 'Props/C16.v']))
RULE_E = 'histories of 2-6 definitions: module-level functions with stacks of 0-4 decorators (require / ensure / snapshot, enabled or not, foreign functools.wraps decorators, invalid decorators), classes on DBC or not with single or multiple bases, members f/g/p/__init__/__new__/__setattr__/_priv/__repr__ of kinds method, static, class method, property get/set/del, class invariants with check_on CALL/SETATTR/ALL; after each step every earlier function and class is viewed through find_checker and the list attributes (contents and identity of the invariant lists); seeded. distinct = distinct final views.'
RULE_C = 'checker-cluster cases as for C01 (all callable kinds x sync/async, chains of 1-3 classes, faults); seeded.'


def run(tier, replay=None):
    out, build, problems = K.begin(PROP, tier, CONE, "Props/C16.v")
    is_elab_replay = bool(replay) and "ops" in __import__("json").load(open(replay)).get("case", {})
    if not replay or not is_elab_replay:
        K.run_into(out, build, problems, PROP, tier, ['spec_C16', 'spec_C16_after'], lambda rng, n: G.gen_many(rng, n), 1200, 25000, RULE_C,
                   replay=replay)
    if not replay or is_elab_replay:
        E.run(out, build, problems, PROP, tier, ['spec_C04', 'spec_C16_order'], E.default_gen, 500, 10000, RULE_E, replay=replay, known={'spec_C04': 'kf_C04_accept_all'})
    return out.finish()
