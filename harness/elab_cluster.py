"""Shared correspondence for the definition-time properties (C04, C08, C14, C15, C16, C17, C18, C19):
histories of definitions (functions with decorator stacks incl. foreign functools.wraps decorators,
classes with single / multiple inheritance on DBC or not, members of every kind, class invariants with
check_on settings, disabled and invalid decorators); after every step everything defined so far is
inspected through the documented introspection interface.  The model (Model/Elab.v) elaborates the same
history inside Coq; the property's executable statement (Spec/ElabOracle.v, computed from the
*declarations*) is evaluated on the implementation's observation."""
import collections
import glob
import json
import os
import random

import common as C
import gen_elab as G

HEADER = ("From ICV Require Import Base Bind Checker Elab ElabCase ElabOracle.\n"
          "Open Scope string_scope.\nOpen Scope list_scope.\n")
MODEL_FILES = ["Model/Base.v", "Model/Bind.v", "Model/Checker.v", "Model/Elab.v", "Spec/ElabCase.v", "Spec/ElabOracle.v"]

# Coq expressions of type Z over: c (case), h (observed history), wm (the model's final world):
# 0 = holds, 1 = differs only inside a known-finding class, 2 = violated
SPECS = {
    "spec_C17": "(if spec_C17 c wm h then 0%Z else 2%Z)",
    "spec_C04": "(spec_C04_code_h (map fst h) c wm (snd (last h (None, empty_view))))",
    "spec_C14_stacks": "(if spec_C14_stacks c h then 0%Z else 2%Z)",
    "spec_C19_defs": "(spec_C19_defs_code c h)",
    "spec_C03_selection": "(spec_C03_selection_code c wm h)",
    "spec_C18_registered": "(if spec_C18_registered c wm h then 0%Z else 2%Z)",
    "spec_C18_introspection": "(if spec_C18_introspection h then 0%Z else 2%Z)",
    "spec_C18_invlists": "(if spec_C18_invlists c wm h then 0%Z else 2%Z)",
    "spec_C14_kinds": "(if spec_C14_kinds c wm h then 0%Z else 2%Z)",
    "spec_C16_order": "(if spec_C16_order (map fst h) c wm (snd (last h (None, empty_view))) then 0%Z else 2%Z)",
    # the hypothesis of the frame theorem for class statements, on the model's final world
    "own_lists_everywhere": "(if own_lists_everywhere wm then 0%Z else 2%Z)",
}


MODEL_WORLD_ONLY = {"own_lists_everywhere"}


def load_corpus(prop):
    out = []
    for path in sorted(glob.glob(os.path.join(C.VERIF, "corpus", prop, "elab-*.json"))):
        with open(path) as fh:
            out.append(json.load(fh)["case"])
    return out


def observe(cases, chunk=100):
    payloads = [{"cases": cases[i:i + chunk]} for i in range(0, len(cases), chunk)]
    obs = []
    for r in C.run_impl_parallel("impl_elab.py", payloads):
        obs.extend(r)
    return obs


def source_of(case):
    parts = []
    ncls = 0
    for j, op in enumerate(case["ops"]):
        parts.append("# --- definition %d" % j)
        parts.append(G.py_op(ncls if op["op"] == "class" else j, op, ["K%d" % i for i in range(ncls)]))
        if op["op"] == "class":
            ncls += 1
    return "\n".join(parts)


# a second known-finding class of a spec (code 3)
SECOND_CLASS = {"spec_C04": "kf_C04_accessor_gap", "spec_C19_defs": "kf_C04_accessor_gap"}
# a third one (code 4)
THIRD_CLASS = {"spec_C04": "kf_C04_copy_shadows"}
# a fourth one (code 5)
FOURTH_CLASS = {"spec_C04": "kf_C04_hidden_definer", "spec_C19_defs": "kf_C04_hidden_definer"}


def run(out, build, problems, prop, tier, specs, gen_cases, nquick, nthorough, rule, replay=None, known=None):
    """Adds what it finds to the Outcome `out`; `known` maps a spec name to the known-finding id
    reported when that spec returns 1."""
    rng = random.Random(C.seed() * 48611 + sum(map(ord, prop)))
    if not build.ok_for(MODEL_FILES):
        out.violation("the executable model does not build: " + "; ".join(problems),
                      {"problems": problems, "log": build.log[-3000:]}, found_input=False)
        return
    if replay:
        with open(replay) as fh:
            cases = [json.load(fh)["case"]]
        ncorpus = 0
    else:
        corpus = load_corpus(prop)
        ncorpus = len(corpus)
        cases = corpus + gen_cases(rng, nquick if tier == "quick" else nthorough)
    obs = observe(cases)
    live = [(c, o) for c, o in zip(cases, obs) if not isinstance(o, dict)]
    broken = [(c, o) for c, o in zip(cases, obs) if isinstance(o, dict)]
    terms = []
    for c, o in live:
        # on the observed history the oracles read liveness / resolution orders / metaclass from the world the
        # *observed* outcomes give (wi); on the model's own history from the model's world (wm)
        impl = " ; ".join(SPECS[s] if s in MODEL_WORLD_ONLY else SPECS[s].replace(" wm ", " wi ").replace(" wm)", " wi)")
                          for s in specs)
        mod = " ; ".join(SPECS[s].replace(" h)", " mh)").replace(" h ", " mh ") for s in specs)
        terms.append("(let c := %s in let h := %s in let mh := run_ecase c in "
                     "let wm := fst (run_defs empty_world (e_ops c)) in "
                     "let wi := skeleton_world (e_ops c) (map fst h) in "
                     "[if history_eqb mh h then 0%%Z else 1%%Z ; %s ; %s])" % (G.cq_case(c), G.cq_history(o), impl, mod))
    codes = C.coq_eval_lists(HEADER, terms, name="elab", chunk=40)
    ns = len(specs)
    disagreements, spec_fail, model_fail = [], [], []
    known_hits = collections.Counter()
    errs = collections.Counter()
    shapes = collections.Counter()
    distinct = set()
    for (c, o), code in zip(live, codes):
        for st, op in zip(o, c["ops"]):
            errs[str(st["error"])] += 1
            shapes[op["op"] + ("/multi" if op["op"] == "class" and len(op["bases"]) > 1 else "")
                   + ("/dbc" if op.get("dbc") else "")] += 1
        final = o[-1]
        distinct.add(json.dumps([[cl["members"], cl["invs"], cl["owners"]] for cl in final["classes"]] + [final["funcs"]]))
        if code[0]:
            disagreements.append((c, o))
        for i, s in enumerate(specs):
            if code[1 + i] == 2:
                spec_fail.append((s, c, o))
            elif code[1 + i] == 1:
                known_hits[s] += 1
            elif code[1 + i] == 3:
                known_hits[s + "#2"] += 1
            elif code[1 + i] == 4:
                known_hits[s + "#3"] += 1
            elif code[1 + i] == 5:
                known_hits[s + "#4"] += 1
            if code[1 + ns + i] == 2:
                model_fail.append((s, c, o))
    kf = C.load_known_findings()
    listed = {f["id"]: f for f in kf.get("findings", []) if f["property"] == prop}
    for s, n in known_hits.items():
        fid = (FOURTH_CLASS.get(s[:-2]) if s.endswith("#4") else THIRD_CLASS.get(s[:-2]) if s.endswith("#3")
               else SECOND_CLASS.get(s[:-2]) if s.endswith("#2") else (known or {}).get(s))
        if fid and fid in listed:
            out.known_finding("%s (%d histories in the class on this run)" % (listed[fid]["what"], n))
        else:
            want = 5 if s.endswith("#4") else 4 if s.endswith("#3") else (3 if s.endswith("#2") else 1)
            s = s[:-2] if s.endswith(("#2", "#3", "#4")) else s
            c, o = next((c, o) for (c, o), code in zip(live, codes) if code[1 + specs.index(s)] == want)
            out.violation("%s differs from the declared contracts in a class that is not a listed finding" % s,
                          {"case": c, "observation": strip(o), "script": source_of(c)})
    spec_fail.sort(key=lambda x: len(json.dumps(x[1])))
    for s, c, o in spec_fail[:2]:
        out.violation("%s is false of the implementation's observation" % s,
                      {"case": c, "observation": strip(o), "script": source_of(c),
                       "how": "./check %s --replay <this file>" % prop})
    for c, o in broken[:1]:
        out.violation("the implementation driver failed on a generated history: %s" % o, {"case": c, "observation": o},
                      found_input=False)
    if model_fail:
        problems.append("the model's own observation does not satisfy %s" % model_fail[0][0])
    if (problems or disagreements) and not out.violations:
        what = "; ".join(problems + (["model and implementation disagree on %d histories" % len(disagreements)]
                                     if disagreements else []))
        payload = {"no_longer_checks": problems or ["correspondence Model/Elab.v <-> icontract decorators/metaclass"]}
        if disagreements:
            disagreements.sort(key=lambda co: len(json.dumps(co[0])))
            c, o = disagreements[0]
            payload.update({"case": c, "observation": strip(o), "script": source_of(c)})
        out.violation(what, payload, found_input=False)
    cov = out.coverage
    cov["evaluations"] = cov.get("evaluations", 0) + sum(len(c["ops"]) for c in cases)
    cov["distinct_nontrivial"] = cov.get("distinct_nontrivial", 0) + len(distinct)
    cov.setdefault("rule", "")
    cov["rule"] = (cov["rule"] + " || " if cov["rule"] else "") + rule
    cov.setdefault("samples", []).append({"definitions": source_of(live[0][0]) if live else None})
    cov["elab_histories"] = len(cases)
    cov["elab_definition_outcomes"] = dict(errs)
    cov["elab_definition_kinds"] = dict(shapes)
    cov["elab_disagreements"] = len(disagreements)
    cov["elab_spec_failures_on_implementation"] = len(spec_fail)
    cov["elab_known_finding_hits"] = dict(known_hits)
    cov["elab_corpus_cases"] = ncorpus
    cov["traces_validated_against_impl"] = cov.get("traces_validated_against_impl", 0) + len(live)


def strip(o):
    return [{k: v for k, v in st.items() if k != "src"} for st in o] if isinstance(o, list) else o


def default_gen(rng, n):
    g = G.GenElab(rng)
    return [g.directed_history() if i % 5 == 0 else g.history() for i in range(n)]
