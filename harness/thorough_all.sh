#!/bin/bash
# usage: thorough_all.sh [<copy of the repository>]  -- the thorough tier of every check, one line each
here=$(cd "$(dirname "$0")/.." && pwd)
cd $here
[ -n "$1" ] && export ICV_REPO=$1
./setup.sh > /dev/null 2>&1
for p in C01 C02 C03 C04 C05 C06 C07 C08 C09 C10 C11 C12 C13 C14 C15 C16 C17 C18 C19 C20; do
  s=$(date +%s)
  r=$(./check $p --tier thorough 2>&1 | grep -v '^KNOWN' | tail -1)
  echo "$p thorough: $r ($(( $(date +%s) - s ))s)"
done
