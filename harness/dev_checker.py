import json, random, sys
import common as C, gen_checker as G
n=int(sys.argv[1]) if len(sys.argv)>1 else 200
seed=int(sys.argv[2]) if len(sys.argv)>2 else 1
rng=random.Random(seed)
g=G.Gen(rng)
cases=[g.case() for _ in range(n)]
obs=C.run_impl("impl_checker.py", {"cases": cases})
HEADER="From ICV Require Import Base Bind Checker CheckerCase CheckerSpec CheckerOracle.\nOpen Scope string_scope.\nOpen Scope list_scope.\nOpen Scope Z_scope.\n"
terms=[]; idx=[]
nde=0
for i,(c,o) in enumerate(zip(cases,obs)):
    if "defn_error" in o:
        nde+=1; print("DEFN ERROR", o, json.dumps(c)[:300]); continue
    terms.append("(let c := %s in let o := %s in let mo := run_case c in [if obs_eqb mo o then 0 else 1; if spec_C08 c (fst o) (snd o) then 0 else 1; if spec_C09 c (fst o) (snd o) then 0 else 1; if spec_C14 c (fst o) (snd o) then 0 else 1; if spec_C16 c (fst o) (snd o) then 0 else 1])%%Z" % (G.cq_case(c), G.cq_obs(o))); idx.append(i)
res=C.coq_eval_lists(HEADER, terms, name="dev", chunk=100)
bad=[idx[j] for j,r in enumerate(res) if any(r)]
print([r for r in res if any(r)][:10])
print("cases",n,"defn errors",nde,"disagreements",len(bad))
for i in bad[:int(sys.argv[3]) if len(sys.argv)>3 else 3]:
    print(json.dumps(cases[i])); print(json.dumps(obs[i]))
    # print model obs
    import subprocess
    open(C.workdir()+"/one.v","w").write(HEADER+"Eval vm_compute in run_case %s.\n" % G.cq_case(cases[i]))
    print(subprocess.run(["coqc","-Q",C.COQ,"ICV",C.workdir()+"/one.v"],capture_output=True,text=True).stdout[:3000])
