"""Implementation side for C15: one interpreter configuration (mode flags and ICONTRACT_SLOW come from
the parent), every decorator kind x enabled argument x callable kind.  No assert statements here:
this script runs under -O as well."""
import asyncio
import json
import sys
import warnings

warnings.simplefilter("ignore")
import icontract  # noqa: E402

CALLS = []


def deep(v):
    """value snapshot of an attribute (lists/dicts by content, everything else by identity)"""
    if isinstance(v, list):
        return ["list"] + [deep(x) for x in v]
    if isinstance(v, dict):
        return ["dict"] + sorted((str(k), deep(x)) for k, x in v.items())
    return id(v)


def snap_vars(obj):
    try:
        return sorted((k, deep(v)) for k, v in vars(obj).items())
    except TypeError:
        return None


def kw(enabled):
    if enabled == "default":
        return {}
    if enabled == "true":
        return {"enabled": True}
    if enabled == "false":
        return {"enabled": False}
    return {"enabled": icontract.SLOW}


def cond(tag, value):
    CALLS.append(tag)
    return value


# conditions are plain functions: icontract can only re-read a lambda that sits in decorator syntax
def c_pre(x):
    return cond("c", x >= 0)


def c_post(x, result):
    return cond("c", x >= 0)


def c_post_plain(x, result):
    return cond("post", True)


def c_capture(x):
    return cond("c", x)


def c_inv(self):
    return cond("c", self.x >= 0)


def c_outer(x):
    return cond("outer", True)


def make_callable(kind):
    if kind == "function":
        def f(x):
            return x
        return f, f
    if kind == "async":
        async def f(x):
            return x
        return f, f
    if kind == "lambda":
        f = lambda x: x  # noqa: E731
        return f, f
    if kind == "defaults":
        def f(x=-1, *rest, k=0, **more):
            return x
        return f, f
    if kind == "staticmethod_obj":
        # the contract is written above @staticmethod: the decorator is handed the staticmethod object
        def f(x):
            return x
        sm = staticmethod(f)
        sm.note = ["kept"]          # whatever the user stored on the object stays there
        return sm, sm
    if kind == "checker":
        # the object handed to the decorator is itself a checker made by an enabled contract
        @icontract.require(c_outer, enabled=True)
        def f(x):
            return x
        return f, f
    raise ValueError(kind)


def invoke(f, kind, arg):
    try:
        r = f(arg)
        if kind == "async" or asyncio.iscoroutine(r):
            r = asyncio.run(r)
        return ["ret", r]
    except icontract.ViolationError:
        return ["violation"]
    except BaseException as err:
        return ["raise", type(err).__name__, str(err)[:120]]


def one_function(deco, enabled, kind):
    del CALLS[:]
    k = kw(enabled)
    try:
        original, f = make_callable(kind)
        before = snap_vars(original)
        if deco == "require":
            g = icontract.require(c_pre, **k)(f)
        elif deco == "ensure":
            g = icontract.ensure(c_post, **k)(f)
        elif deco == "snapshot":
            # the snapshot needs a postcondition underneath; that one is always explicitly enabled and
            # is part of the "original" handed to the snapshot decorator
            f = icontract.ensure(c_post_plain, enabled=True)(f)
            original = f
            before = snap_vars(original)
            g = icontract.snapshot(c_capture, name="v", **k)(f)
        else:
            raise ValueError(deco)
    except BaseException as err:
        return {"defn": [type(err).__name__, str(err)[:200]]}
    after = snap_vars(original)
    good = invoke(g, kind, 3)
    ncalls_good = CALLS.count("c")
    bad = invoke(g, kind, -3)
    return {"identical": g is original, "vars_same": before == after, "cond_calls": CALLS.count("c"),
            "cond_calls_good": ncalls_good, "good": good, "bad": bad}


def one_invariant(enabled, kind):
    del CALLS[:]
    k = kw(enabled)
    if kind == "plain":
        class A:
            def __init__(self, x):
                self.x = x

            def set(self, x):
                self.x = x
                return x
    elif kind == "dbc":
        class A(icontract.DBC):
            def __init__(self, x):
                self.x = x

            def set(self, x):
                self.x = x
                return x
    elif kind == "slots_repr":
        class A:
            def __init__(self, x):
                self.x = x

            def __repr__(self):
                return "A"

            def set(self, x):
                self.x = x
                return x

            @property
            def p(self):
                return self.x
    elif kind == "plain_sub":
        # a plain sub-class (no meta-class) with members of its own, of a class that has an enabled invariant
        class Base:
            def __init__(self, x):
                self.x = x

        def c_base(self):
            return cond("base", True)
        Base = icontract.invariant(c_base, enabled=True)(Base)

        class A(Base):
            def set(self, x):
                self.x = x
                return x

            def get(self):
                return self.x
    else:
        raise ValueError(kind)
    before = snap_vars(A)
    try:
        B = icontract.invariant(c_inv, **k)(A)
    except BaseException as err:
        return {"defn": [type(err).__name__, str(err)[:200]]}
    after = snap_vars(A)
    good = invoke(B, "class", 3)
    good = ["ret", "obj"] if good[0] == "ret" else good
    ncalls_good = CALLS.count("c")
    bad = invoke(B, "class", -3)
    bad = ["ret", "obj"] if bad[0] == "ret" else bad
    try:
        obj = B(3)
        meth = invoke(obj.set, "method", -3)
    except BaseException as err:
        meth = ["raise", type(err).__name__]
    return {"identical": B is A, "vars_same": before == after, "cond_calls": CALLS.count("c"),
            "cond_calls_good": ncalls_good, "good": good, "bad": bad, "meth": meth}


def main():
    payload = json.load(sys.stdin)
    out = {"debug": __debug__, "slow": bool(icontract.SLOW), "optimize": sys.flags.optimize, "rows": []}
    for deco, enabled, kind in payload["rows"]:
        try:
            if deco == "invariant":
                o = one_invariant(enabled, kind)
            else:
                o = one_function(deco, enabled, kind)
        except BaseException as err:
            o = {"defn": [type(err).__name__, str(err)[:200]]}
        out["rows"].append(o)
    json.dump(out, sys.stdout)


if __name__ == "__main__":
    main()
