"""C01 - preconditions gate every call."""
import checker_cluster as K
import elab_cluster as E
import gen_checker as G

PROP = "C01"
CONE = sorted(set(K.MODEL_FILES + E.MODEL_FILES + ["Gen/Generated.v", "Proofs/SkelPinChecker.v", "Proofs/CheckerFrame.v", "Proofs/CheckerProps.v", "Props/C01.v"]))
RULE_E = ("histories of definitions as for C04 (functions with decorator stacks incl. foreign functools.wraps decorators, "
          "DBC hierarchies with overriding members): the lists carried by the wrapper whose code evaluates the contracts - not the "
          "one find_checker hands out - are the declared effective contracts (spec_C04).")
RULE = ("cases cycle through the 9 callable kinds x sync/async; 1-3 classes in a chain with 0-3 own preconditions "
        "each (inherited groups as alternatives), 0-2 postconditions and snapshots, invariants around methods / "
        "properties / __init__; truth assignment random with a bias towards reaching later phases; conditions may "
        "raise, have a failing truth test, be coroutine functions or return awaitables; error forms none / class / "
        "instance / factory; seeded. Non-trivial: see checker_cluster.nontrivial; distinct = distinct (trace, outcome).")


def run(tier, replay=None):
    out, build, problems = K.begin(PROP, tier, CONE, "Props/C01.v")
    is_elab_replay = bool(replay) and "ops" in __import__("json").load(open(replay)).get("case", {})
    if not replay or not is_elab_replay:
        K.run_into(out, build, problems, PROP, tier, ["spec_C01"], lambda rng, n: G.gen_many(rng, n), 1400, 30000, RULE,
                   replay=replay)
    if not replay or is_elab_replay:
        E.run(out, build, problems, PROP, tier, ["spec_C04"], E.default_gen, 600, 12000, RULE_E, replay=replay,
              known={"spec_C04": "kf_C04_accept_all"})
    if not replay:
        # a scenario outside the case language of the histories (a class whose namespace passes the meta-class twice):
        # run as it stands, a search for a failing input only
        import common as C
        res = C.run_impl("impl_probe.py", {"probes": ["twice_through_the_metaclass"]})
        out.coverage["scenario_probes"] = res
        r = res.get("twice_through_the_metaclass", {})
        if r.get("reproduced"):
            out.violation("a weakened precondition is lost or strengthened once the class passes the meta-class a second time",
                          {"probe": "twice_through_the_metaclass", "result": r, "script": "harness/impl_probe.py"})
        elif r.get("reproduced") is None:
            out.violation("the scenario probe did not run: %s" % r, {"probe": r}, found_input=False)
    return out.finish()
