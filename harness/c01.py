"""C01 - preconditions gate every call."""
import checker_cluster as K
import gen_checker as G

PROP = "C01"
CONE = K.MODEL_FILES + ["Gen/Generated.v", "Proofs/SkelPinChecker.v", "Proofs/CheckerFrame.v", "Proofs/CheckerProps.v", "Props/C01.v"]
RULE = ("cases cycle through the 9 callable kinds x sync/async; 1-3 classes in a chain with 0-3 own preconditions "
        "each (inherited groups as alternatives), 0-2 postconditions and snapshots, invariants around methods / "
        "properties / __init__; truth assignment random with a bias towards reaching later phases; conditions may "
        "raise, have a failing truth test, be coroutine functions or return awaitables; error forms none / class / "
        "instance / factory; seeded. Non-trivial: see checker_cluster.nontrivial; distinct = distinct (trace, outcome).")


def run(tier, replay=None):
    return K.run(PROP, tier, CONE, "Props/C01.v", ["spec_C01"], lambda rng, n: G.gen_many(rng, n),
                 1400, 30000, RULE, replay=replay)
