"""Implementation side of C12: real asyncio tasks / real threads driven by a turnstile.

A case: {"prog": <run program>, "mode": "asyncio" | "threads", "ops": [...]}
  ops: ["spawn", inherit ("fresh"|"copy"), warm (bool), target] | ["advance", t] | ["cancel", t]
Tasks start at their first "advance"; every ["await", pt] action of a script is a gate at which the
task waits for its next "advance" (or is cancelled, asyncio only).  The creator is the main
task/thread: with warm=true it has completed a contracted call before spawning.
Observation per task: the user code it ran, its outcome (None if still suspended), the content of the
in-progress variable of its context when it ended."""
import asyncio
import contextvars
import json
import os
import sys
import threading
import warnings

sys.path.insert(0, os.path.dirname(os.path.abspath(__file__)))
warnings.simplefilter("ignore")

import icontract  # noqa: E402
import icontract._checkers  # noqa: E402
import impl_run  # noqa: E402
import world  # noqa: E402

CURRENT = contextvars.ContextVar("icv_current_task", default=None)
CANCEL_TAG = 4


class ConcWorld(impl_run.RunWorld):
    """RunWorld whose sites log into the current task's trace and whose awaits are gates."""

    def __init__(self, prog, mode):
        self.mode = mode
        self.traces = {}
        self.last_sites = {}
        self.gates = {}
        prog = dict(prog)
        prog["async"] = (mode == "asyncio")
        super().__init__(prog)

    def whose(self):
        return CURRENT.get()

    # which object a violated condition was evaluated on is the business of the task that evaluated it (the
    # conditions of a class are shared by its instances)
    @property
    def last_site(self):
        return self.last_sites.setdefault(CURRENT.get(), {})

    @last_site.setter
    def last_site(self, v):
        self.last_sites[CURRENT.get()] = v

    # logging goes to the current task
    @property
    def events(self):
        return self.traces.setdefault(CURRENT.get(), [])

    @events.setter
    def events(self, v):
        self.traces[CURRENT.get()] = v

    # ---- asyncio
    async def aplay(self, site, name, script):
        self.events.append(site)
        self.last_site[name] = site
        for a in script[0]:
            if a[0] == "call":
                await self.call(a[1])
            else:
                await self.gate_async()
        v = script[1]
        if v[0] == "raise":
            raise self.exc(v[1])
        return v[1]

    async def gate_async(self):
        g = self.gates[CURRENT.get()]
        g["arrived"].set()
        await g["resume"].wait()
        g["resume"].clear()

    # ---- threads
    def play(self, site, name, script):
        self.events.append(site)
        self.last_site[name] = site
        for a in script[0]:
            if a[0] == "call":
                self.call(a[1])
            elif self.mode == "threads" and CURRENT.get() is not None:
                g = self.gates[CURRENT.get()]
                g["arrived"].set()
                g["resume"].wait()
                g["resume"].clear()
        v = script[1]
        if v[0] == "raise":
            raise self.exc(v[1])
        return v[1]


def canon_out(W, err):
    if isinstance(err, asyncio.CancelledError) and not hasattr(err, "tag"):
        return ["user", CANCEL_TAG]
    return W.canon_exc(err)


async def run_asyncio(case):
    W = ConcWorld(case["prog"], "asyncio")
    results, finals, tasks = {}, {}, {}
    warmed = False

    async def runner(i, target):
        CURRENT.set(i)
        g = W.gates[i]
        try:
            await g["resume"].wait()      # the first "advance" starts the call
            g["resume"].clear()
            await W.call(target)
            results[i] = ["ret"]
        except BaseException as err:  # noqa
            results[i] = canon_out(W, err)
        finals[i] = W.in_progress()
        g["arrived"].set()

    n = 0
    for op in case["ops"]:
        if op[0] == "spawn":
            _, inherit, warm, target = op
            if warm and not warmed:
                warmed = True
                try:
                    await W.call(["fn", case.get("warm_fn", 0)])
                except BaseException:  # noqa
                    pass
                # the objects are constructed by the creator, at the top level of its context
                for o in sorted(W.O):
                    try:
                        W.O[o].__init__()
                    except BaseException:  # noqa
                        pass
            i = n
            n += 1
            W.gates[i] = {"resume": asyncio.Event(), "arrived": asyncio.Event()}
            if inherit == "copy":
                tasks[i] = asyncio.create_task(runner(i, target))
            else:
                tasks[i] = asyncio.get_running_loop().create_task(runner(i, target), context=contextvars.Context())
        elif op[0] == "advance":
            t = op[1]
            if t in tasks and t not in results:
                g = W.gates[t]
                g["arrived"].clear()
                g["resume"].set()
                await asyncio.wait_for(g["arrived"].wait(), TURNSTILE_TIMEOUT)
        elif op[0] == "cancel":
            t = op[1]
            if t in tasks and t not in results and t in W.traces:
                g = W.gates[t]
                g["arrived"].clear()
                tasks[t].cancel()
                await asyncio.wait_for(g["arrived"].wait(), TURNSTILE_TIMEOUT)
    out = []
    for i in range(n):
        out.append({"events": W.traces.get(i, [])[:300], "outcome": results.get(i), "in_progress": finals.get(i, []),
                    "truncated": len(W.traces.get(i, [])) > 300})
    for t in tasks.values():
        if not t.done():
            t.cancel()
    await asyncio.gather(*tasks.values(), return_exceptions=True)
    return out


TURNSTILE_TIMEOUT = 8


def run_threads(case):
    W = ConcWorld(case["prog"], "threads")
    results, finals, threads = {}, {}, {}
    warmed = False

    def runner(i, target):
        CURRENT.set(i)
        g = W.gates[i]
        try:
            g["resume"].wait()
            g["resume"].clear()
            W.call(target)
            results[i] = ["ret"]
        except BaseException as err:  # noqa
            results[i] = canon_out(W, err)
        finals[i] = W.in_progress()
        g["arrived"].set()

    n = 0
    for op in case["ops"]:
        if op[0] == "spawn":
            _, inherit, warm, target = op
            if warm and not warmed:
                warmed = True
                try:
                    W.call(["fn", case.get("warm_fn", 0)])
                except BaseException:  # noqa
                    pass
                for o in sorted(W.O):
                    try:
                        W.O[o].__init__()
                    except BaseException:  # noqa
                        pass
            i = n
            n += 1
            W.gates[i] = {"resume": threading.Event(), "arrived": threading.Event()}
            if inherit == "copy":
                ctx = contextvars.copy_context()
                th = threading.Thread(target=lambda i=i, target=target, ctx=ctx: ctx.run(runner, i, target), daemon=True)
            else:
                th = threading.Thread(target=runner, args=(i, target), daemon=True)
            threads[i] = th
            th.start()
        elif op[0] == "advance":
            t = op[1]
            if t in threads and t not in results:
                g = W.gates[t]
                g["arrived"].clear()
                g["resume"].set()
                if not g["arrived"].wait(TURNSTILE_TIMEOUT):
                    raise RuntimeError("turnstile timeout")
    out = []
    for i in range(n):
        out.append({"events": W.traces.get(i, [])[:300], "outcome": results.get(i), "in_progress": finals.get(i, []),
                    "truncated": len(W.traces.get(i, [])) > 300})
    # release the threads that are still waiting so that they can end
    for i, th in threads.items():
        if i not in results:
            W.gates[i]["resume"].set()
    return out


def main():
    payload = json.load(sys.stdin)
    sys.setrecursionlimit(1500)
    res = []
    hangs = 0
    for case in payload["cases"]:
        if hangs >= 3:
            # a program that never reaches its next suspension point costs a time-out each: stop after three
            res.append({"defn_error": "Skipped", "msg": "three earlier programs of this batch hung"})
            continue
        try:
            if case["mode"] == "asyncio":
                res.append(asyncio.run(run_asyncio(case)))
            else:
                res.append(run_threads(case))
        except BaseException as err:  # noqa
            if isinstance(err, (asyncio.TimeoutError, TimeoutError)) or "turnstile timeout" in str(err):
                hangs += 1
                res.append({"defn_error": "Hang", "msg": "a task or thread did not reach its next suspension point"})
            else:
                res.append({"defn_error": type(err).__name__, "msg": str(err)[:300]})
    json.dump(res, sys.stdout)
    sys.stdout.flush()
    os._exit(0)


if __name__ == "__main__":
    main()
