"""C14 - satisfied contracts are transparent."""
import checker_cluster as K
import elab_cluster as E
import gen_checker as G
import gen_run
import run_cluster as R

PROP = "C14"
CONE = sorted(set(K.MODEL_FILES + E.MODEL_FILES + R.MODEL_FILES + ["Model/Ctor.v", "Spec/CtorCase.v", "Gen/Generated.v"] + ['Proofs/CheckerFrame.v', 'Proofs/CheckerProps.v', 'Props/C14.v']))
RULE_E = 'histories of 2-6 definitions: module-level functions with stacks of 0-4 decorators (require / ensure / snapshot, enabled or not, foreign functools.wraps decorators, invalid decorators), classes on DBC or not with single or multiple bases, members f/g/p/__init__/__new__/__setattr__/_priv/__repr__ of kinds method, static, class method, property get/set/del, class invariants with check_on CALL/SETATTR/ALL; after each step every earlier function and class is viewed through find_checker and the list attributes (contents and identity of the invariant lists); seeded. distinct = distinct final views.'
RULE_C = 'checker-cluster cases as for C01 (all callable kinds x sync/async, chains of 1-3 classes, faults); seeded.'


RULE_R = ('programs of contracted functions and classes with invariants whose conditions, captures, bodies and methods call each '
          'other (the generator of C11, half of them coroutine functions and async methods driven by hand, user exceptions '
          'and cancellation injected): whenever the stack rule reports no violation, the bodies entered and the outcome are '
          'those of the bare program (spec_C14_run).')


def gen_run_cases(rng, n):
    cases = []
    for i in range(n):
        g = gen_run.GenRun(rng, is_async=(i % 2 == 1), faults=0.1, awaits=0.4, new_style=0.25)
        c = g.case()
        if gen_run.small_enough(c):
            cases.append(c)
    return cases


def run(tier, replay=None):
    out, build, problems = K.begin(PROP, tier, CONE, "Props/C14.v")
    rp = __import__("json").load(open(replay)).get("case", {}) if replay else {}
    is_run_replay = "prog" in rp
    is_elab_replay = bool(replay) and "ops" in rp and not is_run_replay
    is_ctor_replay = "chain" in rp
    if not replay or is_ctor_replay:
        # constructing an instance of a class of a chain (constructors, __new__ with an argument): as the bare classes would
        import ctor_cluster as T
        T.run_into(out, build, problems, PROP, tier, replay=replay, n_quick=300, n_thorough=8000)
    if not replay or is_run_replay:
        R.run_into(out, build, problems, PROP, tier, "spec_C14_run", gen_run_cases, 500, 12000, RULE_R, replay=replay)
    if not replay or not (is_elab_replay or is_run_replay or is_ctor_replay):
        K.run_into(out, build, problems, PROP, tier, ['spec_C14'], lambda rng, n: G.gen_many(rng, n), 1200, 25000, RULE_C,
                   replay=replay)
    if not replay or is_elab_replay:
        E.run(out, build, problems, PROP, tier, ['spec_C14_stacks', 'spec_C14_kinds', 'spec_C04', 'spec_C03_selection'], E.default_gen, 500, 10000, RULE_E, replay=replay,
              known={'spec_C04': 'kf_C04_accept_all', 'spec_C03_selection': 'kf_C03_newstyle'})
    if not replay:
        # a scenario outside the case language of the histories (a foreign decorator between contract decorators that
        # passes __wrapped__ on but none of the attributes of the function beneath it): run as it stands, a search for a
        # failing input only
        import common as C
        res = C.run_impl("impl_probe.py", {"probes": ["wrapper_that_passes_no_attributes_on"]})
        out.coverage["scenario_probes"] = res
        r = res.get("wrapper_that_passes_no_attributes_on", {})
        if r.get("reproduced"):
            out.violation("a decorator stack with a foreign decorator that copies no attributes does not share one checker, "
                          "rejects a legal snapshot or does not enforce all its contracts",
                          {"probe": "wrapper_that_passes_no_attributes_on", "result": r, "script": "harness/impl_probe.py"})
        elif r.get("reproduced") is None:
            out.violation("the scenario probe did not run: %s" % r, {"probe": r}, found_input=False)
    return out.finish()
