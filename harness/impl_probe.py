"""Witness probes for recorded findings that lie outside the case languages of the clusters: each probe runs the
witness against the library on PYTHONPATH and reports whether it still fails in the recorded way."""
import json
import sys

import icontract


def alias_of_another_class():
    """D32 (C17): `foo = P.foo` in the body of a class R(Q) - P unrelated to R - makes the meta-class assign the
    contracts collapsed for R.foo to P.foo's own checker."""
    class P(icontract.DBC):
        @icontract.ensure(lambda result: result > 0)
        def foo(self):
            return 1

    class Q(icontract.DBC):
        @icontract.ensure(lambda result: result > 10)
        def foo(self):
            return 11
    before = len(P.foo.__postconditions__)

    class R(Q):
        foo = P.foo
    after = len(P.foo.__postconditions__)
    try:
        P().foo()
        verdict = "ok"
    except icontract.ViolationError:
        verdict = "violation"
    return {"reproduced": after != before or verdict != "ok", "posts_before": before, "posts_after": after,
            "P().foo()": verdict}


def class_passes_the_metaclass_twice():
    """A sub-class that weakens an inherited precondition and is then re-created from its own namespace (what
    dataclasses.dataclass(slots=True) and other class decorators do), and one whose weakened method has a second name in
    the class body: the effective precondition is still `inherited OR own`."""
    log = []

    def base_pre(x):
        log.append("base")
        return x > 0

    def own_pre(x):
        log.append("own")
        return x < -100

    class A(icontract.DBC):
        @icontract.require(base_pre)
        def book(self, x):
            return x

    class B(A):
        @icontract.require(own_pre)
        def book(self, x):
            return x
        correct = book

    ns = {k: v for k, v in B.__dict__.items() if k not in ("__dict__", "__weakref__")}
    B2 = type(B)(B.__name__, B.__bases__, ns)
    verdicts = {}
    for label, obj, call in (("recreated/own only", B2(), -500), ("recreated/inherited only", B2(), 5),
                             ("recreated/neither", B2(), -5), ("alias/own only", B(), -500), ("alias/inherited only", B(), 5),
                             ("alias/neither", B(), -5)):
        try:
            (obj.correct if label.startswith("alias") else obj.book)(call)
            verdicts[label] = "accepted"
        except icontract.ViolationError:
            verdicts[label] = "rejected"
    expected = {"recreated/own only": "accepted", "recreated/inherited only": "accepted", "recreated/neither": "rejected",
                "alias/own only": "accepted", "alias/inherited only": "accepted", "alias/neither": "rejected"}
    return {"reproduced": verdicts != expected, "verdicts": verdicts, "expected": expected}


def wrapper_that_passes_no_attributes_on():
    """A foreign decorator between contract decorators that sets __wrapped__ and the name but does not copy the
    attributes of the function beneath it (functools.wraps(f, updated=())): the stack still has one checker, a snapshot
    above it is accepted (there is a postcondition below), and all contracts are enforced."""
    import functools

    def quiet(f):
        @functools.wraps(f, updated=())
        def wrapper(*args, **kwargs):
            return f(*args, **kwargs)
        return wrapper
    log = []
    result = {}
    try:
        @icontract.snapshot(lambda xs: len(xs), name="n")
        @icontract.require(lambda xs: log.append("outer pre") or True)
        @quiet
        @icontract.ensure(lambda OLD, xs: log.append("post") or len(xs) == OLD.n + 1)
        @icontract.require(lambda xs: log.append("inner pre") or len(xs) < 3)
        def push(xs):
            xs.append(0)
            return xs
    except BaseException as err:  # noqa: BLE001
        return {"reproduced": True, "decoration": "%s: %s" % (type(err).__name__, str(err)[:120])}
    checkers, cur = 0, push
    while True:
        code = getattr(cur, "__code__", None)
        if code is not None and getattr(code, "co_qualname", "").startswith("decorate_with_checker"):
            checkers += 1
        if not hasattr(cur, "__wrapped__"):
            break
        cur = cur.__wrapped__
    result["checkers"] = checkers
    try:
        push([1])
        result["good call"] = "accepted"
    except BaseException as err:  # noqa: BLE001
        result["good call"] = type(err).__name__
    result["evaluated"] = sorted(set(log))
    try:
        push([1, 2, 3])
        result["bad call"] = "accepted"
    except icontract.ViolationError:
        result["bad call"] = "rejected"
    expected = {"checkers": 1, "good call": "accepted", "evaluated": ["inner pre", "outer pre", "post"], "bad call": "rejected"}
    return {"reproduced": result != expected, "result": result, "expected": expected}


PROBES = {"kf_C17_alias": alias_of_another_class, "twice_through_the_metaclass": class_passes_the_metaclass_twice,
          "wrapper_that_passes_no_attributes_on": wrapper_that_passes_no_attributes_on}


def main():
    payload = json.load(sys.stdin)
    out = {}
    for name in payload["probes"]:
        try:
            out[name] = PROBES[name]()
        except BaseException as err:  # noqa: BLE001
            out[name] = {"reproduced": None, "error": "%s: %s" % (type(err).__name__, str(err)[:200])}
    json.dump(out, sys.stdout)


if __name__ == "__main__":
    main()
