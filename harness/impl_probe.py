"""Witness probes for recorded findings that lie outside the case languages of the clusters: each probe runs the
witness against the library on PYTHONPATH and reports whether it still fails in the recorded way."""
import json
import sys

import icontract


def alias_of_another_class():
    """D32 (C17): `foo = P.foo` in the body of a class R(Q) - P unrelated to R - makes the meta-class assign the
    contracts collapsed for R.foo to P.foo's own checker."""
    class P(icontract.DBC):
        @icontract.ensure(lambda result: result > 0)
        def foo(self):
            return 1

    class Q(icontract.DBC):
        @icontract.ensure(lambda result: result > 10)
        def foo(self):
            return 11
    before = len(P.foo.__postconditions__)

    class R(Q):
        foo = P.foo
    after = len(P.foo.__postconditions__)
    try:
        P().foo()
        verdict = "ok"
    except icontract.ViolationError:
        verdict = "violation"
    return {"reproduced": after != before or verdict != "ok", "posts_before": before, "posts_after": after,
            "P().foo()": verdict}


def class_passes_the_metaclass_twice():
    """A sub-class that weakens an inherited precondition and is then re-created from its own namespace (what
    dataclasses.dataclass(slots=True) and other class decorators do), and one whose weakened method has a second name in
    the class body: the effective precondition is still `inherited OR own`."""
    log = []

    def base_pre(x):
        log.append("base")
        return x > 0

    def own_pre(x):
        log.append("own")
        return x < -100

    class A(icontract.DBC):
        @icontract.require(base_pre)
        def book(self, x):
            return x

    class B(A):
        @icontract.require(own_pre)
        def book(self, x):
            return x
        correct = book

    ns = {k: v for k, v in B.__dict__.items() if k not in ("__dict__", "__weakref__")}
    B2 = type(B)(B.__name__, B.__bases__, ns)
    verdicts = {}
    for label, obj, call in (("recreated/own only", B2(), -500), ("recreated/inherited only", B2(), 5),
                             ("recreated/neither", B2(), -5), ("alias/own only", B(), -500), ("alias/inherited only", B(), 5),
                             ("alias/neither", B(), -5)):
        try:
            (obj.correct if label.startswith("alias") else obj.book)(call)
            verdicts[label] = "accepted"
        except icontract.ViolationError:
            verdicts[label] = "rejected"
    expected = {"recreated/own only": "accepted", "recreated/inherited only": "accepted", "recreated/neither": "rejected",
                "alias/own only": "accepted", "alias/inherited only": "accepted", "alias/neither": "rejected"}
    return {"reproduced": verdicts != expected, "verdicts": verdicts, "expected": expected}


PROBES = {"kf_C17_alias": alias_of_another_class, "twice_through_the_metaclass": class_passes_the_metaclass_twice}


def main():
    payload = json.load(sys.stdin)
    out = {}
    for name in payload["probes"]:
        try:
            out[name] = PROBES[name]()
        except BaseException as err:  # noqa: BLE001
            out[name] = {"reproduced": None, "error": "%s: %s" % (type(err).__name__, str(err)[:200])}
    json.dump(out, sys.stdout)


if __name__ == "__main__":
    main()
