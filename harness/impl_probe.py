"""Witness probes for recorded findings that lie outside the case languages of the clusters: each probe runs the
witness against the library on PYTHONPATH and reports whether it still fails in the recorded way."""
import json
import sys

import icontract


def alias_of_another_class():
    """D32 (C17): `foo = P.foo` in the body of a class R(Q) - P unrelated to R - makes the meta-class assign the
    contracts collapsed for R.foo to P.foo's own checker."""
    class P(icontract.DBC):
        @icontract.ensure(lambda result: result > 0)
        def foo(self):
            return 1

    class Q(icontract.DBC):
        @icontract.ensure(lambda result: result > 10)
        def foo(self):
            return 11
    before = len(P.foo.__postconditions__)

    class R(Q):
        foo = P.foo
    after = len(P.foo.__postconditions__)
    try:
        P().foo()
        verdict = "ok"
    except icontract.ViolationError:
        verdict = "violation"
    return {"reproduced": after != before or verdict != "ok", "posts_before": before, "posts_after": after,
            "P().foo()": verdict}


PROBES = {"kf_C17_alias": alias_of_another_class}


def main():
    payload = json.load(sys.stdin)
    out = {}
    for name in payload["probes"]:
        try:
            out[name] = PROBES[name]()
        except BaseException as err:  # noqa: BLE001
            out[name] = {"reproduced": None, "error": "%s: %s" % (type(err).__name__, str(err)[:200])}
    json.dump(out, sys.stdout)


if __name__ == "__main__":
    main()
