"""Generator of conditions and calls for the expression cluster (C06, C07, C20).

Typed, mostly-valid expressions over a small vocabulary; the environment is chosen afterwards and the
condition is negated if it happened to be truthy, so that (almost) every case is a violation.  A
directed stream covers the shapes the property texts single out."""
import json
import random

import exprlang as X

INT_VARS = ["x", "y", "n", "k"]
BOOL_VARS = ["flag", "ok"]
LIST_VARS = ["xs", "ys"]
STR_VARS = ["s", "t"]
OPT_VARS = ["opt"]
REC_VARS = ["r", "q"]
DICT_VARS = ["d"]
LOOP_VARS = ["v", "w", "i", "j", "m", "e"]
HELPERS = ["inv", "first", "clamp", "pick"]
BUILTINS = ["len", "abs", "all", "any", "max", "min", "sum", "sorted", "bool", "int", "str", "list", "tuple", "repr"]


class Rec:
    def __init__(self, tag, fields):
        self._tag = tag
        self._fields = tuple(n for n, _ in fields)
        for n, v in fields:
            setattr(self, n, v)

    def __repr__(self):
        return "Rec(%d)" % self._tag

    def __eq__(self, other):
        return (isinstance(other, Rec) and self._tag == other._tag and self._fields == other._fields
                and all(getattr(self, n) == getattr(other, n) for n in self._fields))

    def __hash__(self):
        return hash(self._tag)

    # ordered by size; the answer is 0 / 1, not False / True
    def __lt__(self, other):
        return int(self.size < other.size) if isinstance(other, Rec) else NotImplemented

    def __le__(self, other):
        return int(self.size <= other.size) if isinstance(other, Rec) else NotImplemented

    def __gt__(self, other):
        return int(self.size > other.size) if isinstance(other, Rec) else NotImplemented

    def __ge__(self, other):
        return int(self.size >= other.size) if isinstance(other, Rec) else NotImplemented


def inv(n):
    return 100 // n


def first(xs):
    return xs[0]


def clamp(x, lo=0, hi=10):
    return max(lo, min(x, hi))


def pick(*args, **kw):
    return (len(args), sorted(kw))


def to_py(v):
    if v is None or isinstance(v, (bool, int, str)):
        return v
    if isinstance(v, list):
        return [to_py(x) for x in v]
    if "t" in v:
        return tuple(to_py(x) for x in v["t"])
    if "d" in v:
        return {to_py(a): to_py(b) for a, b in v["d"]}
    if "rec" in v:
        return Rec(v["rec"], [(n, to_py(x)) for n, x in v["f"]])
    if "fn" in v:
        import builtins
        return {"inv": inv, "first": first, "clamp": clamp, "pick": pick}.get(v["fn"]) or getattr(builtins, v["fn"])
    raise ValueError(v)


class G:
    def __init__(self, rng, max_depth=4):
        self.rng = rng
        self.max_depth = max_depth
        self.used = set()
        self.loop_depth = 0
        self.loop_vars = []       # (name, type) of the enclosing comprehensions
        self.allow_named = True

    def pick(self, options):
        total = sum(w for w, _ in options)
        x = self.rng.random() * total
        for w, f in options:
            x -= w
            if x <= 0:
                return f
        return options[-1][1]

    def name(self, n):
        self.used.add(n)
        return ["name", n]

    # ---- ints
    def int_(self, d):
        r = self.rng
        leaf = [(3, lambda: ["const", r.choice([0, 1, 2, 3, 5, 10, -1, -4])]),
                (5, lambda: self.name(r.choice(INT_VARS)))]
        for n, t in self.loop_vars:
            if t == "int":
                leaf.append((6, lambda n=n: ["name", n]))
        if d <= 0:
            return self.pick(leaf)()
        opts = leaf + [
            (4, lambda: ["bin", r.choice(["+", "-", "*", "//", "%", "+", "-"]), self.int_(d - 1), self.int_(d - 1)]),
            (1, lambda: ["bin", r.choice(["&", "|", "^"]), self.int_(d - 1), self.int_(d - 1)]),
            (1, lambda: ["bin", r.choice(["<<", ">>"]), self.int_(d - 1), ["const", r.choice([0, 1, 2])]]),
            (1, lambda: ["un", r.choice(["neg", "pos", "inv"]), self.int_(d - 1)]),
            (3, lambda: ["call", ["name", "len"], [self.pick([(3, lambda: self.list_(d - 1)), (1, lambda: self.str_(d - 1))])()], []]),
            (2, lambda: ["call", ["name", "abs"], [self.int_(d - 1)], []]),
            (2, lambda: ["call", ["name", "sum"], [self.iterable(d - 1)], []]),
            (2, lambda: ["call", ["name", r.choice(["max", "min"])], [self.list_(d - 1)],
                         r.choice([[], [["default", self.int_(0)]]])]),
            (1, lambda: ["call", ["name", r.choice(["max", "min"])], [self.int_(d - 1), self.int_(d - 1)], []]),
            (1, lambda: ["call", ["name", r.choice(["max", "min"])], [["star", self.list_(d - 1)]], []]),
            (3, lambda: ["sub", self.list_(d - 1), self.int_(0)]),
            (2, lambda: ["attr", self.rec_(d - 1), "size"]),
            (2, lambda: ["sub", self.dict_(d - 1), ["const", r.choice(["a", "b", "zz"])]]),
            (1, lambda: ["call", ["name", "len"], [self.dict_(d - 1)], []]),
            (2, lambda: ["call", ["name", "clamp"], [self.int_(d - 1)],
                         r.choice([[], [["lo", self.int_(0)]], [["hi", self.int_(0)], ["lo", self.int_(0)]]])]),
            (2, lambda: ["call", ["name", "inv"], [self.int_(d - 1)], []]),
            (1, lambda: ["call", ["name", "first"], [self.list_(d - 1)], []]),
            (2, lambda: ["if", self.bool_(d - 1), self.int_(d - 1), self.int_(d - 1)]),
            (1, lambda: ["call", ["name", "int"], [self.bool_(d - 1)], []]),
            (2, lambda: ["bool", r.choice(["and", "or"]), [self.int_(d - 1), self.int_(d - 1)]]),
            (1, lambda: ["sub", ["call", ["name", "pick"], self.star_args(d - 1), self.star_kws(d - 1)], ["const", 0]]),
        ]
        if self.allow_named and self.loop_depth == 0:
            opts.append((1, lambda: self.named(d)))
        return self.pick(opts)()

    def named(self, d):
        tg = self.rng.choice(["tmp", "acc"])
        return ["named", tg, self.int_(d - 1)]

    def star_args(self, d):
        r = self.rng
        out = []
        for _ in range(r.randint(0, 2)):
            out.append(["star", self.list_(d)] if r.random() < 0.5 else self.int_(d))
        return out

    def star_kws(self, d):
        r = self.rng
        out = []
        if r.random() < 0.4:
            out.append(["q", self.int_(d)])
        if r.random() < 0.4:
            out.append([None, self.name("d")])
        return out

    # ---- bools (or anything used for its truth)
    def bool_(self, d):
        r = self.rng
        leaf = [(2, lambda: self.name(r.choice(BOOL_VARS))), (1, lambda: ["const", r.choice([True, False])])]
        if d <= 0:
            return self.pick(leaf + [(3, lambda: ["cmp", self.int_(0), [[r.choice(["<", ">", "==", "<=", ">=", "!="]), self.int_(0)]]])])()
        opts = leaf + [
            (6, lambda: ["cmp", self.int_(d - 1), [[r.choice(["<", ">", "==", "<=", ">=", "!="]), self.int_(d - 1)]]]),
            (3, lambda: ["cmp", self.int_(d - 1), [[r.choice(["<", "<="]), self.int_(d - 1)], [r.choice(["<", "<=", "!="]), self.int_(d - 1)]]]),
            (2, lambda: ["un", "not", self.bool_(d - 1)]),
            (5, lambda: ["bool", r.choice(["and", "or"]), [self.truthy(d - 1) for _ in range(r.choice([2, 2, 3]))]]),
            (2, lambda: ["cmp", self.int_(d - 1), [[r.choice(["in", "not in"]), self.list_(d - 1)]]]),
            (2, lambda: ["cmp", self.name("opt"), [[r.choice(["is", "is not"]), ["const", None]]]]),
            (1, lambda: ["cmp", self.str_(d - 1), [[r.choice(["==", "!=", "<", "in"]), self.str_(d - 1)]]]),
            (1, lambda: ["cmp", self.list_(d - 1), [[r.choice(["==", "!=", "<"]), self.list_(d - 1)]]]),
            (4, lambda: self.quantifier(d)),
            (2, lambda: ["call", ["name", "bool"], [self.truthy(d - 1)], []]),
            (1, lambda: ["cmp", ["attr", self.rec_(d - 1), "child"], [[r.choice(["is", "is not"]), ["const", None]]]]),
            (1, lambda: ["cmp", ["const", r.choice(["a", "b", "zz"])], [["in", self.dict_(d - 1)]]]),
            (1, lambda: ["if", self.bool_(d - 1), self.bool_(d - 1), self.bool_(d - 1)]),
            # records compare by size and answer 0 / 1: a chain stops on a falsy answer that is not False
            (2, lambda: ["cmp", self.rec_(0), [[r.choice(["<", "<=", ">", ">="]), self.rec2_()],
                                               [r.choice(["<", "<=", ">"]), self.pick([(2, lambda: ["attr", self.rec2_(), "child"]),
                                                                                       (1, lambda: ["call", ["name", "first"], [["attr", self.rec_(0), "items"]], []]),
                                                                                       (1, lambda: self.rec_(0))])()]]]),
        ]
        return self.pick(opts)()

    def rec2_(self):
        return self.name(self.rng.choice(REC_VARS))

    def truthy(self, d):
        return self.pick([(5, lambda: self.bool_(d)), (2, lambda: self.list_(d)), (2, lambda: self.int_(d)),
                          (1, lambda: self.name("opt")), (1, lambda: self.str_(d)), (1, lambda: self.name("d"))])()

    def comp_gens(self, d):
        r = self.rng
        gens = []
        for _ in range(r.choice([1, 1, 1, 2])):
            free = [v for v in LOOP_VARS if v not in [n for n, _ in self.loop_vars]]
            if r.random() < 0.1:      # a loop variable that shadows a name of the enclosing scopes
                free = [x for x in ("x", "y") if x not in [n for n, _ in self.loop_vars]] or free
            v = r.choice(free)
            it = self.iterable(d - 1)
            self.loop_vars.append((v, "int"))
            # 0-2 filters; a later filter may only be defined where an earlier one holds
            nifs = r.choice([0, 0, 0, 1, 1, 2])
            ifs = [self.bool_(d - 1) for _ in range(nifs)]
            if nifs == 2 and r.random() < 0.5:
                ifs = [["cmp", ["name", v], [["!=", ["const", 0]]]], ["cmp", ["call", ["name", "inv"], [["name", v]], []], [["<", self.int_(0)]]]]
            gens.append([[v], False, it, ifs])
        return gens

    def quantifier(self, d):
        r = self.rng
        if self.loop_depth >= 2:
            return self.bool_(0)
        saved = list(self.loop_vars)
        self.loop_depth += 1
        gens = self.comp_gens(d)
        elt = self.bool_(d - 1)
        self.loop_depth -= 1
        self.loop_vars = saved
        return ["call", ["name", r.choice(["all", "all", "all", "any"])], [["comp", "gen", elt, None, gens]], []]

    def iterable(self, d):
        return self.pick([(6, lambda: self.list_(d)), (1, lambda: ["tuple", [self.int_(0), self.int_(0)]]),
                          (1, lambda: self.gen_of_ints(d))])()

    def gen_of_ints(self, d):
        if d <= 0 or self.loop_depth >= 2:
            return self.list_(0)
        saved = list(self.loop_vars)
        self.loop_depth += 1
        gens = self.comp_gens(d)
        elt = self.int_(d - 1)
        self.loop_depth -= 1
        self.loop_vars = saved
        return ["comp", "gen", elt, None, gens]

    # ---- lists of ints
    def list_(self, d):
        r = self.rng
        leaf = [(6, lambda: self.name(r.choice(LIST_VARS))), (1, lambda: ["list", [["const", r.choice([0, 1, 5])] for _ in range(r.randint(0, 2))]])]
        if d <= 0:
            return self.pick(leaf)()
        opts = leaf + [
            (2, lambda: ["list", [self.int_(d - 1) for _ in range(r.randint(0, 3))]]),
            (3, lambda: self.listcomp(d)),
            (1, lambda: ["call", ["name", "sorted"], [self.iterable(d - 1)], r.choice([[], [["reverse", self.bool_(0)]]])]),
            (2, lambda: ["sub", self.list_(d - 1), ["slice", r.choice([None, self.int_(0)]), r.choice([None, self.int_(0)])]]),
            (1, lambda: ["bin", "+", self.list_(d - 1), self.list_(d - 1)]),
            (1, lambda: ["attr", self.rec_(d - 1), "items"]),
            (1, lambda: ["call", ["name", "list"], [self.iterable(d - 1)], []]),
            (1, lambda: ["bool", "or", [self.list_(d - 1), self.list_(d - 1)]]),
            (1, lambda: ["if", self.bool_(d - 1), self.list_(d - 1), self.list_(d - 1)]),
        ]
        return self.pick(opts)()

    def dict_(self, d):
        """a dictionary: the variable, or a display with items and unpacked mappings"""
        r = self.rng
        if d <= 0 or r.random() < 0.5:
            return self.name("d")
        items = []
        for _ in range(r.randint(1, 3)):
            if r.random() < 0.35:
                items.append([None, self.pick([(3, lambda: self.name("d")), (1, lambda: self.dict_(d - 1)),
                                               (1, lambda: self.name("opt"))])()])
            else:
                items.append([["const", r.choice(["a", "b", "zz"])], self.int_(d - 1)])
        return ["dict", items]

    def listcomp(self, d):
        if self.loop_depth >= 2:
            return self.list_(0)
        saved = list(self.loop_vars)
        self.loop_depth += 1
        gens = self.comp_gens(d)
        elt = self.int_(d - 1)
        self.loop_depth -= 1
        self.loop_vars = saved
        if self.rng.random() < 0.15:
            return ["call", ["name", "sorted"], [["comp", "dict", elt, self.int_(0), gens]], []]
        return ["comp", "list", elt, None, gens]

    # ---- strings
    def str_(self, d):
        r = self.rng
        leaf = [(3, lambda: self.name(r.choice(STR_VARS))), (2, lambda: ["const", r.choice(["", "a", "ab", "zz"])])]
        if d <= 0:
            return self.pick(leaf)()
        opts = leaf + [
            (3, lambda: self.fstring(d)),
            (1, lambda: ["call", ["name", r.choice(["str", "repr"])], [self.pick([(2, lambda: self.int_(d - 1)), (1, lambda: self.list_(d - 1)),
                                                                                 (1, lambda: self.name("r")), (1, lambda: self.name("opt"))])()], []]),
            (1, lambda: ["bin", "+", self.str_(d - 1), self.str_(d - 1)]),
            (1, lambda: ["attr", self.rec_(d - 1), "name"]),
            (1, lambda: ["sub", self.str_(d - 1), self.pick([(1, lambda: self.int_(0)), (1, lambda: ["slice", None, self.int_(0)])])()]),
        ]
        return self.pick(opts)()

    def fstring(self, d):
        r = self.rng
        parts = []
        for _ in range(r.randint(1, 3)):
            if r.random() < 0.4:
                parts.append(["lit", r.choice(["n=", " ", "v:", "-"])])
            else:
                parts.append(["fmt", self.pick([(3, lambda: self.int_(d - 1)), (1, lambda: self.str_(d - 1)), (1, lambda: self.list_(d - 1)),
                                                (1, lambda: self.bool_(d - 1))])(), r.choice(["", "", "r", "s"])])
        # two adjacent literals are one Constant for Python
        merged = []
        for p in parts:
            if merged and merged[-1][0] == "lit" and p[0] == "lit":
                merged[-1] = ["lit", merged[-1][1] + p[1]]
            else:
                merged.append(p)
        return ["fstr", merged]

    def rec_(self, d):
        if d > 0 and self.rng.random() < 0.2:
            return ["attr", self.name("r"), "child"]
        return self.name("r")


def names_in(tree, acc=None, bound=()):
    """free names of a tree"""
    acc = set() if acc is None else acc
    k = tree[0]
    if k == "name":
        if tree[1] not in bound:
            acc.add(tree[1])
        return acc
    if k == "comp":
        b = tuple(bound)
        for names, _tup, it, ifs in tree[4]:
            names_in(it, acc, b)
            b = b + tuple(names)
            for f in ifs:
                names_in(f, acc, b)
        names_in(tree[2], acc, b)
        if tree[3] is not None:
            names_in(tree[3], acc, b)
        return acc
    for c in X.children(tree):
        names_in(c, acc, bound)
    return acc


def rand_value(r, name):
    ints = [0, 0, 1, 2, 3, 5, 7, 10, -1, -4, 12]
    if name in INT_VARS:
        return r.choice(ints)
    if name in BOOL_VARS:
        return r.choice([True, False])
    if name in LIST_VARS:
        return [r.choice(ints) for _ in range(r.choice([0, 0, 1, 2, 3, 4]))]
    if name in STR_VARS:
        return r.choice(["", "a", "ab", "abc", "zz"])
    if name == "opt":
        return r.choice([None, None, 0, 4])
    if name == "d":
        return {"d": [[k, r.choice(ints)] for k in r.sample(["a", "b", "c"], r.randint(0, 3))]}
    if name in ("r", "q"):
        child = r.choice([None, {"rec": 2, "f": [["size", r.choice(ints)], ["items", []], ["name", "kid"], ["child", None]]}])
        return {"rec": 1 if name == "r" else 3, "f": [["size", r.choice(ints)], ["items", [r.choice(ints) for _ in range(r.randint(0, 3))]],
                                ["name", r.choice(["", "top"])], ["child", child]]}
    if name in ("tmp", "acc"):
        return r.choice(ints)
    raise ValueError(name)


def evaluate(tree, env):
    """generator-side evaluation by CPython: ("ok", truth) or ("raise", class)"""
    g = {"inv": inv, "first": first, "clamp": clamp, "pick": pick}
    g.update({k: to_py(v) for k, v in env.items()})
    try:
        return "ok", bool(eval(X.src(tree), g))
    except Exception as err:  # noqa: BLE001
        return "raise", type(err).__name__


def scope_quirk(tree):
    """CPython >= 3.12 inlines list/dict comprehensions into the enclosing function; a variable of such a
    comprehension that is also used freely by a generator expression (a nested function) becomes a cell of the lambda
    and no longer refers to the enclosing variable.  Such conditions are left out: they are a property of the
    interpreter, not of the library."""
    inlined, gen_free = set(), set()
    for n in X.subexprs(tree):
        if n[0] == "comp":
            if n[1] == "gen":
                gen_free |= names_in(n)
            else:
                for names, _t, _it, _ifs in n[4]:
                    inlined |= set(names)
    return bool(inlined & gen_free)


def make_case(r, tree, env, layout=0, nesting=0, description=None, placement=None, extra_args=None, kw_order=False,
              force=()):
    """Distribute the free names over condition parameters / closure / globals and build the call."""
    free = sorted(n for n in set(names_in(tree)) | set(force) if n in env or (n not in BUILTINS and n not in HELPERS))
    cond_params, closure, globs, cond_defaults = [], [], [], []
    # CPython >= 3.12 inlines list/dict comprehensions: their loop variable becomes a local of the lambda, so a
    # closure or global variable of the same name used elsewhere in the condition is no longer reachable
    # (UnboundLocalError when the condition itself runs).  Such names are parameters here (reading N9).
    inlined = set()
    for node in X.subexprs(tree):
        if node[0] == "comp" and node[1] != "gen":
            for names, _t, _it, _ifs in node[4]:
                inlined |= set(names)
    for n in free:
        if n in ("tmp", "acc") and n not in env:
            continue
        where = (placement or {}).get(n) or r.choice(["param", "param", "param", "closure", "global"])
        if n in inlined:
            where = "param"
        elif where == "param" and n in INT_VARS and placement is None and r.random() < 0.12:
            where = "default"
        if n in ("_ARGS", "_KWARGS"):
            where = "param"
        {"param": cond_params, "closure": closure, "global": globs, "default": cond_defaults}[where].append(n)
    func_params = [n for n in cond_params if n not in ("_ARGS", "_KWARGS")]
    # parameters of the condition with a default value which the decorated function does not have
    cond_params = cond_params + cond_defaults
    args = [[n, env[n]] for n in func_params]
    for n, v in (extra_args or []):
        if n not in func_params:
            func_params.append(n)
            args.append([n, v])
    if not func_params:
        func_params.append("unused")
        args.append(["unused", 0])
    # the same name bound in an outer scope as well, with another value: the inner binding must win
    known_types = set(INT_VARS + BOOL_VARS + LIST_VARS + STR_VARS + OPT_VARS + REC_VARS + DICT_VARS)
    decoy_closure, decoy_globals = [], []
    for n in cond_params:
        if n in known_types and r.random() < 0.12:
            (decoy_closure if r.random() < 0.4 else decoy_globals).append([n, rand_value(r, n)])
    for n in closure:
        if n in known_types and r.random() < 0.15:
            decoy_globals.append([n, rand_value(r, n)])
    case = {"tree": tree, "cond_params": cond_params, "func_params": func_params, "args": args,
            "closure": [[n, env[n]] for n in closure] + decoy_closure,
            "globals": [[n, env[n]] for n in globs] + decoy_globals + [[h, {"fn": h}] for h in HELPERS],
            "layout": layout, "nesting": nesting, "description": description,
            "cond_defaults": [[n, env[n]] for n in cond_defaults]}
    known = set(INT_VARS + BOOL_VARS + LIST_VARS + STR_VARS + OPT_VARS + REC_VARS + DICT_VARS)
    cnames = [n for n, _ in case["closure"]]
    if cnames and all(n in known for n in cnames) and r.random() < 0.35:
        # the same contract was violated before, while the enclosing scope held other values
        case["warmup_closure"] = [[n, rand_value(r, n)] for n in cnames]
    if kw_order:
        order = list(func_params)
        r.shuffle(order)
        case["kw_order"] = order
    return case


def full_kwargs(case):
    """resolved kwargs as the library builds them (with _ARGS and _KWARGS)"""
    if case.get("kw_order") is not None:
        a, k = [], [[n, dict(case["args"])[n]] for n in case["kw_order"]]
    else:
        a, k = [v for _, v in case["args"]], []
    return list(case["args"]) + [["_ARGS", {"t": a}], ["_KWARGS", {"d": k}]]


def gen_random(r, depth):
    for _ in range(200):
        g = G(r, depth)
        tree = g.bool_(depth) if r.random() < 0.8 else g.truthy(depth)
        if len(json.dumps(tree)) > 1600:
            continue
        free = names_in(tree)
        env = {n: rand_value(r, n) for n in sorted(free) if n not in BUILTINS and n not in HELPERS and n not in ("tmp", "acc")}
        if scope_quirk(tree):
            continue
        st, val = evaluate(tree, env)
        if st == "ok" and val:
            tree = ["un", "not", tree]
            st, val = evaluate(tree, env)
        if st == "raise" and r.random() < 0.9:
            continue
        extra = []
        if r.random() < 0.5:
            # arguments of the call that the condition does not take; some carry the name of a
            # closure/global variable the condition uses, one is a function
            pool = [n for n in env] + ["z", "cb"]
            for n in r.sample(pool, min(len(pool), r.randint(1, 2))):
                extra.append([n, {"fn": "inv"} if n == "cb" else (rand_value(r, n) if n in env else 7)])
        return make_case(r, tree, env, extra_args=extra, kw_order=r.random() < 0.3,
                         description=r.choice([None, None, "must hold"]))
    raise RuntimeError("generator could not produce a case")


# ------------------------------------------------------------------ directed shapes
def N(n):
    return ["name", n]


def K(v):
    return ["const", v]


def call(f, *args, **kw):
    return ["call", N(f), list(args), [[k, v] for k, v in kw.items()]]


def directed():
    """(label, tree, env, options) - the shapes the property texts name"""
    gen_v = lambda elt, it, ifs=(): ["comp", "gen", elt, None, [[["v"], False, it, list(ifs)]]]  # noqa: E731
    out = [
        # guards whose later operands are only defined when the earlier ones hold
        ("guard-and", ["bool", "and", [N("xs"), ["cmp", ["sub", N("xs"), K(0)], [[">", K(0)]]]]], {"xs": []}, {}),
        ("guard-or", ["un", "not", ["bool", "or", [["cmp", N("opt"), [["is", K(None)]]], ["cmp", ["call", N("inv"), [N("opt")], []], [[">", K(1000)]]]]]],
         {"opt": None}, {}),
        ("guard-chain", ["cmp", K(0), [["<", N("n")], ["<", ["bin", "//", K(10), N("n")]]]], {"n": 0}, {}),
        ("guard-len", ["bool", "and", [["cmp", call("len", N("xs")), [[">", K(0)]]], ["cmp", call("len", ["sub", N("xs"), K(0)]), [[">", K(0)]]]]],
         {"xs": []}, {}),
        ("guard-attr", ["bool", "and", [["cmp", ["attr", N("r"), "child"], [["is not", K(None)]]],
                                       ["cmp", ["attr", ["attr", N("r"), "child"], "size"], [[">", K(0)]]]]],
         {"r": {"rec": 1, "f": [["size", 1], ["items", []], ["name", ""], ["child", None]]}}, {}),
        ("guard-ifexp", ["if", N("xs"), ["cmp", ["sub", N("xs"), K(0)], [[">", K(0)]]], K(False)], {"xs": []}, {}),
        # a parameter of the condition with a default value, not an argument of the function
        ("cond-default", ["bool", "and", [["cmp", call("len", N("xs")), [[">=", N("n")]]], ["cmp", ["sub", N("xs"), K(0)], [[">", K(0)]]]]],
         {"xs": [], "n": 1}, {"placement": {"xs": "param", "n": "default"}}),
        # `or` nested inside a call; `and` returning an operand
        ("or-in-call", call("bool", ["bool", "or", [N("x"), N("y")]]), {"x": 0, "y": 0}, {}),
        ("or-in-len", ["cmp", call("len", ["bool", "or", [N("xs"), N("ys")]]), [[">", K(3)]]], {"xs": [], "ys": [1]}, {}),
        ("and-in-call", ["cmp", call("abs", ["bool", "and", [N("x"), N("y")]]), [[">", K(5)]]], {"x": 3, "y": -4}, {}),
        # arguments that are not parameters of the condition but carry the name of a global / closure variable
        ("shadow-global", ["cmp", call("abs", N("y")), [[">", ["bin", "*", N("x"), K(1000)]]]], {"x": 5, "y": 100},
         {"placement": {"x": "param", "y": "global"}, "extra_args": [["y", 1]]}),
        ("shadow-closure", ["cmp", N("k"), [["<", N("x")]]], {"x": 5, "k": 100},
         {"placement": {"x": "param", "k": "closure"}, "extra_args": [["k", 1]]}),
        # a name bound to None that is also the name of a builtin
        ("none-builtin", ["bool", "and", [["cmp", N("max"), [["is not", K(None)]]], ["cmp", N("x"), [["<", N("max")]]]]], {"x": 5, "max": None}, {}),
        ("none-builtin-shown", ["cmp", call("str", N("len")), [["==", K("x")]]], {"len": None}, {}),
        # star arguments
        ("star", ["cmp", call("max", ["star", N("xs")]), [[">", K(100)]]], {"xs": [1, 2]}, {}),
        ("star-kw", ["cmp", ["sub", ["call", N("pick"), [["star", N("xs")], N("x")], [[None, N("d")]]], K(0)], [[">", K(100)]]],
         {"xs": [1, 2], "x": 1, "d": {"d": [["a", 1]]}}, {}),
        # all() over a generator: first counterexample, and its value used by the enclosing expression
        ("all-first", call("all", gen_v(["cmp", N("v"), [[">", N("lim")]]], N("xs"))), {"xs": [5, 1, 7, 0], "lim": 2}, {"placement": {"lim": "closure"}}),
        ("all-two-loops", call("all", ["comp", "gen", ["cmp", N("v"), [["<", N("w")]]], None,
                                      [[["v"], False, N("xs"), []], [["w"], False, N("ys"), [["cmp", N("w"), [[">", K(0)]]]]]]]),
         {"xs": [1, 2], "ys": [0, 5, 2]}, {}),
        ("all-in-int", ["cmp", ["bin", "+", call("int", call("all", gen_v(["cmp", N("v"), [[">", K(0)]]], N("xs")))), N("n")], [[">", K(1)]]],
         {"xs": [1, -1], "n": 0}, {}),
        ("all-compared", ["cmp", call("all", gen_v(["cmp", N("v"), [[">", K(0)]]], N("xs"))), [["==", N("flag")]]], {"xs": [1, -1], "flag": True}, {}),
        # two filters on one clause, the second only defined where the first holds
        ("all-two-filters", call("all", gen_v(["cmp", N("v"), [[">", K(5)]]], N("xs"),
                                         ifs=[["cmp", N("v"), [["!=", K(0)]]], ["cmp", call("inv", N("v")), [["<", K(500)]]]])),
         {"xs": [0, 1, 7]}, {}),
        ("not-any", ["un", "not", call("any", gen_v(["cmp", N("v"), [["<", K(0)]]], N("xs")))], {"xs": [1, -1]}, {}),
        # a loop variable with the name of an outer variable
        ("loop-shadows-global", call("all", ["comp", "gen", ["cmp", N("x"), [[">", K(0)]]], None, [[["x"], False, N("xs"), []]]]),
         {"xs": [1, -1], "x": 5}, {"placement": {"x": "global"}, "force_env": ["x"]}),
        ("loop-shadows-param", ["cmp", call("len", ["comp", "list", N("x"), None, [[["x"], False, N("xs"), [["cmp", N("x"), [[">", K(0)]]]]]]]), [[">", N("x")]]],
         {"xs": [1, -1], "x": 5}, {}),
        # the iterable of a later clause uses the loop variable of an earlier one, which has the name of an outer variable
        ("later-iterable-shadows-param", call("all", ["comp", "gen", ["cmp", N("w"), [[">", K(0)]]], None,
                                                      [[["x"], False, N("xss"), []], [["w"], False, call("sorted", N("x")), []]]]),
         {"xss": [[1], [-1]], "x": [7]}, {"placement": {"x": "param", "xss": "param"}, "force_env": ["x"]}),
        ("later-iterable-shadows-param-list", ["cmp", call("len", ["comp", "list", N("w"), None,
                                                                   [[["x"], False, N("xss"), []], [["w"], False, call("sorted", N("x")), []]]]), [[">", K(5)]]],
         {"xss": [[1], [-1]], "x": [7]}, {"placement": {"x": "param", "xss": "param"}, "force_env": ["x"]}),
        # the text of a call occurs outside a comprehension and again inside one whose loop variable has the name of
        # its argument: same text, different values
        ("same-call-text-under-shadowing",
         ["bool", "and", [["cmp", call("abs", N("x")), [["<", K(100)]]],
                          call("all", ["comp", "gen", ["cmp", call("inv", call("abs", N("x"))), [[">", K(50)]]], None,
                                       [[["x"], False, N("xs"), []]]])]],
         {"xs": [1, 4], "x": -3}, {"placement": {"x": "param", "xs": "param"}, "force_env": ["x"]}),
        ("same-call-text-under-shadowing-list",
         ["cmp", ["bin", "+", call("abs", N("x")),
                  call("len", ["comp", "list", call("clamp", call("abs", N("x"))), None, [[["x"], False, N("xs"), []]]])],
          [[">", K(100)]]],
         {"xs": [-20, 4], "x": -3}, {"placement": {"x": "param", "xs": "param"}, "force_env": ["x"]}),
        # a parameter with the name of a built-in, used inside a comprehension: it is the parameter there too
        ("builtin-named-param-in-generator", call("all", gen_v(["cmp", N("v"), [["==", N("id")]]], N("xs"))),
         {"xs": [1, 2], "id": 1}, {"placement": {"id": "param", "xs": "param"}}),
        ("builtin-named-param-in-list",
         ["cmp", call("len", ["comp", "list", N("v"), None, [[["v"], False, N("xs"), [["cmp", N("v"), [["!=", N("hash")]]]]]]]), [[">", K(5)]]],
         {"xs": [1, 2, 1], "hash": 1}, {"placement": {"hash": "param", "xs": "param"}}),
        # an assignment expression that binds a function: left out of the message like any other name of a function
        ("det-named-function", ["bool", "and", [["un", "not", ["cmp", ["named", "tmp", N("cb")], [["is", K(None)]]]],
                                                ["cmp", N("x"), [[">", K(5)]]]]],
         {"cb": {"fn": "inv"}, "x": 1}, {"placement": {"cb": "param", "x": "param"}}),
        # a target name bound by two clauses (the throw-away name of tuple unpacking), several other loop variables
        ("det-repeated-target-names",
         call("all", ["comp", "gen", ["cmp", N("v"), [[">", K(0)]]], None,
                      [[["e", "w"], True, N("xss"), []], [["e", "v"], True, N("w"), []]]]),
         {"xss": [{"t": [1, [{"t": [5, 2]}, {"t": [6, -1]}]]}]}, {"placement": {"xss": "param"}}),
        # speculative evaluation inside a comprehension (the documented limitation, D12b)
        ("spec-elt", ["bool", "and", [call("all", gen_v(["cmp", ["bin", "//", K(10), N("n")], [[">", N("v")]]], N("xs"))), N("flag")]],
         {"xs": [], "n": 0, "flag": False}, {}),
        # a chain whose first comparison answers 0 (falsy, not False): Python stops there
        ("chain-falsy-not-False", ["cmp", N("r"), [["<", N("q")], ["<", ["call", N("first"), [["attr", N("q"), "items"]], []]]]],
         {"r": {"rec": 1, "f": [["size", 5], ["items", []], ["name", ""], ["child", None]]},
          "q": {"rec": 3, "f": [["size", 2], ["items", []], ["name", ""], ["child", None]]}}, {}),
        # conditional and assignment expressions, f-strings, displays, slices
        ("named", ["cmp", ["named", "tmp", ["bin", "+", N("x"), K(1)]], [[">", ["bin", "*", N("tmp"), K(2)]]]], {"x": 3}, {}),
        ("fstring", ["cmp", ["fstr", [["lit", "n="], ["fmt", N("x"), ""], ["fmt", N("s"), "r"]]], [["==", K("zz")]]], {"x": 3, "s": "a"}, {}),
        ("displays", ["cmp", ["tuple", [N("x"), ["list", [N("y")]]]], [["==", ["tuple", [K(1), ["list", [K(2)]]]]]]], {"x": 1, "y": 3}, {}),
        ("dict-display", ["cmp", ["sub", ["dict", [[K("a"), N("x")], [K("b"), N("y")]]], K("b")], [[">", K(5)]]], {"x": 1, "y": 3}, {}),
        # a dictionary display whose value uses a name its key binds (keys are evaluated before values)
        ("dict-key-binds", ["cmp", call("len", ["dict", [[["named", "tmp", ["bin", "+", N("x"), K(1)]], N("tmp")]]]), [["==", K(0)]]], {"x": 1}, {}),
        ("dict-key-binds-comp", ["cmp", call("len", ["dict", [[["named", "tmp", ["bin", "+", N("x"), K(1)]],
                                                             ["sub", ["comp", "list", N("tmp"), None, [[["v"], False, N("xs"), []]]], K(0)]]]]), [["==", K(0)]]],
         {"x": 1, "xs": [1]}, {}),
        # a mapping unpacked in a dictionary display; later items win
        ("dict-star", ["cmp", call("len", ["dict", [[None, N("d")], [K("a"), N("x")]]]), [["==", K(0)]]], {"d": {"d": [["b", 2]]}, "x": 1}, {}),
        ("dict-star-override", ["cmp", ["sub", ["dict", [[K("a"), N("x")], [None, N("d")]]], K("a")], [[">", K(5)]]],
         {"d": {"d": [["a", 2]]}, "x": 1}, {}),
        ("slice", ["cmp", call("sum", ["sub", N("xs"), ["slice", K(1), None]]), [[">", K(100)]]], {"xs": [1, 2, 3]}, {}),
        ("dictcomp", ["cmp", call("len", ["comp", "dict", N("v"), ["bin", "*", N("v"), N("x")], [[["v"], False, N("xs"), []]]]), [[">", K(5)]]],
         {"xs": [1, 2, 2], "x": 2}, {}),
        # _ARGS / _KWARGS named by the condition
        ("args-named", ["cmp", call("len", N("_ARGS")), [[">", K(5)]]], {}, {"extra_args": [["x", 1], ["y", 2]]}),
        ("kwargs-named", ["cmp", call("len", N("_KWARGS")), [[">", K(5)]]], {}, {"extra_args": [["x", 1], ["y", 2]], "kw_order": True}),
        ("kwargs-named-three", ["cmp", call("len", N("_KWARGS")), [[">", K(5)]]], {},
         {"extra_args": [["alpha", 3], ["beta", 2], ["gamma", 1]], "kw_order": True}),
        # a function passed as an argument, a generator as the value of the condition
        ("fn-arg", ["cmp", N("x"), [[">", K(5)]]], {"x": 1}, {"extra_args": [["cb", {"fn": "inv"}]]}),
    ]
    return out


def gen_directed(r):
    cases = []
    for label, tree, env, opts in directed():
        opts = dict(opts)
        opts["force"] = opts.pop("force_env", ())
        c = make_case(r, tree, dict(env), **opts)
        c["label"] = label
        cases.append(c)
    return cases


def gen_many(r, n, depth=4):
    out = gen_directed(r)
    while len(out) < n:
        out.append(gen_random(r, r.choice([2, 3, 3, depth])))
    return out[:max(n, len(directed()))]


LAYOUTS = 10


def gen_layouts(r, n):
    """the same kind of conditions under every layout of the decorator, nesting and description"""
    out = []
    base = gen_directed(r)[:8] + [gen_random(r, 2) for _ in range(max(0, n // (LAYOUTS * 2)))]
    for c in base:
        for layout in range(LAYOUTS):
            for nesting in (0, 1, 2):
                if r.random() < 0.5 and len(out) > 60:
                    continue
                d = json.loads(json.dumps(c))
                d["layout"], d["nesting"] = layout, nesting
                d["description"] = r.choice([None, "must hold"]) if layout != 9 else "gr\u00f6\u00dfer als null \u2013 \u00e9"
                out.append(d)
    return out[:n] if n < len(out) else out
