"""Implementation side of the C05 correspondence: runs real icontract (PYTHONPATH=/repo).

stdin: {"cases": [{"sig": {...}, "args": [tags], "kwargs": {name: tag}}]}
stdout: list of observations
  {"raw": resolved dict from icontract._checkers.kwargs_from_call (ordered list of pairs),
   "outcome": "ok" | exception class name, "env": what the body received (or null),
   "seen": what a condition asking for every name received (or null),
   "qq": outcome class of the call on a twin whose condition asks for the non-parameter "qq"}
"""
import json
import sys

import os
sys.path.insert(0, os.path.dirname(os.path.abspath(__file__)))

import icontract
import icontract._checkers

MISSING = "<missing>"


from sigutil import sig_text, all_names


CACHE = {}


def build(sig):
    key = json.dumps(sig, sort_keys=True)
    if key in CACHE:
        return CACHE[key]
    names = all_names(sig)
    named = [p["name"] for p in sig["posonly"] + sig["poskw"] + sig["kwonly"]]
    log = {}
    ns = {"icontract": icontract, "LOG": log, "MISSING": MISSING}
    cond_params = ", ".join("%s=MISSING" % n for n in named + ["_ARGS", "_KWARGS"])
    cond_dict = ", ".join("'%s': %s" % (n, n) for n in named + ["_ARGS", "_KWARGS"])
    body_dict = ", ".join("'%s': %s" % (n, n) for n in names)
    src = """
def cond(%(cp)s):
    LOG['seen'] = {%(cd)s}
    return True

def cond_qq(qq):
    LOG['qq_seen'] = qq
    return True

@icontract.require(cond)
def f(%(sig)s):
    LOG['env'] = {%(bd)s}
    return 0

@icontract.require(cond_qq)
def g(%(sig)s):
    return 0

def bare(%(sig)s):
    return {%(bd)s}
""" % {"cp": cond_params, "cd": cond_dict, "sig": sig_text(sig), "bd": body_dict}
    exec(compile(src, "<c05>", "exec"), ns)
    CACHE[key] = (ns, log, names)
    return CACHE[key]


def canon(v):
    if isinstance(v, tuple):
        return {"t": [canon(x) for x in v]}
    if isinstance(v, dict):
        return {"d": [[k, canon(x)] for k, x in v.items()]}
    return v


def main():
    payload = json.load(sys.stdin)
    out = []
    for case in payload["cases"]:
        sig = case["sig"]
        ns, log, names = build(sig)
        args = tuple(case["args"])
        kwargs = dict(case["kwargs"])
        obs = {}
        import inspect
        sign = inspect.signature(ns["bare"])
        raw = icontract._checkers.kwargs_from_call(
            param_names=list(sign.parameters.keys()),
            kwdefaults=icontract._checkers.resolve_kwdefaults(sign),
            args=args, kwargs=kwargs)
        obs["raw"] = [[k, canon(v)] for k, v in raw.items()]
        log.clear()
        try:
            ns["f"](*args, **kwargs)
            obs["outcome"] = "ok"
        except BaseException as err:  # noqa
            obs["outcome"] = type(err).__name__
        obs["env"] = [[k, canon(v)] for k, v in log["env"].items()] if "env" in log else None
        obs["seen"] = [[k, canon(v)] for k, v in log["seen"].items() if v != MISSING] if "seen" in log else None
        # reference: CPython itself on the undecorated twin
        try:
            env = ns["bare"](*args, **kwargs)
            obs["bare_env"] = [[k, canon(v)] for k, v in env.items()]
        except TypeError:
            obs["bare_env"] = None
        log.clear()
        try:
            ns["g"](*args, **kwargs)
            obs["qq"] = "ok"
        except BaseException as err:  # noqa
            obs["qq"] = type(err).__name__
            obs["qq_msg_names_qq"] = "qq" in str(err)
        obs["qq_seen"] = log.get("qq_seen", None)
        obs["qq_evaluated"] = "qq_seen" in log
        out.append(obs)
    json.dump(out, sys.stdout)


if __name__ == "__main__":
    main()
