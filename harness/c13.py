"""C13 - async callables get the same contract semantics as sync ones."""
import copy
import json
import random

import checker_cluster as K
import common as C
import gen_checker as G
import gen_run
import run_cluster as R

PROP = "C13"
CONE = sorted(set(K.MODEL_FILES + R.MODEL_FILES + ["Gen/Generated.v", "Proofs/SkeletonParity.v", "Proofs/CheckerFrame.v",
                                   "Proofs/CheckerDispatch.v", "Props/C13.v"]))
RULE = ("every generated case (function / method / static / class method; chains of 1-3 classes; conditions and "
        "captures that are plain, coroutine functions or return awaitables) is rendered twice: with `async def` and "
        "the original condition kinds, and with `def` and every coroutine condition/capture replaced by its plain "
        "twin; the two implementation traces must be equal (C13_awaited), each must equal the model, and the sync "
        "rendering with coroutine conditions must be rejected (C13_sync_rejects); seeded.")


def plainify(case):
    c = copy.deepcopy(case)
    c["async"] = False
    for lv in c["levels"]:
        for k in lv["pre"] + lv["post"]:
            k["kind"] = "plain"
        for s in lv["snaps"]:
            s["kind"] = "plain"
    return c


RULE_R = ("programs of coroutine functions and of classes with invariants and async methods that await each other - "
          "also methods of the same object, where the invariant wrapper steps aside - driven by hand: every operation shows "
          "the contract evaluations and outcomes of the model, which knows no difference between def and async def (spec_C11).")


def gen_async_programs(rng, n):
    cases = []
    while len(cases) < n:
        g = gen_run.GenRun(rng, is_async=True, faults=0.1, awaits=0.5)
        c = g.case()
        if gen_run.small_enough(c):
            cases.append(c)
    return cases


def run(tier, replay=None):
    out, build, problems = K.begin(PROP, tier, CONE, "Props/C13.v")
    if not build.ok_for(K.MODEL_FILES):
        out.violation("the executable model does not build", {"problems": problems}, found_input=False)
        return out.finish()
    is_run_replay = bool(replay) and "prog" in json.load(open(replay)).get("case", {})
    if not replay or is_run_replay:
        R.run_into(out, build, problems, PROP, tier, "spec_C11", gen_async_programs, 300, 6000, RULE_R, replay=replay)
    if is_run_replay:
        return out.finish()
    run_cov = dict(out.coverage)
    rng = random.Random(C.seed() * 31337 + 13)
    n = 500 if tier == "quick" else 10000
    g = G.Gen(rng)
    kinds = sorted(G.ASYNC_OK)
    if replay:
        base = [json.load(open(replay))["case"]]
    else:
        base = [g.case(kind=kinds[i % len(kinds)], is_async=True) for i in range(n)]
    a_cases = base
    s_cases = [plainify(c) for c in base]
    r_cases = []                      # sync callable with the coroutine conditions left in: must be rejected
    for c in base:
        d = copy.deepcopy(c)
        d["async"] = False
        r_cases.append(d)
    obs = K.observe(a_cases + s_cases + r_cases)
    oa, os_, orj = obs[:len(base)], obs[len(base):2 * len(base)], obs[2 * len(base):]
    terms = []
    for ca, cs, cr, a, s, r in zip(a_cases, s_cases, r_cases, oa, os_, orj):
        if any("defn_error" in x for x in (a, s, r)):
            terms.append("[2; 2; 2; 2]%Z")
            continue
        terms.append("(let oa := %s in let os := %s in let orj := %s in "
                     "[if obs_eqb oa os then 0 else 1; if obs_eqb (run_case %s) oa then 0 else 1; "
                     "if obs_eqb (run_case %s) os then 0 else 1; if obs_eqb (run_case %s) orj then 0 else 1])%%Z"
                     % (G.cq_obs(a), G.cq_obs(s), G.cq_obs(r), G.cq_case(ca), G.cq_case(cs), G.cq_case(cr)))
    codes = C.coq_eval_lists(K.HEADER, terms, name="c13", chunk=80)
    parity_fail, disagree = [], []
    ncoro = 0
    distinct = set()
    for c, a, s, code in zip(base, oa, os_, codes):
        if any(k["kind"] != "plain" for lv in c["levels"] for k in lv["pre"] + lv["post"] + lv["snaps"]):
            ncoro += 1
        distinct.add(json.dumps([a.get("events"), a.get("outcome")]))
        if code[0]:
            parity_fail.append((c, a, s))
        if any(code[1:]):
            disagree.append((c, a, s))
    import render_checker
    for c, a, s in parity_fail[:2]:
        out.violation("the async rendering and its sync twin show different evaluations or outcomes",
                      {"case": c, "async_observation": a, "sync_observation": s,
                       "script_async": render_checker.render_case(0, c),
                       "script_sync": render_checker.render_case(0, plainify(c))})
    if (problems or disagree) and not out.violations:
        what = "; ".join(problems + (["model and implementation disagree on %d cases" % len(disagree)] if disagree else []))
        payload = {"no_longer_checks": problems or ["correspondence Model/Checker.v <-> async/sync wrappers"]}
        if disagree:
            payload.update({"case": disagree[0][0], "async_observation": disagree[0][1], "sync_observation": disagree[0][2]})
        out.violation(what, payload, found_input=False)
    out.coverage.update({
        "evaluations": 3 * len(base), "distinct_nontrivial": len(distinct), "rule": RULE,
        "samples": [{"kind": c["kind"], "async_events": [e[:3] for e in a.get("events", [])], "outcome": a.get("outcome")}
                    for c, a in list(zip(base, oa))[:2]],
        "pairs": len(base), "pairs_with_coroutine_conditions": ncoro, "traces_validated_against_impl": 3 * len(base),
        "parity_failures": len(parity_fail), "disagreements": len(disagree),
        "async_programs_of_the_run_cluster": {k: run_cov.get(k) for k in ("evaluations", "distinct_nontrivial", "rule") if k in run_cov}})
    return out.finish()
