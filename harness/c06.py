"""C06 - every value shown in a violation message is the value Python computes."""
import expr_cluster as K
import gen_expr as G

PROP = "C06"
CONE = K.MODEL_FILES + ["Proofs/ExprRefine.v", "Proofs/ExprCorollaries.v", "Proofs/ExprRange.v", "Proofs/ExprSound.v",
                        "Proofs/MessageProofs.v", "Props/C06.v"]
RULE = ("directed shapes first (guards, `or` inside calls, shadowing arguments, names bound to None, star arguments, "
        "all() with one and two loops and used inside other expressions, loop variables shadowing outer names, "
        "assignment and conditional expressions, f-strings, displays, slices, dict comprehensions, _ARGS/_KWARGS), then "
        "typed random conditions of depth 2-4 (thorough 2-5) over ints, bools, strings, lists, records, dicts, optional "
        "values, builtins and four module-level functions; boolean operators nested inside calls, comparisons and "
        "conditionals; names spread over condition parameters / closure / globals; extra call arguments, some named like a "
        "closure or global variable, some functions; positional and shuffled keyword calls; the environment is random with a "
        "bias to 0, empty and None, and the condition is negated when truthy so that nearly every case is a violation. "
        "Non-trivial: the call ends in ViolationError or RuntimeError; distinct = distinct (expression, lines, outcome).")


def gen(rng, tier):
    return G.gen_many(rng, 1200 if tier == "quick" else 30000, depth=4 if tier == "quick" else 5)


def run(tier, replay=None):
    return K.run(PROP, tier, CONE, "Props/C06.v", gen, RULE, replay=replay)
