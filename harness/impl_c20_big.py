"""C20, bounds: very large values under the default repr and under a user-supplied one with small limits."""
import json
import reprlib
import sys
import warnings

warnings.simplefilter("ignore")
import icontract  # noqa: E402
import icontract._globals  # noqa: E402


class Wrapping(reprlib.Repr):
    """renders with the limits of `base` and remembers what it rendered"""

    def __init__(self, base):
        reprlib.Repr.__init__(self)
        for k, v in vars(base).items():
            setattr(self, k, v)
        self.made = []

    def repr(self, x):
        s = reprlib.Repr.repr(self, x)
        self.made.append(s)
        return s


def small():
    r = reprlib.Repr()
    r.maxlist = r.maxtuple = r.maxdict = r.maxset = 3
    r.maxstring = 12
    r.maxother = 20
    r.maxlong = 10
    r.maxlevel = 2
    return r


def bound(r, depth):
    """an upper bound on the length of r.repr(x) for a value nested `depth` deep, from the limits of r alone"""
    b = max(r.maxstring, r.maxother, r.maxlong) + 4
    n = max(r.maxlist, r.maxtuple, r.maxdict, r.maxset, r.maxfrozenset, r.maxdeque, r.maxarray)
    for _ in range(min(depth, r.maxlevel)):
        b = n * (2 * b + 4) + 16
    return b


DEPTH = {"lst": 1, "txt": 0, "dct": 1, "nested": 3, "tup": 1, "num": 0, "st": 1, "len(lst)": 0}
BIG = {
    "lst": list(range(5000)),
    "txt": "x" * 100000,
    "dct": {i: str(i) * 5 for i in range(3000)},
    "nested": [[list(range(100)) for _ in range(100)] for _ in range(20)],
    "tup": tuple(range(4000)),
    "num": 10 ** 400,
    "st": set(range(3000)),
}


def main():
    json.load(sys.stdin)
    failures = []
    summary = {}
    for label, base in (("default", icontract._globals.aRepr), ("user-supplied small", small())):
        rr = Wrapping(base)
        other = Wrapping(small())

        @icontract.require(lambda lst: len(lst) < 10, a_repr=rr)
        @icontract.require(lambda txt: True, a_repr=other)
        def f(lst, txt, dct, nested, tup, num, st):
            return None
        try:
            f(**BIG)
            failures.append({"what": "no violation", "repr": label})
            continue
        except icontract.ViolationError as err:
            msg = str(err)
        lines = msg.split("\n")[2:]
        expected_keys = ["dct", "len(lst)", "lst", "nested", "num", "st", "tup", "txt"]
        keys = [ln.split(" was ")[0] for ln in lines]
        if keys != expected_keys:
            failures.append({"what": "lines %r" % keys, "repr": label, "message": msg[:2000]})
            continue
        longest = 0
        for ln, made in zip(lines, rr.made):
            key = ln.split(" was ")[0]
            if ln != "%s was %s" % (key, made):
                failures.append({"what": "line for %s is not the rendering of the contract's own repr" % key, "repr": label,
                                 "line": ln[:300], "rendering": made[:300]})
            longest = max(longest, len(made))
            limit = bound(base, DEPTH[key])
            if len(made) > limit:
                failures.append({"what": "rendering of %s has %d characters (limit for this repr: %d)" % (key, len(made), limit),
                                 "repr": label})
        if other.made:
            failures.append({"what": "the repr of a neighbouring, satisfied contract was used", "repr": label})
        summary[label] = {"lines": len(lines), "longest_rendering": longest, "message_length": len(msg)}
    # the limits of a repr are tightened *after* the contracts were declared (an application that configures
    # icontract.aRepr, or its own Repr, at start-up after its modules were imported): they apply all the same
    for label, make in (("default, tightened later", lambda: icontract._globals.aRepr),
                        ("user-supplied, tightened later", lambda: reprlib.Repr())):
        rr = make()
        saved = dict(vars(rr))
        try:
            kw = {} if rr is icontract._globals.aRepr else {"a_repr": rr}

            @icontract.require(lambda lst: len(lst) < 10, **kw)
            def g(lst, txt, dct, nested, tup, num, st):
                return None
            for k, v in vars(small()).items():
                setattr(rr, k, v)
            try:
                g(**BIG)
                failures.append({"what": "no violation", "repr": label})
                continue
            except icontract.ViolationError as err:
                msg = str(err)
            now = small()
            values = dict(BIG)
            values["len(lst)"] = len(BIG["lst"])
            for ln in msg.split("\n")[2:]:
                key = ln.split(" was ")[0]
                if key in values and ln != "%s was %s" % (key, now.repr(values[key])):
                    failures.append({"what": "line for %s does not obey the limits the repr has at the time of the violation" % key,
                                     "repr": label, "line": ln[:200], "expected": ("%s was %s" % (key, now.repr(values[key])))[:200]})
            summary[label] = {"message_length": len(msg)}
        finally:
            for k, v in saved.items():
                setattr(rr, k, v)
    json.dump({"failures": failures, "summary": summary}, sys.stdout)


if __name__ == "__main__":
    main()
