"""Implementation side of the expression cluster (C06, C07, C20).

For every case: the condition is written as a lambda into a decorator in a real file; the function is
called with arguments that (usually) make it falsy.  Observed: the exception class at the caller, the
value lines of the message with the *objects* handed to the contract's a_repr (a recording Repr), the
library's Visitor.recomputed_values, and - independently of the library - what CPython itself computes
for every sub-expression (the same expression with each node wrapped in a recording call)."""
import ast
import asyncio  # noqa: F401
import importlib.util
import json
import os
import re
import reprlib
import sys
import types
import warnings

sys.path.insert(0, os.path.dirname(os.path.abspath(__file__)))
warnings.simplefilter("ignore")

import exprlang as X  # noqa: E402
import icontract  # noqa: E402
import icontract._recompute  # noqa: E402

PRELUDE = '''import icontract


class ArrayLike:
    """As a numpy array: == is element-wise and its result has no truth value.  One lives among the globals of the
    module that declares the contracts; no condition uses it - it must not matter to anybody."""

    def __init__(self, xs):
        self.xs = list(xs)

    def __eq__(self, other):
        return ArrayLike([x == other for x in self.xs])

    def __ne__(self, other):
        return ArrayLike([x != other for x in self.xs])

    __hash__ = None

    def __bool__(self):
        raise ValueError("The truth value of an array with more than one element is ambiguous.")


ICV_BYSTANDER = ArrayLike([1, 2, 3])


class Rec:
    def __init__(self, tag, fields):
        self._tag = tag
        self._fields = tuple(n for n, _ in fields)
        for n, v in fields:
            setattr(self, n, v)

    def __repr__(self):
        return "Rec(%d)" % self._tag

    def __eq__(self, other):
        return (isinstance(other, Rec) and self._tag == other._tag and self._fields == other._fields
                and all(getattr(self, n) == getattr(other, n) for n in self._fields))

    def __hash__(self):
        return hash(self._tag)

    # ordered by size; the answer is 0 / 1, not False / True
    def __lt__(self, other):
        return int(self.size < other.size) if isinstance(other, Rec) else NotImplemented

    def __le__(self, other):
        return int(self.size <= other.size) if isinstance(other, Rec) else NotImplemented

    def __gt__(self, other):
        return int(self.size > other.size) if isinstance(other, Rec) else NotImplemented

    def __ge__(self, other):
        return int(self.size >= other.size) if isinstance(other, Rec) else NotImplemented


def inv(n):
    return 100 // n


def first(xs):
    return xs[0]


def clamp(x, lo=0, hi=10):
    return max(lo, min(x, hi))


def pick(*args, **kw):
    return (len(args), sorted(kw))


def foreign(f):
    import functools

    @functools.wraps(f)
    def w(*a, **k):
        return f(*a, **k)
    return w


'''
HELPERS = ("inv", "first", "clamp", "pick")


class RecordingRepr(reprlib.Repr):
    def __init__(self):
        reprlib.Repr.__init__(self)
        self.seen = []

    def repr(self, x):
        self.seen.append(x)
        return "\x00%d\x00" % (len(self.seen) - 1)


# ------------------------------------------------------------------ values
def to_py(v, mod):
    if v is None or isinstance(v, (bool, int, str)):
        return v
    if isinstance(v, list):
        return [to_py(x, mod) for x in v]
    if "t" in v:
        return tuple(to_py(x, mod) for x in v["t"])
    if "d" in v:
        return {to_py(a, mod): to_py(b, mod) for a, b in v["d"]}
    if "rec" in v:
        return mod.Rec(v["rec"], [(n, to_py(x, mod)) for n, x in v["f"]])
    if "fn" in v:
        import builtins
        return getattr(mod, v["fn"]) if hasattr(mod, v["fn"]) else getattr(builtins, v["fn"])
    raise ValueError(v)


def canon(x):
    if x is None or isinstance(x, (bool, int, str)):
        return x
    if isinstance(x, list):
        return [canon(y) for y in x]
    if isinstance(x, tuple):
        return {"t": [canon(y) for y in x]}
    if isinstance(x, dict):
        return {"d": [[canon(a), canon(b)] for a, b in x.items()]}
    if type(x).__name__ == "Rec" and hasattr(x, "_tag"):
        return {"rec": x._tag, "f": [[n, canon(getattr(x, n))] for n in x._fields]}
    if isinstance(x, types.GeneratorType):
        return {"gen": 1}
    if isinstance(x, icontract._recompute.FirstExceptionInAll):
        return {"allfail": [[n, canon(v)] for n, v in x.inputs]}
    if isinstance(x, icontract._recompute.Placeholder):
        return {"ph": 1}
    if isinstance(x, slice):
        return {"slice": [canon(x.start), canon(x.stop)]}
    if callable(x) and hasattr(x, "__name__"):
        return {"fn": x.__name__}
    return {"other": repr(x)[:80]}


# ------------------------------------------------------------------ layouts of the decorator (C07)
def decorator_text(case, i, ind):
    defaults = dict((n, v) for n, v in case.get("cond_defaults", []))
    plist = ", ".join(("%s=%r" % (n, defaults[n])) if n in defaults else n for n in case["cond_params"])
    lam = "lambda %s: %s" % (plist, X.src(case["tree"]))
    desc = case.get("description")
    layout = case.get("layout", 0)
    extra = ", a_repr=REPRS[%d]" % i
    if desc is not None:
        extra = ", %r" % desc + extra if layout in (0, 1, 2, 5, 6) else ", description=%r" % desc + extra
    if layout == 0:      # one line
        return ["%s@icontract.require(%s%s)" % (ind, lam, extra)]
    if layout == 1:      # many lines, condition on its own line
        return ["%s@icontract.require(" % ind, "%s    %s%s" % (ind, lam, extra), "%s)" % ind]
    if layout == 2:      # comment between, closing parenthesis on the last line
        return ["%s@icontract.require(  # a comment" % ind, "%s    %s%s)" % (ind, lam, extra)]
    if layout == 3:      # keyword form
        return ["%s@icontract.require(condition=%s%s)" % (ind, lam, extra)]
    if layout == 4:      # keyword form over many lines, keyword after a comment line
        return ["%s@icontract.require(" % ind, "%s    # the condition" % ind, "%s    condition=%s%s" % (ind, lam, extra),
                "%s)" % ind]
    if layout == 5:      # the lambda body continues on the next line
        return ["%s@icontract.require(lambda %s:" % (ind, plist),
                "%s                   %s%s)" % (ind, X.src(case["tree"]), extra)]
    if layout == 6:      # neighbouring decorators of other kinds above and below
        return ["%s@icontract.ensure(lambda result: True)" % ind, "%s@foreign" % ind,
                "%s@icontract.require(%s%s)" % (ind, lam, extra), "%s@icontract.require(lambda: True)" % ind]
    if layout in (7, 8):  # arguments on lines of their own; one line starts with a name that begins like a keyword
        name = "default_description" if layout == 7 else "classified_as"
        return ["%s%s = %r" % (ind, name, desc),
                "%s@icontract.require(" % ind, "%s    %s," % (ind, lam), "%s    %s," % (ind, name),
                "%s    a_repr=REPRS[%d])" % (ind, i)]
    if layout == 9:       # keyword form, the description - with characters outside ASCII - before the condition on one line
        return ["%s@icontract.require(description=%r, condition=%s, a_repr=REPRS[%d])" % (ind, desc, lam, i)]
    raise ValueError(layout)


# every contract of the module with enabled=True spelled out (the decorators are the library's own; the name
# `icontract` of the module is bound to a namespace whose four decorators pass enabled=True along)
FORCE_ENABLED = '''import functools as _functools
import types as _types
_icontract = icontract
icontract = _types.SimpleNamespace(**{n: getattr(_icontract, n) for n in dir(_icontract) if not n.startswith("__")})
for _n in ("require", "ensure", "snapshot", "invariant"):
    setattr(icontract, _n, _functools.partial(getattr(_icontract, _n), enabled=True))
'''


def render_module(cases, force_enabled=False):
    L = [PRELUDE, FORCE_ENABLED if force_enabled else "", "REPRS = {}", ""]
    for i, case in enumerate(cases):
        closure = [n for n, _ in case["closure"]]
        nesting = case.get("nesting", 0)     # 0: function in a factory, 1: method of a class in the factory, 2: async
        L.append("def make_%d(%s):" % (i, ", ".join(closure)))
        if closure:
            # the enclosing scope can re-bind the variables between two calls
            L.append("    def icv_set(%s):" % ", ".join(n + "_" for n in closure))
            L.append("        nonlocal %s" % ", ".join(closure))
            for n in closure:
                L.append("        %s = %s_" % (n, n))
        else:
            L.append("    icv_set = None")
        ind = "    "
        if nesting == 1:
            L.append("    class K:")
            ind = "        "
        L += decorator_text(case, i, ind)
        params = list(case["func_params"])
        if nesting == 1:
            params = ["self"] + params
        L.append("%s%sdef f(%s):" % (ind, "async " if nesting == 2 else "", ", ".join(params)))
        L.append("%s    return None" % ind)
        L.append("    return K().f, icv_set" if nesting == 1 else "    return f, icv_set")
        L.append("")
    return "\n".join(L)


# ------------------------------------------------------------------ CPython, instrumented
class Wrap(ast.NodeTransformer):
    def __init__(self, index_of_node):
        self.index_of_node = index_of_node

    def generic_visit(self, node):
        return node

    def visit(self, node):
        if isinstance(node, (ast.ListComp, ast.DictComp, ast.GeneratorExp)):
            # the parts are instrumented too: their values (one per iteration) go to the inner log
            if isinstance(node, ast.DictComp):
                node.key = self.visit(node.key)
                node.value = self.visit(node.value)
            else:
                node.elt = self.visit(node.elt)
            for gen in node.generators:
                gen.iter = self.visit(gen.iter)
                gen.ifs = [self.visit(x) for x in gen.ifs]
            return node if isinstance(node, ast.GeneratorExp) else self.rec(node, node)
        if isinstance(node, ast.Starred):
            node.value = self.visit(node.value)
            return node
        if isinstance(node, ast.Slice):
            if node.lower is not None:
                node.lower = self.visit(node.lower)
            if node.upper is not None:
                node.upper = self.visit(node.upper)
            return node
        if isinstance(node, ast.keyword):
            node.value = self.visit(node.value)
            return node
        if isinstance(node, ast.FormattedValue):
            node.value = self.visit(node.value)
            return node
        if isinstance(node, ast.NamedExpr):
            node.value = self.visit(node.value)
            return self.rec(node, node)
        if not isinstance(node, ast.expr):
            return node
        original = node
        for field, value in ast.iter_fields(node):
            if isinstance(value, list):
                setattr(node, field, [self.visit(v) if isinstance(v, ast.AST) else v for v in value])
            elif isinstance(value, ast.AST) and not isinstance(value, (ast.expr_context, ast.operator, ast.unaryop,
                                                                          ast.boolop, ast.cmpop)):
                setattr(node, field, self.visit(value))
        return self.rec(original, node)

    def rec(self, original, node):
        idx = self.index_of_node.get(id(original))
        if idx is None:
            return node
        return ast.Call(func=ast.Name(id="__icv_rec__", ctx=ast.Load()), args=[ast.Constant(idx), node], keywords=[])


def node_index_map(tree_from_ast, pairs):
    """id(ast node) -> number of the node (position in the pre-order listing) for a tree made by from_ast"""
    pos = {id(s): i for i, s in enumerate(X.subexprs(tree_from_ast))}
    return {id(n): pos[id(t)] for t, n in pairs if id(t) in pos}


def python_run(case, mod, env_params, env_closure, env_globals):
    """What CPython computes: (truth or None, log [(index, value)], exception class or None)"""
    source = X.src(case["tree"])
    body = ast.parse(source, mode="eval").body
    pairs = []
    t = X.from_ast(body, pairs)
    if json.dumps(t) != json.dumps(case["tree"]):
        raise RuntimeError("renderer/parser mismatch:\n%s\n%s\n%s" % (source, json.dumps(t), json.dumps(case["tree"])))
    idx = node_index_map(t, pairs)
    new_body = Wrap(idx).visit(body)
    names = list(case["cond_params"]) + [n for n, _ in case["closure"] if n not in case["cond_params"]]
    fdef = ast.FunctionDef(name="__icv_f", args=ast.arguments(posonlyargs=[], args=[ast.arg(arg=n) for n in names],
                                                                kwonlyargs=[], kw_defaults=[], defaults=[]),
                           body=[ast.Return(new_body)], decorator_list=[])
    module = ast.Module(body=[fdef], type_ignores=[])
    ast.fix_missing_locations(module)
    log = []

    def rec(i, v):
        log.append([i, canon(v)])
        return v
    g = dict(mod.__dict__)
    g.update(env_globals)
    g["__icv_rec__"] = rec
    exec(compile(module, "<icv>", "exec"), g)
    values = dict(env_closure)
    values.update(env_params)
    # nodes inside the scope of a comprehension
    listing = X.subexprs(t)
    inner = set()
    for i, s in enumerate(listing):
        if s[0] == "comp":
            inner.update(range(i + 1, i + len(X.subexprs(s))))

    def split():
        return [e for e in log if e[0] not in inner], [e for e in log if e[0] in inner]
    try:
        v = g["__icv_f"](*[values[n] for n in names])
        if hasattr(v, "__next__"):
            v = True                  # a generator object: truthy, not consumed
        outer, inn = split()
        return bool(v), outer, None, inn
    except Exception as err:  # noqa: BLE001
        outer, inn = split()
        return None, outer, type(err).__name__, inn


# ------------------------------------------------------------------ message parsing
TOKEN = re.compile("\x00(\\d+)\x00")


def parse_message(msg, description, seen):
    """-> (condition text, [(key, value-json)]) ; values are the objects handed to a_repr"""
    nl = msg.find(":\n")
    rest = msg[nl + 2:] if msg.startswith("File ") and nl >= 0 else msg
    if description is not None and rest.startswith(description + ": "):
        rest = rest[len(description) + 2:]
    m = TOKEN.search(rest)
    if m is None:
        return rest, []
    was = rest.rfind(" was ", 0, m.start() + 1)
    # candidates for the separator between the condition text and the first value line
    cands = [k for k in range(was) if rest.startswith(": ", k) or rest.startswith(":\n", k)]
    for k in reversed(cands):
        text = rest[:k]
        try:
            node = ast.parse("(%s)" % text.strip(), mode="eval").body
        except SyntaxError:
            continue
        if not isinstance(node, ast.Lambda):
            break
    else:
        return None, []
    section = rest[k + 2:]
    lines = []
    cur = None
    for ln in section.split("\n"):
        if ln.endswith(" was False, e.g., with"):
            cur = [ln[:-len(" was False, e.g., with")], {"allfail": []}]
            lines.append(cur)
            continue
        mm = re.match("^  (\\w+) = \x00(\\d+)\x00$", ln)
        if mm and cur is not None:
            cur[1]["allfail"].append([mm.group(1), canon(seen[int(mm.group(2))])])
            continue
        cur = None
        mm = re.match("^(.*) was \x00(\\d+)\x00$", ln, flags=re.S)
        if mm:
            lines.append([mm.group(1), canon(seen[int(mm.group(2))])])
        else:
            lines.append([ln, {"other": "unparsed line"}])
    return text.strip(), lines


# ------------------------------------------------------------------ main
LAST = []
_orig_init = icontract._recompute.Visitor.__init__
_orig_visit = icontract._recompute.Visitor.visit


def _init(self, *a, **k):
    _orig_init(self, *a, **k)
    self._icv_root = None
    LAST.append(self)


def _visit(self, node):
    if getattr(self, "_icv_root", None) is None:
        self._icv_root = node
    return _orig_visit(self, node)


icontract._recompute.Visitor.__init__ = _init
icontract._recompute.Visitor.visit = _visit


def run_case(i, case, mod, plain):
    env_params_all = {n: to_py(v, mod) for n, v in case["args"]}
    env_closure = {n: to_py(v, mod) for n, v in case["closure"]}
    env_globals = {n: to_py(v, mod) for n, v in case["globals"]}
    order = case.get("kw_order")
    if order is not None:
        env_params_all["_ARGS"], env_params_all["_KWARGS"] = (), {n: env_params_all[n] for n in order}
    else:
        env_params_all["_ARGS"], env_params_all["_KWARGS"] = tuple(env_params_all[n] for n in case["func_params"]), {}
    for n, v in case.get("cond_defaults", []):
        env_params_all.setdefault(n, to_py(v, mod))
    cond_env = {n: env_params_all[n] for n in case["cond_params"]}
    saved = {n: mod.__dict__[n] for n in env_globals if n in mod.__dict__}
    mod.__dict__.update(env_globals)
    obs = {}
    try:
        truth, pylog, pyexc, pyinner = python_run(case, mod, cond_env, env_closure, env_globals)
        obs.update({"pytruth": truth, "pylog": pylog, "pyexc": pyexc, "pyinner": pyinner[:400]})
        rr = None if plain else RecordingRepr()
        if rr is not None:
            mod.REPRS[i] = rr
        else:
            mod.REPRS[i] = icontract._globals.aRepr
        warm = case.get("warmup_closure")
        if warm:
            # an earlier violation of the same contract, with other values in the enclosing scope
            f, icv_set = getattr(mod, "make_%d" % i)(*[to_py(v, mod) for _, v in warm])
            try:
                r0 = f(*[env_params_all[n] for n in case["func_params"]])
                if case.get("nesting") == 2:
                    asyncio.run(r0)
            except Exception:  # noqa: BLE001
                pass
            icv_set(*[env_closure[n] for n, _ in case["closure"]])
            if rr is not None:
                del rr.seen[:]
        else:
            f, icv_set = getattr(mod, "make_%d" % i)(*[env_closure[n] for n, _ in case["closure"]])
        del LAST[:]
        try:
            if order is not None:
                r = f(**{n: env_params_all[n] for n in order})
            else:
                r = f(*[env_params_all[n] for n in case["func_params"]])
            if case.get("nesting") == 2:
                r = asyncio.run(r)
            obs["outcome"] = 2
        except icontract.ViolationError as err:
            obs["outcome"] = 0
            obs["message"] = str(err)
        except RuntimeError as err:
            obs["outcome"] = 1 if "Failed to recompute" in str(err) else 4
            obs["message"] = str(err)        # in full: the determinism check normalises the location before comparing
            obs["cause"] = type(err.__cause__).__name__ if err.__cause__ is not None else None
        except Exception as err:  # noqa: BLE001
            obs["outcome"] = 3 if pyexc == type(err).__name__ else 4
            obs["message"] = "%s: %s" % (type(err).__name__, str(err)[:300])
        if plain:
            return obs
        obs["lines"], obs["text_ok"], obs["recorded"] = [], True, []
        if obs["outcome"] == 0:
            text, lines = parse_message(obs["message"], case.get("description"), rr.seen)
            obs["lines"] = lines
            obs["text"] = text
            ok = False
            if text is not None:
                try:
                    body = ast.parse("(%s)" % text, mode="eval").body
                    ok = json.dumps(X.from_ast(body, [])) == json.dumps(case["tree"])
                except (SyntaxError, ValueError):
                    ok = False
            desc = case.get("description")
            head_ok = obs["message"].startswith("File ") and (desc is None or (": \n" not in obs["message"] and
                                                                                 ("\n%s: " % desc) in obs["message"]))
            obs["text_ok"] = bool(ok and head_ok)
            obs["message"] = TOKEN.sub("<v>", obs["message"])
            if LAST and LAST[-1]._icv_root is not None:
                vis = LAST[-1]
                pairs = []
                try:
                    t = X.from_ast(vis._icv_root, pairs)
                    if json.dumps(t) == json.dumps(case["tree"]):
                        idx = node_index_map(t, pairs)
                        for node, value in vis.recomputed_values.items():
                            if id(node) in idx:
                                obs["recorded"].append([idx[id(node)], canon(value)])
                    else:
                        obs["text_ok"] = False
                except ValueError:
                    obs["text_ok"] = False
        return obs
    finally:
        for n in env_globals:
            if n in saved:
                mod.__dict__[n] = saved[n]
            else:
                mod.__dict__.pop(n, None)


def texts_of(case):
    """asttokens' text of every node of the tree in pre-order (what the library itself will use)"""
    import asttokens
    source = X.src(case["tree"])
    atok = asttokens.ASTTokens(source, parse=True)
    body = atok.tree.body[0].value
    pairs = []
    t = X.from_ast(body, pairs)
    by_tree = {id(tt): atok.get_text(n) for tt, n in pairs}
    # (asttokens has no positions for nodes inside an f-string: their text comes out empty; the library does
    # not show those nodes)
    return [by_tree.get(id(s), "") for s in X.subexprs(t)]


def main():
    payload = json.load(sys.stdin)
    cases = payload["cases"]
    plain = bool(payload.get("plain"))
    src = render_module(cases, bool(payload.get("force_enabled")))
    path = os.path.join(os.getcwd(), "icv_expr_%d.py" % os.getpid())
    with open(path, "w", encoding="utf-8") as fh:
        fh.write(src)
    spec = importlib.util.spec_from_file_location("icv_expr_%d" % os.getpid(), path)
    mod = importlib.util.module_from_spec(spec)
    sys.modules[spec.name] = mod
    spec.loader.exec_module(mod)
    out = []
    for i, case in enumerate(cases):
        try:
            obs = run_case(i, case, mod, plain)
            if not plain:
                obs["texts"] = texts_of(case)
        except Exception as err:  # noqa: BLE001
            import traceback
            obs = {"harness_error": "%s: %s" % (type(err).__name__, err), "trace": traceback.format_exc()[-1500:]}
        out.append(obs)
    if not payload.get("keep"):
        os.remove(path)
    json.dump(out, sys.stdout)


if __name__ == "__main__":
    main()
