"""C15 - disabled contracts are absent; enabled ones do not depend on interpreter mode."""
import collections
import itertools
import json
import random

import common as C
import gen_checker as G

PROP = "C15"
MODEL_FILES = ["Model/Toggle.v", "Spec/ToggleCase.v"]
CONE = ["Model/Base.v", "Gen/Generated.v", "Model/Bind.v", "Model/Checker.v", "Model/Elab.v", "Model/Toggle.v",
        "Spec/ToggleCase.v", "Spec/ToggleGen.v", "Proofs/ToggleProofs.v", "Proofs/ElabProofs.v", "Props/C15.v"]
HEADER = "From Coq Require Import ZArith List Bool String.\nImport ListNotations.\nFrom ICV Require Import Toggle ToggleCase.\nOpen Scope string_scope.\nOpen Scope list_scope.\n"
HEADER_GEN = "From Coq Require Import ZArith List Bool String.\nImport ListNotations.\nFrom ICV Require Import Toggle ToggleCase ToggleGen.\nOpen Scope string_scope.\nOpen Scope list_scope.\n"

MODES = [("Normal", ()), ("Opt1", ("-O",)), ("Opt2", ("-OO",))]
ENVS = [("Unset", None), ("Empty", ""), ('(NonEmpty "1")', "1"), ('(NonEmpty "0")', "0"), ('(NonEmpty "false")', "false")]
ENABLED = [("default", "EDefault"), ("true", "ETrue"), ("false", "EFalse"), ("slow", "ESlow")]
DECOS = [("require", "KRequire"), ("ensure", "KEnsure"), ("snapshot", "KSnapshot"), ("invariant", "KInvariant")]
FKINDS = ["function", "async", "lambda", "defaults", "checker", "staticmethod_obj"]
CKINDS = ["plain", "dbc", "slots_repr", "plain_sub"]

RULE = ("part 1: the full product interpreter mode {normal,-O,-OO} x ICONTRACT_SLOW {unset,'', '1','0','false'} x "
        "decorator {require,ensure,snapshot,invariant} x enabled {default,True,False,icontract.SLOW} x callable kind "
        "(function, coroutine function, lambda, function with defaults/*args/**kwargs, an existing checker, a staticmethod "
        "object - the contract written above @staticmethod; plain class, "
        "DBC class, class with __repr__ and a property, plain sub-class of a class with an invariant), one subprocess per (mode, environment); non-trivial = the row "
        "is disabled in that configuration or enabled under -O/-OO.  part 2: generated checker-cluster programs (see C01) "
        "rendered with enabled=True spelled out and run under normal, -O and -OO; the complete observation (events, "
        "outcome) must be the same in all three and the same as the default rendering in the normal interpreter.  part 3: "
        "histories of definitions (see C04) rendered with enabled=True spelled out: which definitions raise and what "
        "every function and class shows afterwards must be the same under normal, -O and -OO.")


def all_rows():
    rows = []
    for (d, _), (e, _) in itertools.product(DECOS, ENABLED):
        for k in (CKINDS if d == "invariant" else FKINDS):
            rows.append([d, e, k])
    return rows


def run_config(mode, env, rows):
    extra = {} if env is None else {"ICONTRACT_SLOW": env}
    return C.run_impl("impl_c15.py", {"rows": rows}, extra_env=extra, pyflags=mode)


def cq_obs(o):
    return ("{| t_identical := %s; t_vars_same := %s; t_calls := %d%%nat; t_good_ret := %s; t_bad_ret := %s; "
            "t_bad_violation := %s |}" % (C.cq_bool(o["identical"]), C.cq_bool(o["vars_same"]), o["cond_calls"],
                                          C.cq_bool(o["good"][0] == "ret"), C.cq_bool(o["bad"][0] == "ret"),
                                          C.cq_bool(o["bad"] == ["violation"])))


def observe_checker(cases, pyflags, explicit, chunk=250):
    payloads = [{"cases": cases[i:i + chunk], "explicit_enabled": explicit} for i in range(0, len(cases), chunk)]
    obs = []
    for r in C.run_impl_parallel("impl_checker.py", payloads, pyflags=pyflags):
        obs.extend(r)
    return obs


def run(tier, replay=None):
    out = C.Outcome(PROP, tier)
    build = C.regenerate_and_build()
    problems = C.proof_section(out, build, CONE, "Props/C15.v")
    if not build.ok_for(MODEL_FILES):
        out.violation("the executable model does not build: " + "; ".join(problems),
                      {"problems": problems, "log": build.log[-3000:]}, found_input=False)
        return out.finish()
    gen_ok = build.translator_ok and build.ok_for(["Gen/Generated.v", "Spec/ToggleGen.v"])
    rng = random.Random(C.seed() * 31 + 15)

    # ---- part 1: the configuration matrix
    rows = all_rows()
    configs = list(itertools.product(MODES, ENVS))
    if replay:
        rp = json.load(open(replay))
        if "row" in rp:
            rows = [rp["row"]]
            configs = [(m, e) for m, e in configs if m[0] == rp["mode"] and e[0] == rp["env"]]
    from concurrent.futures import ThreadPoolExecutor
    with ThreadPoolExecutor(max_workers=C.NPROC) as ex:
        results = list(ex.map(lambda me: run_config(me[0][1], me[1][1], rows), configs))
    terms, index = [], []
    enabled_map = dict(ENABLED)
    deco_map = dict(DECOS)
    defn_errors = []
    for (m, e), res in zip(configs, results):
        flags = "if flags_ok %s %s %s %s then 0 else 1" % (m[0], e[0], C.cq_bool(res["debug"]), C.cq_bool(res["slow"]))
        for row, o in zip(rows, res["rows"]):
            if "defn" in o:
                defn_errors.append((m, e, row, o))
                continue
            a, k = enabled_map[row[1]], deco_map[row[0]]
            gen = ("if Bool.eqb (enabled_code %s %s %s %s) (enabled_spec %s %s %s) then 0 else 1" % (m[0], e[0], a, k, m[0], e[0], a)
                   if gen_ok else "0")
            terms.append("([%s ; if spec_C15 %s %s %s %s %s then 0 else 1 ; %s ; if enabled_spec %s %s %s then 1 else 0])%%Z"
                         % (gen, m[0], e[0], a, k, cq_obs(o), flags, m[0], e[0], a))
            index.append((m, e, row, o))
    codes = C.coq_eval_lists(HEADER_GEN if gen_ok else HEADER, terms, name="c15", chunk=300)
    dist = collections.Counter()
    nontrivial = 0
    spec_fail, flag_fail, gen_fail = [], [], []
    for (m, e, row, o), code in zip(index, codes):
        dist["%s/%s/%s" % (m[0], row[0], "on" if code[3] else "off")] += 1
        if not code[3] or m[0] != "Normal":
            nontrivial += 1
        if code[1]:
            spec_fail.append((m, e, row, o))
        if code[2]:
            flag_fail.append((m, e, row, o))
        if code[0]:
            gen_fail.append((m, e, row, o))

    def how(m, e, row):
        return ("echo '%s' | %sPYTHONPATH=/repo /venv/bin/python %s /verif/harness/impl_c15.py"
                % (json.dumps({"rows": [row]}), "" if e[1] is None else "ICONTRACT_SLOW=%r " % e[1], " ".join(m[1])))

    for m, e, row, o in (spec_fail + flag_fail)[:3]:
        out.violation("spec_C15 is false of the implementation in mode %s, ICONTRACT_SLOW %s, row %s" % (m[0], e[0], row),
                      {"mode": m[0], "env": e[0], "row": row, "observation": o, "run": how(m, e, row),
                       "how": "./check C15 --replay <this file>"})
    for m, e, row, o in defn_errors[:1]:
        out.violation("decorating failed in mode %s, ICONTRACT_SLOW %s, row %s: %s" % (m[0], e[0], row, o["defn"]),
                      {"mode": m[0], "env": e[0], "row": row, "observation": o, "run": how(m, e, row)})
    if gen_fail:
        problems.append("the enabled flag computed by the translated source differs from the documented rule "
                        "(theorem C15_enabled_flag would be false) at %s %s %s" % (gen_fail[0][0][0], gen_fail[0][1][0], gen_fail[0][2]))

    # enabled=True rows must be the same observation in every configuration
    cross = []
    base = {}
    for m, e, row, o in index:
        if row[1] != "true":
            continue
        key = json.dumps(row)
        if key not in base:
            base[key] = (m, e, o)
        elif base[key][2] != o:
            cross.append((m, e, row, o, base[key]))
    for m, e, row, o, b in cross[:2]:
        out.violation("an explicitly enabled contract behaves differently in mode %s (ICONTRACT_SLOW %s) than in mode %s: row %s"
                      % (m[0], e[0], b[0][0], row),
                      {"mode": m[0], "env": e[0], "row": row, "observation": o, "baseline_mode": b[0][0],
                       "baseline_observation": b[2], "run": how(m, e, row)})

    # ---- part 2: generated programs, explicitly enabled, normal vs -O vs -OO
    n = 0
    mode_diffs = []
    rp2 = json.load(open(replay)) if replay else {}
    if not (replay and ("row" in rp2 or "ops" in rp2.get("case", {}) or "tree" in rp2.get("case", {}))):
        if replay:
            cases = [json.load(open(replay))["case"]]
        else:
            cases = G.gen_many(rng, 600 if tier == "quick" else 12000)
        n = len(cases)
        ref = observe_checker(cases, (), False)
        runs = [("normal, enabled=True spelled out", observe_checker(cases, (), True)),
                ("-O, enabled=True spelled out", observe_checker(cases, ("-O",), True)),
                ("-OO, enabled=True spelled out", observe_checker(cases, ("-OO",), True))]
        for name, obs in runs:
            for c, a, b in zip(cases, ref, obs):
                if a != b:
                    mode_diffs.append((name, c, a, b))
        import render_checker
        render_checker.ENABLED_SUFFIX = ", enabled=True"
        for name, c, a, b in mode_diffs[:2]:
            out.violation("an explicitly enabled program behaves differently under %s" % name,
                          {"case": c, "observation_normal": a, "observation": b, "configuration": name,
                           "script": render_checker.render_case(0, c), "how": "./check C15 --replay <this file>"})
        render_checker.ENABLED_SUFFIX = ""
        live = sum(1 for o in ref if "defn_error" not in o)
        dist["programs/raise"] = sum(1 for o in ref if "defn_error" not in o and o["outcome"][0] == "raise")
        dist["programs/ret"] = live - dist["programs/raise"]

    # ---- part 3: histories of definitions (what the decorators and the meta-class accept, reject and build) with
    # enabled=True spelled out: the same in every interpreter mode
    nelab = 0
    rp3 = json.load(open(replay)) if replay else {}
    if not replay or "ops" in rp3.get("case", {}):
        import elab_cluster as E
        import gen_elab
        hist = [rp3["case"]] if replay else E.load_corpus(PROP) + E.default_gen(rng, 150 if tier == "quick" else 3000)
        nelab = len(hist)

        def observe_elab(pyflags, explicit):
            payloads = [{"cases": hist[i:i + 50], "explicit_enabled": explicit} for i in range(0, len(hist), 50)]
            res = []
            for r in C.run_impl_parallel("impl_elab.py", payloads, pyflags=pyflags):
                res.extend(r)
            return [E.strip(o) if not isinstance(o, dict) else o for o in res]
        ref3 = observe_elab((), False)
        elab_diffs = []
        for name, flags in (("normal, enabled=True spelled out", ()), ("-O, enabled=True spelled out", ("-O",)),
                            ("-OO, enabled=True spelled out", ("-OO",))):
            for c, a, b in zip(hist, ref3, observe_elab(flags, True)):
                if a != b:
                    elab_diffs.append((name, c, a, b))
        gen_elab.EXPLICIT_ENABLED = True
        for name, c, a, b in elab_diffs[:2]:
            out.violation("explicitly enabled definitions are accepted, rejected or built differently under %s" % name,
                          {"case": c, "observation_normal": a, "observation": b, "configuration": name,
                           "script": E.source_of(c), "how": "./check C15 --replay <this file>"})
        gen_elab.EXPLICIT_ENABLED = False
        mode_diffs += elab_diffs

    # ---- part 4: conditions over the expression language, violated, enabled=True spelled out: the same violation
    # message (every line of it) and the same outcome in every interpreter mode
    nexpr = 0
    if not replay or "tree" in rp3.get("case", {}):
        import expr_cluster as XC
        import gen_expr
        xcases = [rp3["case"]] if replay else gen_expr.gen_many(rng, 300 if tier == "quick" else 6000,
                                                                 depth=4 if tier == "quick" else 5)
        nexpr = len(xcases)
        KEYS = ("outcome", "lines", "recorded", "text_ok", "harness_error")

        def view(o):
            return {k: o.get(k) for k in KEYS}
        ref4 = [view(o) for o in XC.observe(xcases, force_enabled=True)]
        expr_diffs = []
        for name, flags in (("-O, enabled=True spelled out", ("-O",)), ("-OO, enabled=True spelled out", ("-OO",))):
            for c, a, o in zip(xcases, ref4, XC.observe(xcases, pyflags=flags, force_enabled=True)):
                if a != view(o):
                    expr_diffs.append((name, c, a, view(o)))
        for name, c, a, b in expr_diffs[:2]:
            out.violation("an explicitly enabled condition is reported differently under %s" % name,
                          {"case": c, "observation_normal": a, "observation": b, "configuration": name,
                           "how": "./check C15 --replay <this file>"})
        mode_diffs += expr_diffs
        dist["conditions/violated"] = sum(1 for o in ref4 if o.get("lines"))

    if problems and not out.violations:
        out.violation("; ".join(problems), {"no_longer_checks": problems}, found_input=False)
    cov = out.coverage
    cov.update({
        "evaluations": len(index) + 4 * n,
        "distinct_nontrivial": nontrivial + n,
        "rule": RULE,
        "traces_validated_against_impl": len(index) + 3 * n,
        "vm_compute_cases": len(index),
        "configurations": len(configs),
        "rows_per_configuration": len(rows),
        "programs_rerun_in_each_mode": n,
        "definition_histories_rerun_in_each_mode": nelab,
        "conditions_rerun_in_each_mode": nexpr,
        "spec_failures_on_implementation": len(spec_fail) + len(flag_fail) + len(cross) + len(mode_diffs),
        "distribution": dict(dist.most_common(60)),
        "samples": [{"mode": m[0], "env": e[0], "row": row, "observation": o} for m, e, row, o in index[:2] + index[-1:]],
        "specs": ["spec_C15", "flags_ok", "same observation in every mode for enabled=True"],
    })
    out.assumptions += ["interpreter modes are the three that CPython offers (-O, -OO set __debug__ false at compile time)",
                        "a decorator sees its enabled argument as a value; the argument expressions checked are the "
                        "defaults and icontract.SLOW",
                        "observation of 'adds no attributes' is vars(original) by content before and after"]
    return out.finish()
