import icontract, asyncio, sys, traceback, contextvars, threading
from icontract._checkers import _IN_PROGRESS
def show(title, fn):
    try:
        r = fn()
        print(title, '-> returned', repr(r))
    except BaseException as e:
        print(title, '-> raised', type(e).__name__, str(e).replace('\n',' | ')[:300])

# C12: tasks share set after parent ran contracted code
@icontract.require(lambda x: x > 0)
async def af(x, ev_wait=None, ev_set=None):
    if ev_set: ev_set.set()
    if ev_wait: await ev_wait.wait()
    return x

@icontract.require(lambda: True)
def warm(): return 1

async def main(warmup):
    if warmup: warm()
    e1 = asyncio.Event(); e2 = asyncio.Event()
    async def t1():
        return await af(1, ev_wait=e2, ev_set=e1)
    async def t2():
        await e1.wait()
        try:
            r = await af(-1)
            return ('returned', r)
        except icontract.ViolationError:
            return 'violation'
        finally:
            e2.set()
    a = asyncio.create_task(t1()); b = asyncio.create_task(t2())
    return await asyncio.gather(a, b)
print('C12 no warmup', asyncio.run(main(False)))
print('C12 warmup   ', asyncio.run(main(True)))

# threads via copy_context
@icontract.require(lambda x: x > 0)
def sf(x, ev_wait=None, ev_set=None):
    if ev_set: ev_set.set()
    if ev_wait: ev_wait.wait()
    return x
def thr():
    warm()
    ctx1 = contextvars.copy_context(); ctx2 = contextvars.copy_context()
    e1 = threading.Event(); e2 = threading.Event()
    res = {}
    def a(): res['a'] = ctx1.run(sf, 1, e2, e1)
    def b():
        e1.wait()
        try: res['b'] = ('returned', ctx2.run(sf, -1))
        except icontract.ViolationError: res['b'] = 'violation'
        finally: e2.set()
    ta = threading.Thread(target=a); tb = threading.Thread(target=b)
    ta.start(); tb.start(); ta.join(); tb.join()
    return res
print('C12 threads copy_context after warm', thr())

# C11: state after re-entrant call
@icontract.require(lambda: inner_probe())
def outer(): return 1
def inner_probe():
    before = set(_IN_PROGRESS.get())
    outer()
    after = set(_IN_PROGRESS.get())
    print('   in-progress before/after re-entrant call:', len(before), len(after))
    return True
show('C11 reentrant state', outer)

# C17 leaks
@icontract.invariant(lambda self: True, check_on=icontract.InvariantCheckEvent.CALL)
class A(icontract.DBC):
    def m(self): return 1
class C(A):
    def mc(self): return 1
print('C17 shared on_setattr list A/C:', A.__invariants_on_setattr__ is C.__invariants_on_setattr__)
before = list(A.__invariants_on_setattr__)
@icontract.invariant(lambda self: self.bflag, check_on=icontract.InvariantCheckEvent.SETATTR)
class B(A):
    bflag = True
print('C17 A on_setattr before/after defining B:', len(before), len(A.__invariants_on_setattr__))
@icontract.invariant(lambda self: True, check_on=icontract.InvariantCheckEvent.SETATTR)
class D(A):
    bflag = False
d = D()
show('C17 D().z = 1 (D has only a True invariant on setattr; B sibling has bflag)', lambda: setattr(d, 'z', 1))

# C04: multiple inheritance, one base with no preconditions
class P(icontract.DBC):
    @icontract.require(lambda x: x > 0)
    def f(self, x): return x
class Q(icontract.DBC):
    def f(self, x): return x
class R(P, Q):
    def f(self, x): return x
show('C04 R().f(-1) [Q.f accepts all]', lambda: R().f(-1))
class R2(Q, P):
    def f(self, x): return x
show('C04 R2().f(-1)', lambda: R2().f(-1))

# C04 diamond with snapshot
class SA(icontract.DBC):
    @icontract.snapshot(lambda lst: lst[:])
    @icontract.ensure(lambda OLD, lst: len(lst) >= len(OLD.lst))
    def f(self, lst): pass
class SB(SA):
    def f(self, lst): pass
class SC(SA):
    def f(self, lst): pass
def mkSD():
    class SD(SB, SC):
        def f(self, lst): pass
    return SD
show('C04 diamond with snapshot', mkSD)
def mkSD2():
    class SB2(SA): pass
    class SC2(SA): pass
    class SD2(SB2, SC2):
        def f(self, lst): pass
    return SD2
show('C04 diamond (non-overriding middles) with snapshot', mkSD2)
