import icontract, asyncio, sys, traceback, contextvars, threading, functools, inspect, abc
def show(title, fn):
    try:
        r = fn()
        print(title, '-> returned', repr(r))
    except BaseException as e:
        print(title, '-> raised', type(e).__name__, str(e).replace('\n',' | ')[:400])

y = 100
# C06: non-parameter call argument shadows a global used by the lambda
@icontract.require(lambda x: x > y)
def f(x, y): return 1
show('C06 arg shadows global', lambda: f(5, 1))   # Python: 5 > 100 False; recompute: y=1?

# name bound to None with builtin of the same name
@icontract.require(lambda max, x: str(max) == 'zzz')
def g(max, x): return 1
show('C06 None-bound builtin name', lambda: g(None, 1))

# name bound to None  (omit)
@icontract.require(lambda a, x: (a is None) and x > 0 and len([a]) > 3)
def g2(a, x): return 1
show('C06 None-bound name', lambda: g2(None, 1))

# C20: call result that is a class
@icontract.require(lambda x: type(x) is str)
def h(x): return 1
show('C20 call returns class', lambda: h(1))

# C09: error forms on invariant
class E(Exception): pass
calls=[]
@icontract.invariant(lambda self: self.x > 0, error=lambda self: calls.append(self) or E('bad'))
class K:
    def __init__(self): self.x = 1
    def m(self): self.x = -1
k = K()
show('C09 inv factory', k.m); print('  factory calls', len(calls))

# C13: invariant returning coroutine
async def acond(): return False
@icontract.invariant(lambda self: acond())
class K2:
    def __init__(self): pass
import warnings
warnings.simplefilter('ignore')
show('C13/C19 invariant lambda returning coroutine', lambda: K2())

# C14 metadata
def deco(fn):
    @functools.wraps(fn)
    def w(*a, **k): return fn(*a, **k)
    return w
@icontract.require(lambda x: x > 0)
@deco
@icontract.ensure(lambda result: result > 0)
def st(x: int) -> int:
    "doc"
    return x
chain=[]; c=st
while hasattr(c,'__wrapped__'): chain.append(c); c=c.__wrapped__
print('C14 chain length', len(chain), 'checkers', sum(1 for c in chain if hasattr(c,'__preconditions__')))
print('   pre', st.__preconditions__, 'post', st.__postconditions__)
show('C14 st(-1)', lambda: st(-1))
# inner checker?
inner = st.__wrapped__.__wrapped__
print('  inner has pre', getattr(inner,'__preconditions__',None), getattr(inner, '__postconditions__', None))

# abstractness
class AB(icontract.DBC):
    @icontract.require(lambda x: x > 0)
    @abc.abstractmethod
    def f(self, x): ...
print('C14 abstract preserved', getattr(AB.f, '__isabstractmethod__', None), inspect.isabstract(AB))
class AB2(icontract.DBC):
    @abc.abstractmethod
    @icontract.require(lambda x: x > 0)
    def f(self, x): ...
print('C14 abstract preserved2', getattr(AB2.f, '__isabstractmethod__', None), inspect.isabstract(AB2))

# signature, iscoroutinefunction
@icontract.require(lambda x: x > 0)
async def co(x: int, *, k: str = 'a') -> int: return x
print('C14 sig', inspect.signature(co), inspect.iscoroutinefunction(co), co.__name__, co.__qualname__, co.__annotations__)
