import icontract, sys
calls=[]
def mk(enabled):
    kw = {} if enabled == 'default' else {'enabled': enabled}
    def f(x): return x
    g = icontract.require(lambda x: calls.append(1) or x > 0, **kw)(f)
    return g is f, sorted(set(vars(f)) )
print('debug', __debug__, 'SLOW', icontract.SLOW)
for e in ['default', True, False, icontract.SLOW]:
    same, attrs = mk(e)
    print(' enabled=', e, 'same object', same, attrs)
@icontract.require(lambda x: x > 0, enabled=True)
def h(x): return x
try:
    h(-1); print('no violation')
except icontract.ViolationError as e: print('violation', str(e).split('\n')[1:])
@icontract.invariant(lambda self: self.x > 0, enabled=True)
class K:
    def __init__(self): self.x = -1
try:
    K(); print('no violation')
except icontract.ViolationError as e: print('violation inv')
