import icontract, asyncio, sys, traceback
def show(title, fn):
    try:
        r = fn()
        print(title, '-> returned', repr(r))
    except BaseException as e:
        print(title, '-> raised', type(e).__name__, str(e).replace('\n',' | ')[:300])

# C07: eager and
@icontract.require(lambda xs: xs and xs[0] > 0)
def f1(xs): return 1
show('C07 and-guard', lambda: f1([]))

@icontract.require(lambda x: x is None or x.y)
def f2(x): return 1
class O: y = 0
show('C07 or-guard falsy', lambda: f2(O()))

@icontract.require(lambda n: 0 < n < 10 // n)
def f3(n): return 1
show('C07 chain', lambda: f3(0))

# C06: or nested in call
@icontract.require(lambda a, b: bool(a or b) and False)
def f4(a, b): return 1
show('C06 or in call', lambda: f4(0, 0))

@icontract.require(lambda a, b: (a or b) > 5)
def f4b(a, b): return 1
show('C06 or in compare', lambda: f4b(0, 3))

@icontract.require(lambda a, b: len(a or b) > 5)
def f4c(a, b): return 1
show('C06 or in call2', lambda: f4c([], [1,2]))

# C10: body recursion
calls = []
@icontract.require(lambda n: calls.append(n) or n >= 0)
def fact(n):
    return 1 if n <= 0 else n * fact(n - 1)
show('C10 body recursion', lambda: fact(3)); print('  cond evaluated for', calls)
calls.clear()
show('C10 body recursion neg', lambda: fact.__wrapped__ and None)

# body recursion with violation deeper
@icontract.require(lambda n: n != 1)
def g(n):
    return 0 if n <= 0 else g(n - 1)
show('C10 body recursion hits violating n=1 via g(3)', lambda: g(3))

# C10: condition re-entering twice
cnt = [0]
@icontract.require(lambda: (h(), h(), True)[2])
def h():
    cnt[0] += 1
    return True
sys.setrecursionlimit(300)
show('C10 re-enter twice', lambda: h()); print('  body count', cnt)
sys.setrecursionlimit(1000)
