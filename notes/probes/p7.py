import icontract
def show(title, fn):
    try:
        r = fn()
        print(title, '-> returned', repr(r))
    except BaseException as e:
        print(title, '-> raised', type(e).__name__, str(e).replace('\n',' | ')[:300], '|| cause:', repr(e.__cause__)[:200])
@icontract.require(lambda xs: max(*xs) > 10)
def f(xs): return 1
show('star arg', lambda: f([1,2]))
@icontract.require(lambda d: dict(**d) == {})
def g(d): return 1
show('dstar arg', lambda: g({'a':1}))
@icontract.require(lambda xs: [*xs, 1] == [])
def h(xs): return 1
show('star display', lambda: h([1,2]))
@icontract.require(lambda x: f"{x!r:>5}" == "")
def k(x): return 1
show('fstring', lambda: k(3))
@icontract.require(lambda xs: xs[1:] == [] and xs[::2] == [])
def sl(xs): return 1
show('slice', lambda: sl([1,2,3]))
@icontract.require(lambda x: (x if x > 0 else -x) > 10)
def ie(x): return 1
show('ifexp', lambda: ie(-3))
@icontract.require(lambda x: {x: 1}[x] == 2 and {x} and (x,))
def dd(x): return 1
show('displays', lambda: dd(3))
@icontract.require(lambda xs: sum([x*2 for x in xs]) > 100 and {x for x in xs} and {x: 1 for x in xs})
def lc(xs): return 1
show('comps', lambda: lc([1,2]))
@icontract.require(lambda xs: all(x > 1 for x in xs))
def al(xs): return 1
show('all', lambda: al([3,1,0]))
@icontract.require(lambda x: not x and -x and +x and ~x)
def un(x): return 1
show('unary', lambda: un(0))
@icontract.require(lambda x, y: x @ y if False else x ** y > 100)
def bo(x, y): return 1
show('binops', lambda: bo(2, 3))
