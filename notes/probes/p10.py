import icontract, collections
def show(title, fn):
    try:
        r = fn(); print(title, '-> returned', repr(r)[:80])
    except BaseException as e:
        print(title, '-> raised', type(e).__name__, str(e).replace('\n',' | ')[:200], '| cause', repr(e.__cause__)[:60])
y = 100
@icontract.require(lambda x: abs(y) > x * 1000)
def f(x, y): return 1
show('D10 abs(y)', lambda: f(5, 1))
@icontract.require(lambda xs, n, flag: all(10 // n > x for x in xs) and flag)
def g(xs, n, flag): return 1
show('D12b speculative', lambda: g([], 0, False))
log=[]
@icontract.invariant(lambda self: log.append('inv') or self.x > 0)
class A(icontract.DBC, collections.namedtuple('T', 'x')):
    pass
show('A(1)', lambda: A(1)); print('  log', log); log.clear()
class B(A):
    def __init__(self, x):
        log.append('B.__init__ start'); 
        log.append('B.__init__ end')
show('D4b B(1)', lambda: B(1)); print('  log', log)
