import icontract, functools, inspect, abc
from icontract import InvariantCheckEvent as E
def show(title, fn):
    try:
        r = fn()
        print(title, '-> returned', repr(r))
    except BaseException as e:
        print(title, '-> raised', type(e).__name__, str(e).replace('\n',' | ')[:400])

log=[]
@icontract.invariant(lambda self: log.append('j_setattr') or True, check_on=E.SETATTR)
@icontract.invariant(lambda self: log.append('i_call') or True, check_on=E.CALL)
class A(icontract.DBC):
    def __init__(self): self.x = 1
    def am(self): return 1
print('A.__invariants__ order', [i.check_on for i in A.__invariants__])
class B(A):
    def bm(self): return 2
b = B(); log.clear()
b.am(); print('inherited am:', log); log.clear()
b.bm(); print('new bm in subclass (expect i_call twice):', log); log.clear()
b.x = 3; print('setattr:', log); log.clear()

# order reversed
@icontract.invariant(lambda self: log.append('i_call') or True, check_on=E.CALL)
@icontract.invariant(lambda self: log.append('j_setattr') or True, check_on=E.SETATTR)
class A2(icontract.DBC):
    def __init__(self): self.x = 1
    def am(self): return 1
class B2(A2):
    def bm(self): return 2
    def __setattr__(self, k, v): object.__setattr__(self, k, v)
b = B2(); log.clear()
b.bm(); print('A2/B2 new bm:', log); log.clear()
b.x = 3; print('A2/B2 setattr overridden in subclass (expect j_setattr twice):', log); log.clear()

# invariants + private method, classmethod, staticmethod, __repr__, __getattribute__
@icontract.invariant(lambda self: log.append('inv') or True)
class K:
    def __init__(self): pass
    def pub(self): pass
    def _prot(self): pass
    def __priv(self): pass
    def callpriv(self): self.__priv()
    @classmethod
    def cm(cls): pass
    @staticmethod
    def sm(): pass
    def __repr__(self): return 'K'
    def __len__(self): return 0
    def __getattribute__(self, n): return object.__getattribute__(self, n)
    @property
    def p(self): return 1
k = K(); log.clear()
for name, f in [('pub', k.pub), ('_prot', k._prot), ('cm', k.cm), ('sm', k.sm), ('repr', lambda: repr(k)), ('len', lambda: len(k)), ('p', lambda: k.p), ('eq', lambda: k == 1), ('str', lambda: str(k)), ('hash', lambda: hash(k))]:
    f(); print('  ', name, log); log.clear()
