import icontract, asyncio, sys, traceback, contextvars, threading
from icontract._checkers import _IN_PROGRESS
def show(title, fn):
    try:
        r = fn()
        print(title, '-> returned', repr(r))
    except BaseException as e:
        print(title, '-> raised', type(e).__name__, str(e).replace('\n',' | ')[:300])

# C03: subclass constructor calls super().__init__ first
log = []
@icontract.invariant(lambda self: log.append('A.inv') or self.x > 0)
class A(icontract.DBC):
    def __init__(self):
        self.x = 1
    def m(self): return 1

@icontract.invariant(lambda self: log.append('B.inv') or self.y > 0)
class B(A):
    def __init__(self):
        super().__init__()
        log.append('B.init after super')
        self.y = 1
        self.m()
        log.append('B.init end')
show('C03 B()', lambda: B()); print('  log', log)

# without DBC
log.clear()
@icontract.invariant(lambda self: log.append('A2.inv') or self.x > 0)
class A2:
    def __init__(self):
        self.x = 1
    def m(self): log.append('m'); return 1
class B2(A2):
    def __init__(self):
        super().__init__()
        self.x = -5      # temporarily breaks
        self.m()
        self.x = 5
show('C03 B2()', lambda: B2()); print('  log', log)

# C14: subclass of invariant-carrying class without own __init__
@icontract.invariant(lambda self: True)
class N:
    def foo(self): return 1
class M(N):
    def __init__(self, x):
        self.x = x
show('C14 N()', lambda: N())
show('C14 M(1)', lambda: M(1))
# bare equivalent
class N0:
    def foo(self): return 1
class M0(N0):
    def __init__(self, x): self.x = x
show('C14 bare M0(1)', lambda: M0(1))

log.clear()
@icontract.invariant(lambda self: log.append('inv') or self.x > 0)
class N3:
    x = 1
    def foo(self): return 1
class M3(N3):
    def __init__(self):
        log.append('M3.init')
        self.x = 2
show('C03 M3()', lambda: M3()); print('   log', log)

# C05
@icontract.require(lambda b: print('   cond sees b =', b) or True)
def k(a, *args, b=1):
    print('   body sees a,args,b =', a, args, b); return 0
show('C05 k(1,2,3)', lambda: k(1,2,3))

@icontract.require(lambda a: print('   cond sees a =', a) or True)
def k2(a, /, **kw):
    print('   body sees a,kw =', a, kw); return 0
show('C05 k2(1,a=2)', lambda: k2(1,a=2))

@icontract.require(lambda c: print('   cond sees c =', c) or True)
def k3(a, b=2, *rest, c=7, **kw):
    print('   body sees', a, b, rest, c, kw); return 0
show('C05 k3(1,2,3,4)', lambda: k3(1,2,3,4))

# C08/C19: snapshot with require only
def mk():
    @icontract.snapshot(lambda x: x)
    @icontract.require(lambda x: x > 0)
    def s(x): return x
    return s
show('C19 snapshot over require only', mk)
