import icontract, functools, inspect, abc
def show(title, fn):
    try:
        r = fn()
        print(title, '-> returned', repr(r))
    except BaseException as e:
        print(title, '-> raised', type(e).__name__, str(e).replace('\n',' | ')[:400])
def deco(fn):
    @functools.wraps(fn)
    def w(*a, **k):
        print('   deco ran')
        return fn(*a, **k) * 10
    return w
@icontract.require(lambda x: x > 0)
@deco
@icontract.ensure(lambda result: result > 0)
def st(x: int) -> int:
    "doc"
    return x
show('C14 foreign decorator kept? st(1) should be 10', lambda: st(1))
@deco
@icontract.ensure(lambda result: result > 0)
def st2(x): return x
show('   reference st2(1)', lambda: st2(1))

class AB(icontract.DBC):
    @icontract.require(lambda x: x > 0)
    @abc.abstractmethod
    def f(self, x): ...
print('C14 abstract preserved', getattr(AB.f, '__isabstractmethod__', None), inspect.isabstract(AB))
class AB2(icontract.DBC):
    @abc.abstractmethod
    @icontract.require(lambda x: x > 0)
    def f(self, x): ...
print('C14 abstract preserved2', getattr(AB2.f, '__isabstractmethod__', None), inspect.isabstract(AB2))
@icontract.require(lambda x: x > 0)
async def co(x: int, *, k: str = 'a') -> int: return x
print('C14 sig', inspect.signature(co), inspect.iscoroutinefunction(co), co.__name__, co.__qualname__, co.__annotations__)

# static/class methods & properties with contracts & invariants
@icontract.invariant(lambda self: self.v >= 0)
class Z(icontract.DBC):
    def __init__(self): self.v = 0
    @staticmethod
    @icontract.require(lambda a: a > 0)
    def s(a): return a
    @classmethod
    @icontract.require(lambda a: a > 0)
    def c(cls, a): return a
    @property
    @icontract.require(lambda self: self.v == 0)
    def p(self): return self.v
    @p.setter
    @icontract.require(lambda value: value >= -5)
    def p(self, value): self.v = value
z = Z()
show('static ok', lambda: Z.s(1)); show('static bad', lambda: Z.s(-1))
show('class ok', lambda: Z.c(1)); show('class bad', lambda: z.c(-1))
show('prop get', lambda: z.p)
show('prop set bad inv', lambda: setattr(z, 'p', -1))
show('prop set bad pre', lambda: setattr(z, 'p', -10))

# C15
@icontract.require(lambda x: 1/0, enabled=False)
def dis(x): return x
print('C15', dis(1))
# C18 registration
import icontract._metaclass as mc
seen=[]
orig = mc._register_for_hypothesis
mc._register_for_hypothesis = lambda cls: seen.append(cls)
class RR(icontract.DBC): pass
class RR2(RR): pass
print('C18 registered', seen)
mc._register_for_hypothesis = orig
