import icontract
class A(icontract.DBC):
    @icontract.require(lambda x: x > 0)
    def f(self, x): return x
class B(A):
    def f(self, x): return x
print('shared group:', A.f.__preconditions__[0] is B.f.__preconditions__[0])
B.f = icontract.require(lambda x: x > 100)(B.f)
try:
    print(A().f(5))
except icontract.ViolationError as e: print('LEAK into A.f:', str(e).split('\n')[1])
