(** * C11 - checking is re-armed after every outcome: no sticky suspension, no lost error.
    Property theorems only (proofs: Proofs/RunProofs.v).

    [exec P fuel t] is the program of the wrapper around target [t] (Model/Run.v); [run_seq plan]
    runs it in one context, throwing [plan pt] into the coroutine at suspension point [pt]
    (cancellation, close).  User code is arbitrary scripts: any condition, capture, invariant or
    body may raise any exception - [EUser e] for every [e], i.e. BaseException subclasses too. *)
From Coq Require Import List ZArith Bool Arith Lia.
From ICV Require Import Run RunCase RunRef RunProofs RunRefine.
From ICV Require Base Bind Checker CheckerCase CheckerSpec CheckerOracle CheckerSurface.
Import ListNotations.

(** After a checked call ends in any way, the suspension state is exactly what it was before. *)
Theorem C11_restore P plan fuel t s tr out s' :
  run_seq plan (exec P fuel t) s = (tr, out, s') -> s' = s.
Proof. exact (exec_preserves plan P fuel t s tr out s'). Qed.
Print Assumptions C11_restore.

(** An exception raised anywhere (user code, injected at an await, a violation) surfaces as that
    very exception: the first one that starts to propagate is the outcome, and a normal outcome
    means none was raised. *)
Theorem C11_no_lost_error P plan fuel t s tr out s' :
  run_seq plan (exec P fuel t) s = (tr, out, s') ->
  match out with
  | ORet _ => first_raise tr = None
  | OExn x => first_raise tr = Some x
  end.
Proof. exact (exec_faithful plan P fuel t s tr out s'). Qed.
Print Assumptions C11_no_lost_error.

(** Hence a probe call after any sequence of (faulted) calls has the verdict it has in a fresh
    state: every operation of a history is observed as if it were the first. *)
Theorem C11_probe P fuel ops s :
  run_ops P fuel ops s
  = map (fun op => run_seq (plan_of (snd op)) (exec P fuel (fst op)) s) ops.
Proof.
  induction ops as [|[t pl] rest IH]; cbn; [reflexivity|].
  destruct (run_seq (plan_of pl) (exec P fuel t) s) as [[tr out] s'] eqn:E.
  apply (exec_preserves (plan_of pl)) in E as Hs. subst s'. rewrite IH. reflexivity.
Qed.
Print Assumptions C11_probe.

(** Non-vacuity: a condition that raises KeyboardInterrupt (tag 10 = 8+2: not an Exception) inside
    a contract that re-enters its own function; the marker is gone afterwards and the probe is checked. *)
Definition ex_P : program :=
  {| p_fns := [{| fn_pre := [[([ACall (TFn 0)], VRaise 10%Z)]]; fn_snaps := []; fn_post := [];
                  fn_body := ([], VRet true) |}];
     p_classes := []; p_objs := [] |}.
Example C11_nonvacuous :
  run_ops ex_P 5 [(TFn 0, []); (TFn 0, [])] []
  = [([EvSite (SPre 0 0 0); EvBare (TFn 0); EvSite (SBody 0); EvRaise (EUser 10%Z)], OExn (EUser 10%Z), []);
     ([EvSite (SPre 0 0 0); EvBare (TFn 0); EvSite (SBody 0); EvRaise (EUser 10%Z)], OExn (EUser 10%Z), [])].
Proof. vm_compute. reflexivity. Qed.

(** The same for whole checked calls of the checker model - groups of alternative preconditions, snapshots, error
    factories, invariants before and after, all callable kinds, sync and async: for every case whose contracts and
    snapshots are told apart by their numbers and whose invariants are plain functions, the first exception raised by
    user code - a condition, a truth test, a capture, an error factory, the body - ends the call and surfaces as that very
    object or as the library's wrapper chaining it.  This is the executable statement [spec_C11_surface] that the check
    evaluates on the implementation's observation, proved of the model's observation for all cases. *)
Theorem C11_first_exception_surfaces_in_a_checked_call (c : CheckerCase.ccase) :
  CheckerSurface.wf_case c ->
  CheckerOracle.spec_C11_surface c (fst (CheckerCase.run_case c)) (snd (CheckerCase.run_case c)) = true.
Proof. exact (CheckerSurface.surface_sound c). Qed.
Print Assumptions C11_first_exception_surfaces_in_a_checked_call.

(** non-vacuity: f(x) with two preconditions, the second raises exception object 8: it is what the caller gets *)
Example C11_surface_nonvacuous :
  CheckerSurface.wf_case CheckerSurface.ex_case
  /\ snd (CheckerCase.run_case CheckerSurface.ex_case) = inr (Checker.XObj 8)
  /\ List.length (fst (CheckerCase.run_case CheckerSurface.ex_case)) = 2%nat.
Proof. exact CheckerSurface.surface_nonvacuous. Qed.
