(** * C20 - violation messages are deterministic and bounded.  Property theorems only. *)
From Coq Require Import List String ZArith Bool Sorting.Permutation Sorting.Sorted.
From ICV Require Import Expr PyPrims Message ExprCase ExprCorollaries MessageProofs.
Import ListNotations.
Open Scope string_scope.
Open Scope list_scope.

(** the message is a function of (condition, recorded values, tables, arguments): the model has no
    other input - no hash seed, no history.  Its value lines are sorted by key ... *)
Theorem C20_sorted text recorded tables body kwargs cps :
  Sorted key_le (value_lines text recorded tables body kwargs cps).
Proof. exact (value_lines_sorted text recorded tables body kwargs cps). Qed.

(** ... sorting does not depend on the order of its input when keys are distinct ... *)
Theorem C20_sort_order_independent l1 l2 :
  Permutation l1 l2 -> distinct_keys l1 -> sort_lines l1 = sort_lines l2.
Proof. exact (sort_lines_order_independent l1 l2). Qed.

(** ... so the order in which keyword arguments were passed cannot show in the argument lines *)
Theorem C20_keyword_order acc kw kw' cps :
  Permutation kw kw' -> NoDup (map fst kw) ->
  add_arguments acc (selected_kwargs kw cps) = add_arguments acc (selected_kwargs kw' cps).
Proof. exact (argument_lines_order_independent acc kw kw' cps). Qed.
Print Assumptions C20_keyword_order.

(** [_ARGS] and [_KWARGS] are left out unless the condition names them *)
Theorem C20_args_hidden kw cps p :
  In p (selected_kwargs kw cps) -> (fst p = "_ARGS" \/ fst p = "_KWARGS") -> In (fst p) cps.
Proof. exact (selected_kwargs_hides kw cps p). Qed.

(** functions (and whatever else is not representable) are left out of the argument lines and of
    the lines for names, attributes, f-strings and assignment targets *)
Theorem C20_left_out_arguments acc sel p :
  In p (add_arguments acc sel) -> In p acc \/ (In p sel /\ representable (snd p) = true).
Proof. exact (add_arguments_in acc sel p). Qed.
Theorem C20_left_out_named recorded i key acc p :
  In p (show recorded i true key acc) -> In p acc \/ (fst p = key /\ representable (snd p) = true).
Proof.
  intro H. apply show_in in H. destruct H as [H|[H1 [_ H3]]]; [left; exact H|right]. split; [exact H1|apply H3; reflexivity].
Qed.

(** every value is rendered by the violated contract's own repr, and its bound carries over *)
Theorem C20_own_repr R k v :
  (forall r i, v <> VAllFail r i) -> render_line R (k, v) = (k ++ " was " ++ R v)%string.
Proof. exact (render_line_plain R k v). Qed.
Theorem C20_bounded R L k v :
  (forall r i, v <> VAllFail r i) -> (String.length (R v) <= L)%nat ->
  (String.length (render_line R (k, v)) <= String.length k + 5 + L)%nat.
Proof. exact (render_line_bounded R L k v). Qed.

(** non-vacuity *)
Example C20_example :
  sort_lines [("xs", VList []); ("abs(x)", VInt 1); ("x", VInt (-1))] = [("abs(x)", VInt 1); ("x", VInt (-1)); ("xs", VList [])].
Proof. reflexivity. Qed.
