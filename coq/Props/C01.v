(** * C01 - preconditions gate every call: the body runs iff the effective precondition holds.
    Property theorems only (proofs: Proofs/CheckerFrame.v, Proofs/CheckerProps.v).

    Vocabulary (Spec/CheckerSpec.v): [pre_holds m U pre resolved st] - no preconditions, or some
    group (alternative) all of whose conditions evaluate truthy for the call's resolved arguments;
    [first_failing], [error_of]; [is_body]/[is_capture] recognise events of the trace.
    All statements quantify over every mode (sync/async), every user-code oracle [U] (hence every
    truth assignment, including conditions that raise), every signature, every list of groups,
    snapshots and postconditions, every argument tuple and every store. *)
From ICV Require Import Base Bind Checker CheckerSpec CheckerFrame CheckerProps.
Open Scope string_scope.
Open Scope list_scope.

(** The body is entered only if the effective precondition holds. *)
Theorem C01_body_only_if_pre m U s pre snaps post args kwargs st t r st' :
  checker_call m U s pre snaps post args kwargs st = (t, r, st') ->
  existsb is_body t = true ->
  reserved_kw kwargs = false /\ pre_holds m U pre (resolve_sig s args kwargs) st = true.
Proof. exact (body_implies_pre m U s pre snaps post args kwargs st t r st'). Qed.
Print Assumptions C01_body_only_if_pre.

(** If it does not hold: the body is not entered, no snapshot is captured, an error is raised
    and the store is untouched. *)
Theorem C01_reject m U s pre snaps post args kwargs st t r st' :
  checker_call m U s pre snaps post args kwargs st = (t, r, st') ->
  pre_holds m U pre (resolve_sig s args kwargs) st = false ->
  existsb is_body t = false /\ existsb is_capture t = false /\ (exists x, r = inr x) /\ st' = st.
Proof. exact (reject_when_pre_fails m U s pre snaps post args kwargs st t r st'). Qed.
Print Assumptions C01_reject.

(** ... and the error is the violated contract's: that of the first falsy condition of the last
    group tried (when the conditions themselves do not raise). *)
Theorem C01_violated_contracts_error m U s pre snaps post args kwargs st t r st' :
  checker_call m U s pre snaps post args kwargs st = (t, r, st') ->
  reserved_kw kwargs = false -> clashing_names s post args kwargs = false ->
  pre_benign m U s pre args kwargs st ->
  pre_holds m U pre (resolve_sig s args kwargs) st = false ->
  exists g c x, last_opt pre = Some g
                /\ first_failing m U RPre false (resolve_sig s args kwargs) st g = Some c
                /\ error_of U RPre c (resolve_sig s args kwargs) st = inl x
                /\ r = inr x.
Proof. exact (violation_is_first_falsy_of_last_group m U s pre snaps post args kwargs st t r st'). Qed.
Print Assumptions C01_violated_contracts_error.

(** Conversely, when it holds (and neither conditions nor captures raise and Python can bind the
    call) the body is entered. *)
Theorem C01_body_if_pre m U s pre snaps post args kwargs st t r st' :
  checker_call m U s pre snaps post args kwargs st = (t, r, st') ->
  reserved_kw kwargs = false -> clashing_names s post args kwargs = false ->
  pre_benign m U s pre args kwargs st -> snaps_benign m U s snaps args kwargs st ->
  pybind s args kwargs <> None ->
  pre_holds m U pre (resolve_sig s args kwargs) st = true ->
  existsb is_body t = true.
Proof. exact (accept_when_pre_holds m U s pre snaps post args kwargs st t r st'). Qed.
Print Assumptions C01_body_if_pre.

(** With invariants around the call (public methods, property accessors, __init__): the inner
    checker call is the same [checker_call], so the four statements above apply to it. *)
Theorem C01_inside_invariants U invs self inner st t r st' :
  method_call U invs self inner st = (t, r, st') ->
  (exists x, check_invariants U invs self st = (t, inr x, st) /\ r = inr x /\ st' = st)
  \/ (exists t1 t2 r2 st2,
         check_invariants U invs self st = (t1, inl tt, st)
         /\ inner st = (t2, r2, st2) /\ st' = st2
         /\ ((exists x, r2 = inr x /\ t = t1 ++ t2 /\ r = inr x)
             \/ (exists v t3 r3, r2 = inl v
                                 /\ check_invariants U invs self st2 = (t3, r3, st2)
                                 /\ t = t1 ++ t2 ++ t3
                                 /\ r = match r3 with inl _ => inl v | inr x => inr x end))).
Proof. exact (method_call_graph U self invs inner st t r st'). Qed.
Print Assumptions C01_inside_invariants.

(** Non-vacuity: a two-group stack where the second group holds; the body runs. *)
Definition ex_U : user :=
  {| u_cond := fun cid _ _ => CRet (negb (Z.eqb cid 1));
     u_capture := fun _ _ _ => CapRet PNone;
     u_error := fun _ _ => ERetOther;
     u_body := fun _ _ st => (BRet (PObj 7), st) |}.
Definition ex_c (n : Z) : contract :=
  {| cid := n; cargs := ["x"]; cmandatory := ["x"]; ckind_ := CKPlain; cerror := ENone; clambda := false |}.
Definition ex_s : sig :=
  {| posonly := []; poskw := [{| pname := "x"; pdefault := None |}]; varpos := None; kwonly := []; varkw := None |}.
Example C01_nonvacuous :
  pre_holds Sync ex_U [[ex_c 1]; [ex_c 2; ex_c 3]] (resolve_sig ex_s [PObj 1] []) [] = true
  /\ existsb is_body (fst (run_M (checker_call Sync ex_U ex_s [[ex_c 1]; [ex_c 2; ex_c 3]] [] [] [PObj 1] []) [])) = true
  /\ pre_holds Sync ex_U [[ex_c 2; ex_c 1]] (resolve_sig ex_s [PObj 1] []) [] = false.
Proof. vm_compute. repeat split. Qed.
