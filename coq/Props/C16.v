(** * C16 - deterministic evaluation order and first-failure reporting.
    Property theorems only (proofs: Proofs/CheckerFrame.v, CheckerProps.v, CheckerCount.v;
    order of inherited lists: Props/C04.v). *)
From ICV Require Import Base Bind Checker CheckerSpec CheckerFrame CheckerProps CheckerCount CheckerCase CheckerOracle CheckerAfter.
Open Scope string_scope.
Open Scope list_scope.

(** Phases: preconditions, snapshots, body, postconditions - in this order ... *)
Theorem C16_phase_order m U s pre snaps post args kwargs st t r st' :
  checker_call m U s pre snaps post args kwargs st = (t, r, st') ->
  exists tp tc tb tq,
    t = tp ++ tc ++ tb ++ tq
    /\ only pre_event tp /\ only is_capture tc
    /\ (tb = [] \/ exists env, tb = [EvBody env st]) /\ only post_event tq
    /\ (tc <> [] -> capturing snaps post = true /\ pre_holds m U pre (resolve_sig s args kwargs) st = true)
    /\ (tb <> [] -> (if capturing snaps post then capture_ids tc = map sid snaps else tc = []))
    /\ (tb = [] -> tq = []).
Proof. exact (trace_phases m U s pre snaps post args kwargs st t r st'). Qed.

(** ... with the invariants of a public operation strictly before and strictly after: the inner
    call is not started if an invariant fails before, and the after-check is skipped if it raised. *)
Theorem C16_invariants_outermost U invs self inner st t r st' :
  method_call U invs self inner st = (t, r, st') ->
  (exists x, check_invariants U invs self st = (t, inr x, st) /\ r = inr x /\ st' = st)
  \/ (exists t1 t2 r2 st2,
         check_invariants U invs self st = (t1, inl tt, st)
         /\ inner st = (t2, r2, st2) /\ st' = st2
         /\ ((exists x, r2 = inr x /\ t = t1 ++ t2 /\ r = inr x)
             \/ (exists v t3 r3, r2 = inl v
                                 /\ check_invariants U invs self st2 = (t3, r3, st2)
                                 /\ t = t1 ++ t2 ++ t3
                                 /\ r = match r3 with inl _ => inl v | inr x => inr x end))).
Proof. exact (method_call_graph U self invs inner st t r st'). Qed.
Print Assumptions C16_phase_order.

(** Precondition groups are tried in order until one holds; evaluation of a group stops at its
    first falsy condition; the error is that of the first falsy condition of the last group. *)
Theorem C16_groups U m resolved gs st t res st' :
  eval_groups m U gs resolved st = (t, res, st') ->
  st' = st /\ only pre_event t /\
  match res with
  | inl None => pre_holds m U gs resolved st = true
  | inl (Some x) =>
      pre_holds m U gs resolved st = false
      /\ exists g c, last_opt gs = Some g /\ stopped_by m U resolved st g c
                     /\ cond_val m U RPre false c resolved st = inl false
                     /\ error_of U RPre c resolved st = inl x
  | inr x =>
      exists g c, In g gs /\ stopped_by m U resolved st g c
                  /\ (cond_val m U RPre false c resolved st = inr x
                      \/ (cond_val m U RPre false c resolved st = inl false
                          /\ error_of U RPre c resolved st = inr x))
  end.
Proof. exact (eval_groups_spec m U resolved gs st t res st'). Qed.
Print Assumptions C16_groups.

(** The error raised for postconditions is that of the first falsy one in list order. *)
Theorem C16_first_falsy_postcondition U m resolved ps st t res st' :
  eval_posts m U ps resolved st = (t, res, st') ->
  st' = st /\ only post_event t /\
  match res with
  | inl None => posts_hold m U ps resolved st = true
  | inl (Some x) => exists c, first_failing m U RPost true resolved st ps = Some c
                              /\ cond_val m U RPost true c resolved st = inl false
                              /\ error_of U RPost c resolved st = inl x
  | inr x => exists c, first_failing m U RPost true resolved st ps = Some c
                       /\ (cond_val m U RPost true c resolved st = inr x
                           \/ (cond_val m U RPost true c resolved st = inl false
                               /\ error_of U RPost c resolved st = inr x))
  end.
Proof. exact (eval_posts_spec m U resolved ps st t res st'). Qed.

(** Each condition function is called at most once per check; a lambda once more, to build its
    message; an error factory at most once. *)
Theorem C16_at_most_once m U s pre snaps post args kwargs st t r st' c :
  checker_call m U s pre snaps post args kwargs st = (t, r, st') ->
  NoDup (map cid (List.concat pre ++ post)) ->
  In c (List.concat pre ++ post) ->
  count (cond_hits (cid c)) t <= (if clambda c then 2 else 1)
  /\ count (error_hits (cid c)) t <= 1.
Proof. exact (at_most_once m U s pre snaps post args kwargs st t r st' c). Qed.
Print Assumptions C16_at_most_once.

(** After a body that returned, every invariant that applies after it has been evaluated, each once and in the order
    of the list - whether or not its condition takes the instance - and nothing else in the role of an invariant.  This
    is the executable statement [spec_C16_after] that the check evaluates on the implementation's observation, proved
    of the model's observation for all cases (no side condition). *)
Theorem C16_every_invariant_after_a_return (c : CheckerCase.ccase) :
  CheckerOracle.spec_C16_after c (fst (CheckerCase.run_case c)) (snd (CheckerCase.run_case c)) = true.
Proof. exact (CheckerAfter.after_sound c). Qed.
Print Assumptions C16_every_invariant_after_a_return.

(** non-vacuity: a method of a class with two invariants, the second without parameters; five events, both after the body *)
Example C16_after_nonvacuous :
  snd (CheckerCase.run_case CheckerAfter.ex_after_case) = inl PNone
  /\ existsb is_body (fst (CheckerCase.run_case CheckerAfter.ex_after_case)) = true
  /\ CheckerOracle.inv_ids_after_body (fst (CheckerCase.run_case CheckerAfter.ex_after_case)) = [1; 2]%Z
  /\ List.length (fst (CheckerCase.run_case CheckerAfter.ex_after_case)) = 5%nat.
Proof. exact CheckerAfter.after_nonvacuous. Qed.

(** The phases of a whole call, the invariants around it included: invariants, then preconditions, captures, the body
    (once), postconditions, and the invariants again - never out of this order, for every case (the first conjunct
    [phases_ok] of the executable statement [spec_C16], proved of the model's observation; no side condition).  The
    five events of the example above pass through the phases 0, 0, 3, 5, 5. *)
Theorem C16_phases_of_a_whole_call (c : CheckerCase.ccase) :
  CheckerOracle.phases_ok 0 false (fst (CheckerCase.run_case c)) = true.
Proof. exact (CheckerAfter.phases_sound c). Qed.
Print Assumptions C16_phases_of_a_whole_call.
