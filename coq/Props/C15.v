(** * C15 - disabled contracts are absent; enabled ones do not depend on interpreter mode.
    Property theorems only (proofs: Proofs/ToggleProofs.v, Proofs/ElabProofs.v). *)
From Coq Require Import List String Bool.
From ICV Require Import Base Generated Toggle ToggleCase ToggleGen ToggleProofs Bind Checker Elab ElabProofs.
Import ListNotations.
Open Scope string_scope.

(** [icontract.SLOW] is true exactly in a non-optimised interpreter with ICONTRACT_SLOW set to a
    non-empty string - for the expression found in /repo on this run *)
Theorem C15_slow m e : slow_expr (debug_of m) (env_of e) = slow_spec m e.
Proof. exact (slow_is_spec m e). Qed.

(** the default of [enabled] of all four decorators is [__debug__]: false under -O and -OO *)
Theorem C15_default m :
  enabled_default_require (debug_of m) = debug_of m /\ enabled_default_ensure (debug_of m) = debug_of m
  /\ enabled_default_snapshot (debug_of m) = debug_of m /\ enabled_default_invariant (debug_of m) = debug_of m.
Proof. exact (defaults_are_debug m). Qed.

(** so the flag a decorator ends up with is the documented one, for every mode, environment,
    argument and decorator kind *)
Theorem C15_enabled_flag m e a k : enabled_code m e a k = enabled_spec m e a.
Proof. exact (enabled_code_is_spec m e a k). Qed.

(** non-vacuity: SLOW-guarded contracts are on in exactly one family of configurations *)
Example C15_slow_on : enabled_spec Normal (NonEmpty "1") ESlow = true. Proof. reflexivity. Qed.
Example C15_slow_off_opt : enabled_spec Opt1 (NonEmpty "1") ESlow = false. Proof. reflexivity. Qed.
Example C15_slow_off_empty : enabled_spec Normal Empty ESlow = false. Proof. reflexivity. Qed.
Example C15_default_off_opt : enabled_spec Opt2 Unset EDefault = false. Proof. reflexivity. Qed.

(** a decorator that is not enabled returns the very object it was given and changes nothing:
    no wrapper, no attribute, no list entry - for every kind of decorator, valid or not *)
Theorem C15_absent_require w cur c : apply_deco w cur (DRequire c false) = Ok (w, cur).
Proof. exact (disabled_require w cur c). Qed.
Theorem C15_absent_ensure w cur c : apply_deco w cur (DEnsure c false) = Ok (w, cur).
Proof. exact (disabled_ensure w cur c). Qed.
Theorem C15_absent_snapshot w cur s : apply_deco w cur (DSnapshot s false) = Ok (w, cur).
Proof. exact (disabled_snapshot w cur s). Qed.
Theorem C15_absent_invariant w k c co inv :
  apply_invariant w k {| id_contract := c; id_check_on := co; id_enabled := false; id_invalid := inv |} = w.
Proof. exact (disabled_invariant w k c co inv). Qed.
Theorem C15_absent_stack ds w cur : all_disabled ds -> apply_decos w cur ds = Ok (w, cur).
Proof. exact (apply_all_disabled ds w cur). Qed.
Print Assumptions C15_absent_stack.

(** the source really starts every [__call__] with the early return and stores the flag, and no
    assert statement of the library carries an effect that -O would remove *)
Theorem C15_source_facts :
  early_return_require = true /\ early_return_ensure = true /\ early_return_snapshot = true /\ early_return_invariant = true
  /\ stores_enabled_require = true /\ stores_enabled_ensure = true /\ stores_enabled_snapshot = true
  /\ stores_enabled_invariant = true.
Proof. exact early_returns. Qed.
Theorem C15_asserts_effect_free : asserts_with_possible_effect = [].
Proof. exact asserts_are_effect_free. Qed.
Print Assumptions C15_slow.
