(** * C07 - a violation always surfaces as the contract's error with the true condition text.
    Property theorems only. *)
From Coq Require Import List String ZArith Bool.
From ICV Require Import Expr PyPrims Message ExprCase ExprRefine ExprCorollaries ExprRange ExprSound MessageProofs.
Import ListNotations.
Open Scope string_scope.
Open Scope list_scope.

(** building the message never replaces the violation: for conditions without comprehensions
    the re-evaluator returns whenever Python's own evaluation did *)
Theorem C07_no_replacement_partial (P : prims) :
  (forall f a k r, p_call P f a k = Ok r -> p_callable P f = true) ->
  forall e m v m' l, simple e = true -> ev P 0 e (m, []) = Ok (v, (m', l)) -> exists r, rc P 0 e (up m, []) = Ok r.
Proof. exact (no_replacement P). Qed.
Print Assumptions C07_no_replacement_partial.

(** it evaluates no sub-expression that Python's short-circuit evaluation skipped: whatever it
    recorded, Python evaluated (same node, same value) *)
Theorem C07_no_extra_evaluation_partial (P : prims) :
  (forall f a k r, p_call P f a k = Ok r -> p_callable P f = true) ->
  forall e m v m' l x rm rl i w,
  simple e = true -> ev P 0 e (m, []) = Ok (v, (m', l)) ->
  rc P 0 e (up m, []) = Ok (x, (rm, rl)) -> In (i, w) rl -> In (i, w) l.
Proof. exact (recorded_is_computed P). Qed.

(** the same for *all* conditions - comprehensions, generator expressions and all(<generator>) included, every data
    model: outside comprehension scopes the re-evaluator evaluates nothing that Python did not evaluate (no operand
    that Python's short-circuiting skipped), whenever it returns *)
Theorem C07_no_extra_evaluation (P : prims) :
  forall e, wf e = true ->
  forall m v m' l x mr lr i w,
  ev P 0 e (m, []) = Ok (v, (m', l)) -> rc P 0 e (up m, []) = Ok (x, (mr, lr)) ->
  In (i, w) lr -> inner_of e i = false ->
  exists w', In (i, w') l /\ (w = w' \/ exists y inp, w = VAllFail y inp).
Proof. exact (recorded_was_evaluated P). Qed.
Print Assumptions C07_no_extra_evaluation.

(** the message: location, description, condition text, then the value lines *)
Theorem C07_message_shape R loc desc text ls :
  generate_message R (Some loc) (Some desc) text ls =
  (loc ++ ":" ++ nl ++ desc ++ ": " ++ text ++
   match ls with [] => "" | [p] => ": " ++ render_line R p | _ => ":" ++ nl ++ String.concat nl (map (render_line R) ls) end)%string.
Proof.
  unfold generate_message. rewrite !sapp_assoc. reflexivity.
Qed.

(** non-vacuity: the guards the property names, under the concrete data model *)
Definition guard_and : expr :=
  EBool true (ECons (EName "xs") (ECons (ECmp (ESub (EName "xs") (EConst (VInt 0))) (CCons CGt (EConst (VInt 0)) CNil)) ENil)).
Example C07_guard_and : simple guard_and = true /\
  exists l, rc py_prims 0 guard_and (up [("xs", VList [])], []) = Ok (Some (VList []), (up [("xs", VList [])], l)) /\ List.length l = 2%nat.
Proof. split; [reflexivity|]. eexists. vm_compute. split; reflexivity. Qed.

Definition guard_chain : expr :=
  ECmp (EConst (VInt 0)) (CCons CLt (EName "n") (CCons CLt (EBin BFloorDiv (EConst (VInt 10)) (EName "n")) CNil)).
Example C07_guard_chain : simple guard_chain = true /\
  exists l, rc py_prims 0 guard_chain (up [("n", VInt 0)], []) = Ok (Some (VBool false), (up [("n", VInt 0)], l)).
Proof. split; [reflexivity|]. eexists. vm_compute. reflexivity. Qed.

(** D12b (recorded finding): inside a comprehension the parts are visited on their own.
    all(10 // n > v for v in xs) and flag   with n = 0, xs = [], flag = False: Python gives False,
    the re-evaluator raises (ZeroDivisionError) while it visits the element on its own. *)
Definition spec_body : expr :=
  EBool true (ECons (ECall (EName "all")
     (ECons (EComp KGen (ECmp (EBin BFloorDiv (EConst (VInt 10)) (EName "n")) (CCons CGt (EName "v") CNil)) EOmit
                   (GCons ["v"] false (EName "xs") ENil GNil)) ENil) KNil) (ECons (EName "flag") ENil)).
Theorem C07_speculative_refuted :
  let m := [("n", VInt 0); ("xs", VList []); ("flag", VBool false)] in
  (exists m' l, ev py_prims 0 spec_body (m, []) = Ok (VBool false, (m', l))) /\
  rc py_prims 0 spec_body (up m, []) = Err Speculative.
Proof. split; [eexists; eexists; vm_compute; reflexivity|vm_compute; reflexivity]. Qed.
