(** * C19 - misuse is rejected at the earliest point with the documented error.
    Property theorems only (proofs: Proofs/ElabProofs.v, Proofs/CheckerFrame.v, Proofs/CheckerAfter.v).
    Definition time = [define_function] / [define_class] of Model/Elab.v returning [Err];
    call time = the guards of [checker_call]. *)
From ICV Require Import Base Bind Checker CheckerSpec CheckerFrame Elab ElabProofs.
From ICV Require CheckerCase CheckerOracle CheckerAfter.
Open Scope string_scope.
Open Scope list_scope.

(** a decorator that cannot be constructed (an [error] that is neither exception class, exception
    instance nor function; a snapshot without usable name; an invariant condition with parameters
    other than self or a coroutine function) aborts the definition with its documented exception
    before anything is decorated *)
Theorem C19_invalid_decorator w s a ds e :
  construction_error (rev ds) = Some e -> define_function w s a ds = Err e.
Proof. exact (invalid_decorator_rejected w s a ds e). Qed.

(** a parameter named _ARGS or _KWARGS: TypeError when the function is decorated *)
Theorem C19_reserved_parameter w cur f :
  get_func w cur = Some f -> sig_reserved (fo_sig f) = true -> decorate_with_checker w cur = Err "TypeError".
Proof. exact (reserved_parameter_rejected w cur f). Qed.

(** a snapshot placed before any postcondition: ValueError at definition time *)
Theorem C19_snapshot_without_checker w cur s :
  find_checker w cur = None -> apply_deco w cur (DSnapshot s true) = Err "ValueError".
Proof. exact (snapshot_without_checker_rejected w cur s). Qed.
Theorem C19_snapshot_without_postcondition w cur s ch chf rs rq :
  find_checker w cur = Some ch -> get_func w ch = Some chf ->
  fo_snaps chf = Some rs -> fo_post chf = Some rq -> contracts_of w rq = [] ->
  apply_deco w cur (DSnapshot s true) = Err "ValueError".
Proof. exact (snapshot_without_postcondition_rejected w cur s ch chf rs rq). Qed.

(** two snapshots with the same name on one function: ValueError *)
Theorem C19_duplicate_snapshot w cur s ch chf rs rq :
  find_checker w cur = Some ch -> get_func w ch = Some chf ->
  fo_snaps chf = Some rs -> fo_post chf = Some rq -> contracts_of w rq <> [] ->
  str_in (sname s) (snap_names w rs) = true ->
  apply_deco w cur (DSnapshot s true) = Err "ValueError".
Proof. exact (duplicate_snapshot_rejected w cur s ch chf rs rq). Qed.
Print Assumptions C19_duplicate_snapshot.

(** a keyword argument named _ARGS / _KWARGS, or a parameter named result / OLD on a function with
    postconditions: the call fails with TypeError before any condition, capture or the body *)
Theorem C19_reserved_at_call m U s pre snaps post args kwargs st t r st' :
  checker_call m U s pre snaps post args kwargs st = (t, r, st') ->
  reserved_kw kwargs = true \/ clashing_names s post args kwargs = true ->
  t = [] /\ r = inr (XLib "TypeError" None) /\ st' = st.
Proof.
  intros H Hm. apply checker_call_graph in H.
  inversion H as [Hr | Hr Hc | tp x Hr Hc E | tp x Hr Hc E | tp tc x Hr Hc E Hcap Ecap
                  | tp tc old tb r0 st0 Hr Hc E Hcap Hbx]; subst; auto;
    destruct Hm as [Hm|Hm]; congruence.
Qed.
Print Assumptions C19_reserved_at_call.

(** For every case - any kind of callable, invariants around it or not: a keyword argument named [_ARGS] / [_KWARGS],
    or - with postconditions - an argument bound to a parameter named [result] / [OLD], makes the whole call fail with
    TypeError before the body runs, once the invariants in front of a method have been evaluated and hold.  This is the
    executable statement [spec_C19_call] that the check evaluates on the implementation's observation, proved of the
    model's observation for all cases (no side condition). *)
Theorem C19_reserved_names_in_a_whole_call (c : CheckerCase.ccase) :
  CheckerOracle.spec_C19_call c (fst (CheckerCase.run_case c)) (snd (CheckerCase.run_case c)) = true.
Proof. exact (CheckerAfter.call_guard_sound c). Qed.
Print Assumptions C19_reserved_names_in_a_whole_call.

(** non-vacuity: a method with a precondition under an invariant, called with a keyword [_ARGS]: one event (the
    invariant), then TypeError *)
Example C19_whole_call_nonvacuous :
  CheckerOracle.has_checker CheckerAfter.ex_guard_case && reserved_kw (CheckerCase.k_kwargs CheckerAfter.ex_guard_case)
  && CheckerOracle.invs_hold_ CheckerAfter.ex_guard_case (CheckerOracle.invs_before CheckerAfter.ex_guard_case)
                              (CheckerCase.k_store CheckerAfter.ex_guard_case) = true
  /\ snd (CheckerCase.run_case CheckerAfter.ex_guard_case) = inr (XLib "TypeError" None)
  /\ List.length (fst (CheckerCase.run_case CheckerAfter.ex_guard_case)) = 1%nat.
Proof. exact CheckerAfter.guard_nonvacuous. Qed.
