(** * C04 - inherited contracts combine per Liskov: pre OR-ed, post and invariants AND-ed.
    Property theorems only (proofs: Proofs/ElabProofs.v).  The merge performed at class creation
    (Model/Elab.v, [decorate_namespace_fn]: base groups ++ own group, base postconditions ++ own)
    denotes, in the declarative semantics of Spec/CheckerSpec.v: *)
From ICV Require Import Base Bind Checker CheckerSpec Elab ElabProofs ElabCase ElabOracle ElabSkeleton ElabHidden.
Open Scope string_scope.
Open Scope list_scope.

(** the effective precondition is the disjunction of the inherited groups and the own group *)
Theorem C04_pre_or m U resolved st bg og :
  bg <> [] ->
  pre_holds m U (bg ++ og) resolved st
  = pre_holds m U bg resolved st || existsb (group_holds m U resolved st) og.
Proof. exact (pre_or m U resolved st bg og). Qed.

(** a redefinition that declares none keeps the inherited precondition *)
Theorem C04_pre_kept m U resolved st bg :
  pre_holds m U (bg ++ []) resolved st = pre_holds m U bg resolved st.
Proof. exact (pre_kept m U resolved st bg). Qed.

(** a method with no precondition at all accepts every call *)
Theorem C04_accept_all m U resolved st : pre_holds m U [] resolved st = true.
Proof. exact (pre_accept_all m U resolved st). Qed.

(** the effective postcondition is the conjunction of all postconditions along the chain *)
Theorem C04_post_and m U resolved st bp op :
  posts_hold m U (bp ++ op) resolved st
  = posts_hold m U bp resolved st && posts_hold m U op resolved st.
Proof. exact (post_and m U resolved st bp op). Qed.
Print Assumptions C04_post_and.

(** adding preconditions to a method whose ancestors declare none is rejected when the class is created *)
Theorem C04_weaken_rejected w bases dbc key acc f :
  is_ctor key = false ->
  (let '(have0, bg, _, _) := collect_bases w bases key acc in
   is_nil bg = true
   /\ (have0 || (dbc && str_in key object_slots && match acc with MGet | MSet | MDel => false | _ => true end)) = true) ->
  (let '(g, _, _) := lists_of_checker w (find_checker w f) in is_nil g = false) ->
  decorate_namespace_fn w bases dbc key acc f = Err "TypeError".
Proof. exact (weaken_rejected w bases dbc key acc f). Qed.
Print Assumptions C04_weaken_rejected.

(** Known finding (D6), exhibited on the model: with two bases of which one declares no
    precondition for [f], the overriding class still demands the other base's precondition. *)
Definition c1 : contract := {| cid := 1; cargs := []; cmandatory := []; ckind_ := CKPlain; cerror := ENone; clambda := false |}.
Definition sig0 : sig := {| posonly := []; poskw := [{| pname := "self"; pdefault := None |}]; varpos := None; kwonly := []; varkw := None |}.
Definition mf (ds : list deco) : mdecl := {| md_name := "f"; md_kind := MPlain; md_async := false; md_sig := sig0; md_decos := ds; md_inherit := None |}.
Definition witness : list defop :=
  [DefClass {| cd_bases := []; cd_dbc := true; cd_members := [mf [DRequire c1 true]]; cd_invs := [] |};   (* P *)
   DefClass {| cd_bases := []; cd_dbc := true; cd_members := [mf []]; cd_invs := [] |};                    (* Q: f accepts all *)
   DefClass {| cd_bases := [0; 1]; cd_dbc := false; cd_members := [mf []]; cd_invs := [] |}].             (* R(P, Q) overrides f *)
Theorem C04_accept_all_refuted :
  let w := fst (run_defs empty_world witness) in
  match class_getattr w 2 "f" with
  | Some (MemFunc _ f) =>
      match find_checker w f with
      | Some ch => match get_func w ch with
                   | Some fo => match fo_pre fo with Some r => map (map cid) (groups_of w r) | None => [] end
                   | None => []
                   end
      | None => []
      end
  | _ => []
  end = [[1%Z]].
Proof. vm_compute. reflexivity. Qed.
Print Assumptions C04_accept_all_refuted.

(** The oracles of the elaboration cluster ([spec_C04] and the others in Spec/ElabOracle.v) judge an observed history on
    the hierarchy its own outcomes give ([skeleton_world]).  On the model's own history that hierarchy is the one of the
    world the model reaches: liveness, resolution orders and "created through the meta-class" read the same. *)
Theorem C04_oracle_hierarchy_is_the_models ops :
  let ws := skeleton_world ops (snd (run_defs empty_world ops)) in
  let w := fst (run_defs empty_world ops) in
  List.length (w_classes ws) = List.length (w_classes w)
  /\ (forall k, is_live ws k = is_live w k)
  /\ (forall k, mro_of ws k = mro_of w k)
  /\ (forall k, match get_class ws k with Some c => co_meta c | None => false end
                = match get_class w k with Some c => co_meta c | None => false end).
Proof. exact (skeleton_reads_the_same ops). Qed.
Print Assumptions C04_oracle_hierarchy_is_the_models.

(** The class of the recorded finding D36 - a definer the meta-class does not reach - is empty wherever every class has
    at most one base: a change that loses inherited contracts in a single-inheritance hierarchy cannot hide there. *)
Theorem C04_hidden_definer_needs_two_bases decls mro name acc :
  (forall k d, nth_error decls k = Some d ->
     (cd_bases d = [] /\ mro k = [k]) \/ (exists b, cd_bases d = [b] /\ b < k /\ mro k = k :: mro b)) ->
  (forall k, nth_error decls k = None -> mro k = []) ->
  forall p d m0, nth_error decls p = Some d -> own_member d name acc = Some m0 ->
  hidden_definers decls mro p name acc = [].
Proof. exact (single_inheritance_hides_nothing decls mro name acc). Qed.
Print Assumptions C04_hidden_definer_needs_two_bases.
