(** * C14 - satisfied contracts are transparent (run-time clauses).
    Property theorems only (proofs: Proofs/CheckerProps.v; the single-checker clause over decorator
    stacks and the class clauses are in Proofs/ElabProofs.v and stated below once that file exists). *)
From ICV Require Import Base Bind Checker CheckerSpec CheckerFrame CheckerProps.
Open Scope string_scope.
Open Scope list_scope.

(** When the contracts hold the caller receives the very object the body returned ... *)
Theorem C14_result_unchanged m U s pre snaps post args kwargs st t r st' v stb :
  checker_call m U s pre snaps post args kwargs st = (t, r, st') ->
  existsb is_body t = true ->
  u_body U args kwargs st = (BRet v, stb) ->
  exists old,
    st' = stb
    /\ (posts_hold m U post (resolved_post s snaps post args kwargs old v) stb = true -> r = inl v).
Proof.
  intros H Hb Hu.
  destruct (post_violation_is_first_falsy m U s pre snaps post args kwargs st t r st' v stb H Hb Hu)
    as (old & Hs & _ & Hok & _).
  exists old. split; assumption.
Qed.

(** ... or the very exception object it raised; *)
Theorem C14_exception_unchanged m U s pre snaps post args kwargs st t r st' e stb :
  checker_call m U s pre snaps post args kwargs st = (t, r, st') ->
  existsb is_body t = true ->
  u_body U args kwargs st = (BRaise e, stb) ->
  r = inr (XObj e) /\ st' = stb /\ existsb (is_cond_of RPost) t = false.
Proof. exact (body_exception_passes_unchanged m U s pre snaps post args kwargs st t r st' e stb). Qed.

(** and the body is entered whenever the effective precondition holds. *)
Theorem C14_body_entered m U s pre snaps post args kwargs st t r st' :
  checker_call m U s pre snaps post args kwargs st = (t, r, st') ->
  reserved_kw kwargs = false -> clashing_names s post args kwargs = false ->
  pre_benign m U s pre args kwargs st -> snaps_benign m U s snaps args kwargs st ->
  pybind s args kwargs <> None ->
  pre_holds m U pre (resolve_sig s args kwargs) st = true ->
  existsb is_body t = true.
Proof. exact (accept_when_pre_holds m U s pre snaps post args kwargs st t r st'). Qed.
Print Assumptions C14_result_unchanged.

(** The body receives what Python binds for the call: the only body event of a run is
    [EvBody env st] with [pybind s args kwargs = Some env]. *)
Theorem C14_identical_arguments U s args kwargs st t r st' :
  run_body U s args kwargs st = (t, r, st') ->
  match pybind s args kwargs with
  | None => t = [] /\ r = inr (XLib "TypeError" None) /\ st' = st
  | Some env =>
      t = [EvBody env st]
      /\ match u_body U args kwargs st with
         | (BRet v, stb) => r = inl v /\ st' = stb
         | (BRaise e, stb) => r = inr (XObj e) /\ st' = stb
         end
  end.
Proof. exact (run_body_inv U s args kwargs st t r st'). Qed.
Print Assumptions C14_identical_arguments.
