(** * C03 - invariants are checked around every public operation on a constructed object.
    Property theorems only. (run-time wrappers: Proofs/CheckerFrame.v; member selection:
    Proofs/ElabSelect.v) *)
From ICV Require Import Base Bind Checker CheckerSpec CheckerFrame Elab ElabSelect.
From ICV Require CheckerCase CheckerOracle CheckerAfter.
Open Scope string_scope.
Open Scope list_scope.

(** Around a public operation: the selected invariants are evaluated before, in list order up to
    the first falsy one; a violation before keeps the body from running; if the operation returns
    they are evaluated again after; its exception passes through unchanged. *)
Theorem C03_before_and_after U invs self inner st t r st' :
  method_call U invs self inner st = (t, r, st') ->
  (exists x, check_invariants U invs self st = (t, inr x, st) /\ r = inr x /\ st' = st)
  \/ (exists t1 t2 r2 st2,
         check_invariants U invs self st = (t1, inl tt, st)
         /\ inner st = (t2, r2, st2) /\ st' = st2
         /\ ((exists x, r2 = inr x /\ t = t1 ++ t2 /\ r = inr x)
             \/ (exists v t3 r3, r2 = inl v
                                 /\ check_invariants U invs self st2 = (t3, r3, st2)
                                 /\ t = t1 ++ t2 ++ t3
                                 /\ r = match r3 with inl _ => inl v | inr x => inr x end))).
Proof. exact (method_call_graph U self invs inner st t r st'). Qed.

(** After the constructor returns all invariants are evaluated; none before it ran. *)
Theorem C03_after_constructor U invs self inner st t r st' :
  init_call U invs self inner st = (t, r, st') ->
  exists t2 r2 st2,
    inner st = (t2, r2, st2) /\ st' = st2
    /\ ((exists x, r2 = inr x /\ t = t2 /\ r = inr x)
        \/ (exists v t3 r3, r2 = inl v
                            /\ check_invariants U invs self st2 = (t3, r3, st2)
                            /\ t = t2 ++ t3
                            /\ r = match r3 with inl _ => inl v | inr x => inr x end)).
Proof. exact (init_call_graph U self invs inner st t r st'). Qed.

(** One pass over the invariants: all hold, or the first falsy one (in list order) is reported. *)
Theorem C03_first_falsy_invariant U self invs st t res st' :
  check_invariants U invs self st = (t, res, st') ->
  st' = st /\ only inv_event t /\
  match res with
  | inl _ => invs_hold U self invs st = true
  | inr x => exists c, find (fun c => negb (inv_holds U self st c)) invs = Some c
                       /\ (inv_val U self c st = inr x
                           \/ (inv_val U self c st = inl false
                               /\ (error_of U RInv c [("self", self)] st = inl x
                                   \/ error_of U RInv c [("self", self)] st = inr x)))
  end.
Proof. exact (check_invariants_spec U self invs st t res st'). Qed.
Print Assumptions C03_first_falsy_invariant.

(** Member selection: which members of a class get the before/after wrapper - exactly the public or
    dunder functions and property accessors, never _x / __x, class and static methods, __new__,
    __repr__, __getattribute__, and __setattr__ only if attribute-set checking was requested. *)
Theorem C03_selection w k name :
  wrap_member w k name = w
  \/ (must_wrap_name w k name = true
      /\ match class_getattr w k name with
         | Some (MemFunc MPlain _) | Some (MemSlot _) | Some (MemProp _ _ _) => True
         | _ => False
         end).
Proof. exact (wrap_member_selects w k name). Qed.
Print Assumptions C03_selection.

(** Constructor chains (Model/Ctor.v): whatever the constructors of the chain do - call
    [super().__init__()] first, last, twice or never - [K()] runs every constructor body first,
    evaluating no invariant in between, and only then, if the class has invariants, evaluates them -
    inherited first, up to the first falsy one - on the finished object. *)
From ICV Require Import Ctor CtorCase CtorProofs.
Theorem C03_outermost_constructor ch V k :
  exists bodies final,
    run_body (S (List.length ch)) ch k 0 = (bodies, final) /\
    Forall (fun e => is_inv e = false) bodies /\
    construct ch V k =
      if has_invs ch k
      then (bodies ++ fst (check_invs V (all_invs ch k) final), snd (check_invs V (all_invs ch k) final))
      else (bodies, None).
Proof. exact (construct_shape ch V k). Qed.
Print Assumptions C03_outermost_constructor.

Theorem C03_constructor_first_falsy V ids st id :
  snd (check_invs V ids st) = Some id ->
  exists pre post, ids = pre ++ id :: post /\ V id st = false /\ forall x, In x pre -> V x st = true.
Proof. exact (check_invs_first V ids st id). Qed.

(** non-vacuity: the idiom of D3 - the base constructor is called first, the sub-class invariant
    needs an attribute the sub-class constructor sets afterwards *)
Example C03_constructor_example :
  construct [{| c_invs := [1]; c_init := Some [] |}; {| c_invs := [2]; c_init := Some [ASuper; AStage 1] |}]
            (fun id st => match id with 2 => Nat.leb 1 st | _ => true end) 1
  = ([EInit 1 0; EInit 0 0; EInv 1 1; EInv 2 1], None).
Proof. reflexivity. Qed.

(** Every invariant that applies after an operation is evaluated after every return of its body, each once and in the
    order of the list, whatever the parameters of its condition ([spec_C16_after], the executable statement that the
    check evaluates on the implementation's observation; for the model and every case - Proofs/CheckerAfter.v). *)
Theorem C03_every_invariant_after_a_return (c : CheckerCase.ccase) :
  CheckerOracle.spec_C16_after c (fst (CheckerCase.run_case c)) (snd (CheckerCase.run_case c)) = true.
Proof. exact (CheckerAfter.after_sound c). Qed.
Print Assumptions C03_every_invariant_after_a_return.
