(** * C03 - invariants are checked around every public operation on a constructed object.
    Property theorems only. (run-time wrappers: Proofs/CheckerFrame.v; member selection:
    Proofs/ElabSelect.v) *)
From ICV Require Import Base Bind Checker CheckerSpec CheckerFrame Elab ElabSelect.
Open Scope string_scope.
Open Scope list_scope.

(** Around a public operation: the selected invariants are evaluated before, in list order up to
    the first falsy one; a violation before keeps the body from running; if the operation returns
    they are evaluated again after; its exception passes through unchanged. *)
Theorem C03_before_and_after U invs self inner st t r st' :
  method_call U invs self inner st = (t, r, st') ->
  (exists x, check_invariants U invs self st = (t, inr x, st) /\ r = inr x /\ st' = st)
  \/ (exists t1 t2 r2 st2,
         check_invariants U invs self st = (t1, inl tt, st)
         /\ inner st = (t2, r2, st2) /\ st' = st2
         /\ ((exists x, r2 = inr x /\ t = t1 ++ t2 /\ r = inr x)
             \/ (exists v t3 r3, r2 = inl v
                                 /\ check_invariants U invs self st2 = (t3, r3, st2)
                                 /\ t = t1 ++ t2 ++ t3
                                 /\ r = match r3 with inl _ => inl v | inr x => inr x end))).
Proof. exact (method_call_graph U self invs inner st t r st'). Qed.

(** After the constructor returns all invariants are evaluated; none before it ran. *)
Theorem C03_after_constructor U invs self inner st t r st' :
  init_call U invs self inner st = (t, r, st') ->
  exists t2 r2 st2,
    inner st = (t2, r2, st2) /\ st' = st2
    /\ ((exists x, r2 = inr x /\ t = t2 /\ r = inr x)
        \/ (exists v t3 r3, r2 = inl v
                            /\ check_invariants U invs self st2 = (t3, r3, st2)
                            /\ t = t2 ++ t3
                            /\ r = match r3 with inl _ => inl v | inr x => inr x end)).
Proof. exact (init_call_graph U self invs inner st t r st'). Qed.

(** One pass over the invariants: all hold, or the first falsy one (in list order) is reported. *)
Theorem C03_first_falsy_invariant U self invs st t res st' :
  check_invariants U invs self st = (t, res, st') ->
  st' = st /\ only inv_event t /\
  match res with
  | inl _ => invs_hold U self invs st = true
  | inr x => exists c, find (fun c => negb (inv_holds U self st c)) invs = Some c
                       /\ (inv_val U self c st = inr x
                           \/ (inv_val U self c st = inl false
                               /\ (error_of U RInv c [("self", self)] st = inl x
                                   \/ error_of U RInv c [("self", self)] st = inr x)))
  end.
Proof. exact (check_invariants_spec U self invs st t res st'). Qed.
Print Assumptions C03_first_falsy_invariant.

(** Member selection: which members of a class get the before/after wrapper - exactly the public or
    dunder functions and property accessors, never _x / __x, class and static methods, __new__,
    __repr__, __getattribute__, and __setattr__ only if attribute-set checking was requested. *)
Theorem C03_selection w k name :
  wrap_member w k name = w
  \/ (must_wrap_name w k name = true
      /\ match class_getattr w k name with
         | Some (MemFunc MPlain _) | Some (MemSlot _) | Some (MemProp _ _ _) => True
         | _ => False
         end).
Proof. exact (wrap_member_selects w k name). Qed.
Print Assumptions C03_selection.
