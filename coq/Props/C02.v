(** * C02 - postconditions gate every normal return; results and exceptions pass unchanged.
    Property theorems only (proofs: Proofs/CheckerFrame.v, Proofs/CheckerProps.v, Proofs/CheckerAfter.v). *)
From ICV Require Import Base Bind Checker CheckerSpec CheckerFrame CheckerProps.
From ICV Require CheckerCase CheckerOracle CheckerAfter.
Open Scope string_scope.
Open Scope list_scope.

(** A normal return hands the caller the very object the body returned, and then every effective
    postcondition held for [result] = that object, the arguments in the post-body store and OLD. *)
Theorem C02_return m U s pre snaps post args kwargs st t r st' v :
  checker_call m U s pre snaps post args kwargs st = (t, r, st') -> r = inl v ->
  exists old stb,
    u_body U args kwargs st = (BRet v, stb) /\ st' = stb
    /\ posts_hold m U post (resolved_post s snaps post args kwargs old v) stb = true.
Proof. exact (return_means_posts_hold m U s pre snaps post args kwargs st t r st' v). Qed.
Print Assumptions C02_return.

(** When the body returned [v]: all postconditions hold => the caller gets [v]; otherwise (and the
    postconditions themselves do not raise) the error of the first falsy one, in list order. *)
Theorem C02_gate m U s pre snaps post args kwargs st t r st' v stb :
  checker_call m U s pre snaps post args kwargs st = (t, r, st') ->
  existsb is_body t = true ->
  u_body U args kwargs st = (BRet v, stb) ->
  exists old,
    let res := resolved_post s snaps post args kwargs old v in
    st' = stb
    /\ (if capturing snaps post
        then exists tc, capture_old m U snaps (resolve_sig s args kwargs) [] st = (tc, inl old, st)
        else old = [])
    /\ (posts_hold m U post res stb = true -> r = inl v)
    /\ (posts_hold m U post res stb = false -> posts_benign m U post res stb ->
        exists c x, first_failing m U RPost true res stb post = Some c
                    /\ error_of U RPost c res stb = inl x /\ r = inr x).
Proof. exact (post_violation_is_first_falsy m U s pre snaps post args kwargs st t r st' v stb). Qed.
Print Assumptions C02_gate.

(** If the body raises, that exception object reaches the caller unchanged and no postcondition
    is evaluated - for every exception (the tag is arbitrary: BaseException subclasses included). *)
Theorem C02_raise m U s pre snaps post args kwargs st t r st' e stb :
  checker_call m U s pre snaps post args kwargs st = (t, r, st') ->
  existsb is_body t = true ->
  u_body U args kwargs st = (BRaise e, stb) ->
  r = inr (XObj e) /\ st' = stb /\ existsb (is_cond_of RPost) t = false.
Proof. exact (body_exception_passes_unchanged m U s pre snaps post args kwargs st t r st' e stb). Qed.
Print Assumptions C02_raise.

(** Non-vacuity: a falsy result (None) passes two postconditions and is returned as is; a raising body. *)
Definition ex_U (b : body_result) : user :=
  {| u_cond := fun _ _ _ => CRet true; u_capture := fun _ _ _ => CapRet PNone;
     u_error := fun _ _ => ERetOther; u_body := fun _ _ st => (b, st) |}.
Definition ex_c (n : Z) : contract :=
  {| cid := n; cargs := ["result"]; cmandatory := ["result"]; ckind_ := CKPlain; cerror := ENone; clambda := false |}.
Definition ex_s : sig := {| posonly := []; poskw := []; varpos := None; kwonly := []; varkw := None |}.
Example C02_nonvacuous :
  snd (run_M (checker_call Async (ex_U (BRet PNone)) ex_s [] [] [ex_c 1; ex_c 2] [] []) []) = inl PNone
  /\ snd (run_M (checker_call Sync (ex_U (BRaise 17)) ex_s [] [] [ex_c 1; ex_c 2] [] []) []) = inr (XObj 17).
Proof. vm_compute. split; reflexivity. Qed.

(** For every case - function, method, accessor, constructor, with or without invariants around it: a call that
    returns normally has run its body, and what the caller receives is what the body returned (the instance for a
    constructor call, nothing for an assignment or a deletion).  The first clause of the executable statement
    [spec_C02] that the check evaluates on the implementation's observation, here for the model and all cases. *)
Theorem C02_a_return_is_the_bodys (c : CheckerCase.ccase) w :
  snd (CheckerCase.run_case c) = inl w ->
  existsb is_body (fst (CheckerCase.run_case c)) = true
  /\ exists v stb, u_body (CheckerCase.case_user c) (CheckerCase.k_args c) (CheckerCase.k_kwargs c) (CheckerCase.k_store c)
                   = (BRet v, stb)
                   /\ w = CheckerOracle.adjust c v.
Proof. exact (CheckerAfter.return_is_the_bodys c w). Qed.
Print Assumptions C02_a_return_is_the_bodys.

(** non-vacuity: the method of [CheckerAfter.ex_after_case] returns *)
Example C02_a_return_nonvacuous : snd (CheckerCase.run_case CheckerAfter.ex_after_case) = inl PNone.
Proof. exact (proj1 CheckerAfter.after_nonvacuous). Qed.
