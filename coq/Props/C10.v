(** * C10 - contracts calling contracted code terminate; only own re-entry goes unchecked.
    Property theorems only (proofs: Proofs/RunRefine.v, Proofs/RunTerminates.v).

    The declarative rule is Spec/RunRef.v: a call is run bare iff an open frame of the same
    function (resp. the same instance) is evaluating that function's contracts (resp. that
    instance's invariants, constructor or public method); every other call - recursive calls from
    a body, calls on other instances - is fully checked. *)
From Coq Require Import List ZArith Bool Arith Lia.
From ICV Require Import Run RunCase RunRef RunProofs RunRefine RunTerminates.
Import ListNotations.

(** The marker kept in the context variable implements exactly that rule: for every program,
    target, fuel and cancellation plan, and every in-progress set reflecting the open frames,
    the same user code runs in the same order with the same outcome. *)
Theorem C10_skip_only_own P plan fuel t stack s :
  reflects s stack ->
  fst (run_seq plan (exec P fuel t) s) = ref_exec P plan fuel stack t.
Proof. exact (exec_refines_stack_rule P plan fuel t stack s). Qed.
Print Assumptions C10_skip_only_own.

(** Termination: if the bodies are ranked (the uncontracted program terminates) then, however
    often and however deeply conditions, captures and invariants re-enter, the nesting depth of
    calls stays below [(#functions + #instances + 1) * (R + 1)]: the interpreter never exhausts a
    budget of that size. *)
Theorem C10_terminates P plan rank R t s :
  well_formed P -> ranked P rank R -> valid_target P t ->
  forall tr out s',
    run_seq plan (exec P ((List.length (all_keys P) + 1) * (R + 1)) t) s = (tr, out, s') ->
    out <> OExn EFuel.
Proof. intros Hwf Hrk Hv. exact (depth_bound P plan rank R Hwf Hrk t s Hv). Qed.
Print Assumptions C10_terminates.

(** Non-vacuity: a precondition that calls its own function twice and a postcondition that calls a
    function whose body calls back (the shape that recursed endlessly before the repair). *)
Definition ex_f0 : fn :=
  {| fn_pre := [[([ACall (TFn 0); ACall (TFn 0)], VRet true)]]; fn_snaps := [];
     fn_post := [([ACall (TFn 1)], VRet true)]; fn_body := ([], VRet true) |}.
Definition ex_f1 : fn :=
  {| fn_pre := []; fn_snaps := []; fn_post := []; fn_body := ([ACall (TFn 0)], VRet true) |}.
Definition ex_P : program := {| p_fns := [ex_f0; ex_f1]; p_classes := []; p_objs := [] |}.
Definition ex_rank (t : target) : nat := match t with TFn 1 => 1 | _ => 0 end.
Example C10_nonvacuous :
  well_formed ex_P /\ ranked ex_P ex_rank 1 /\ valid_target ex_P (TFn 0)
  /\ snd (fst (run_seq no_faults (exec ex_P 6 (TFn 0)) [])) = ORet true.
Proof.
  assert (forall f fd, get_fn ex_P f = Some fd -> (f = 0 /\ fd = ex_f0) \/ (f = 1 /\ fd = ex_f1)) as Hfn.
  { intros f fd Hf. unfold get_fn in Hf. destruct f as [|[|f]]; cbn in Hf.
    - injection Hf as <-. left. split; reflexivity.
    - injection Hf as <-. right. split; reflexivity.
    - destruct f; discriminate. }
  assert (forall o, class_of ex_P o = None) as Hcls.
  { intros o. unfold class_of. destruct o; reflexivity. }
  split; [|split; [|split]].
  - split.
    + intros f fd Hf sc Hsc t Ht. destruct (Hfn f fd Hf) as [[-> ->]|[-> ->]]; cbn in Hsc.
      * destruct Hsc as [<-|[<-|[<-|[]]]]; cbn in Ht;
          repeat (destruct Ht as [<-|Ht]; [cbn; unfold get_fn; cbn; discriminate|]); destruct Ht.
      * destruct Hsc as [<-|[]]; cbn in Ht;
          repeat (destruct Ht as [<-|Ht]; [cbn; unfold get_fn; cbn; discriminate|]); destruct Ht.
    + intros o cd Ho. rewrite Hcls in Ho. discriminate.
  - repeat split.
    + intros f fd Hf t Ht. destruct (Hfn f fd Hf) as [[-> ->]|[-> ->]]; cbn in Ht.
      * destruct Ht.
      * destruct Ht as [<-|[]]. cbn. lia.
    + intros o cd m body Ho. rewrite Hcls in Ho. discriminate.
    + intros o cd Ho. rewrite Hcls in Ho. discriminate.
    + intros o cd Ho. rewrite Hcls in Ho. discriminate.
    + intros [[|[|f]]|o m|o|o]; cbn; lia.
  - cbn. unfold get_fn. cbn. discriminate.
  - vm_compute. reflexivity.
Qed.
