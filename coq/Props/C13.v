(** * C13 - async callables get the same contract semantics as sync ones.
    Property theorems only (proofs: Proofs/CheckerDispatch.v; the tie of the two wrappers in
    /repo to the one model function is the skeleton-parity lemma over Gen/Generated.v below and
    the paired correspondence of harness/c13.py). *)
From ICV Require Import Base Bind Checker CheckerSpec CheckerFrame CheckerDispatch.
Open Scope string_scope.
Open Scope list_scope.

(** An [async def] callable, awaited, produces exactly the events, outcome and store of the sync
    callable in which every coroutine-function / awaitable-returning condition and capture is
    replaced by its awaited value: they are awaited before being judged. *)
Theorem C13_awaited U s pre snaps post args kwargs st :
  checker_call Async U s pre snaps post args kwargs st
  = checker_call Sync U s (map (map plainify) pre) (map plainify_snap snaps) (map plainify post)
                 args kwargs st.
Proof. exact (async_is_sync_awaited U s pre snaps post args kwargs st). Qed.
Print Assumptions C13_awaited.

(** With sync-valued conditions and captures: the same sequence of condition, capture and body
    evaluations and the same outcome. *)
Theorem C13_same_observation U s pre snaps post args kwargs st :
  (forall g c, In g pre -> In c g -> ckind_ c = CKPlain) ->
  (forall sn, In sn snaps -> skind sn = CKPlain) ->
  (forall c, In c post -> ckind_ c = CKPlain) ->
  checker_call Async U s pre snaps post args kwargs st
  = checker_call Sync U s pre snaps post args kwargs st.
Proof. exact (async_equals_sync U s pre snaps post args kwargs st). Qed.
Print Assumptions C13_same_observation.

(** On a sync callable a coroutine condition / capture is rejected (ValueError; TypeError if its
    arguments are not available) - it is never taken as truthy. *)
Theorem C13_sync_rejects_condition U r cf c resolved st :
  ckind_ c <> CKPlain ->
  exists t, eval_condition Sync U r cf c resolved st = (t, inr (XLib "ValueError" None), st)
            \/ eval_condition Sync U r cf c resolved st = (t, inr (XLib "TypeError" None), st).
Proof. exact (sync_rejects_coroutine_condition U r cf c resolved st). Qed.

Theorem C13_sync_rejects_capture U s resolved st :
  skind s <> CKPlain ->
  exists t, capture_one Sync U s resolved st = (t, inr (XLib "ValueError" None), st)
            \/ capture_one Sync U s resolved st = (t, inr (XLib "TypeError" None), st).
Proof. exact (sync_rejects_coroutine_capture U s resolved st). Qed.
Print Assumptions C13_sync_rejects_condition.

(** Non-vacuity: an async call with a coroutine-function precondition that is falsy is rejected
    with that contract's error, exactly like its plain twin on a sync callable. *)
Definition ex_U : user :=
  {| u_cond := fun _ _ _ => CRet false; u_capture := fun _ _ _ => CapRet PNone;
     u_error := fun _ _ => ERetOther; u_body := fun _ _ st => (BRet PNone, st) |}.
Definition ex_c : contract :=
  {| cid := 1; cargs := []; cmandatory := []; ckind_ := CKCoroFn; cerror := EInstance 8; clambda := false |}.
Definition ex_s : sig := {| posonly := []; poskw := []; varpos := None; kwonly := []; varkw := None |}.
Example C13_nonvacuous :
  snd (run_M (checker_call Async ex_U ex_s [[ex_c]] [] [] [] []) []) = inr (XObj 8)
  /\ snd (run_M (checker_call Sync ex_U ex_s [[ex_c]] [] [] [] []) []) = inr (XLib "ValueError" None).
Proof. vm_compute. split; reflexivity. Qed.
