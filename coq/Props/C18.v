(** * C18 - introspection data tells integrators the truth.
    Property theorems only (proofs: Proofs/CheckerProps.v, Proofs/ElabProofs.v).
    The wrappers read the lists found through find_checker at call time ([checker_call] takes them
    as arguments); judging a call by hand over those lists - DNF over the groups, then CNF over the
    postconditions - is [pre_holds] / [posts_hold]. *)
From Coq Require Import List.
From ICV Require Import Base Bind Checker CheckerSpec CheckerFrame CheckerProps Elab ElabProofs ElabRegistered.
Open Scope string_scope.
Open Scope list_scope.

(** manual evaluation says "precondition violated" => the real call raises and the body does not run;
    says "holds" (and nothing raises) => the body runs *)
Theorem C18_manual_precondition_verdict m U s pre snaps post args kwargs st t r st' :
  checker_call m U s pre snaps post args kwargs st = (t, r, st') ->
  (pre_holds m U pre (resolve_sig s args kwargs) st = false ->
   existsb is_body t = false /\ exists x, r = inr x)
  /\ (existsb is_body t = true -> pre_holds m U pre (resolve_sig s args kwargs) st = true).
Proof.
  intros H. split.
  - intros Hp. destruct (reject_when_pre_fails m U s pre snaps post args kwargs st t r st' H Hp) as (Hb & _ & Hx & _). auto.
  - intros Hb. exact (proj2 (body_implies_pre m U s pre snaps post args kwargs st t r st' H Hb)).
Qed.

(** manual evaluation of the postconditions on the returned value gives the verdict of the call *)
Theorem C18_manual_postcondition_verdict m U s pre snaps post args kwargs st t r st' v :
  checker_call m U s pre snaps post args kwargs st = (t, r, st') -> r = inl v ->
  exists old stb,
    u_body U args kwargs st = (BRet v, stb) /\ st' = stb
    /\ posts_hold m U post (resolved_post s snaps post args kwargs old v) stb = true.
Proof. exact (return_means_posts_hold m U s pre snaps post args kwargs st t r st' v). Qed.
Print Assumptions C18_manual_precondition_verdict.

(** Every class created through the meta-class is announced to the integration hook exactly once, in creation order, and
    nothing else is: in every world that a history of definitions - functions, classes (also failing ones), later
    decorations - reaches, the registrations are the numbers of the meta classes, ascending. *)
Theorem C18_registered_are_the_meta_classes ops :
  let w := fst (run_defs empty_world ops) in
  w_registered w = filter (fun k => match get_class w k with Some c => co_meta c | None => false end)
                          (seq 0 (List.length (w_classes w))).
Proof. exact (registered_are_the_meta_classes ops). Qed.
Print Assumptions C18_registered_are_the_meta_classes.
