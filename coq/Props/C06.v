(** * C06 - every value shown in a violation message is the value Python computes.
    Property theorems only (proofs: Proofs/ExprRefine.v, ExprCorollaries.v, MessageProofs.v). *)
From Coq Require Import List String ZArith Bool Sorting.Permutation.
From ICV Require Import Expr PyPrims Message ExprCase ExprRefine ExprCorollaries ExprRange ExprSound MessageProofs.
Import ListNotations.
Open Scope string_scope.
Open Scope list_scope.

(** For every data model in which only callables can be called, and every condition without
    comprehensions (dictionary displays with unpacked mappings included): if Python evaluates it to [v], the re-evaluator - started from
    the same tables - returns [v], ends in the same tables and records exactly the nodes Python
    evaluated, with Python's values, in Python's order. *)
Theorem C06_reevaluation_is_evaluation (P : prims) :
  (forall f a k r, p_call P f a k = Ok r -> p_callable P f = true) ->
  forall e, simple e = true ->
  forall m v m' l, ev P 0 e (m, []) = Ok (v, (m', l)) -> rc P 0 e (up m, []) = Ok (Some v, (up m', l)).
Proof. exact (rc_refines_ev P). Qed.
Print Assumptions C06_reevaluation_is_evaluation.

(** soundness: a recorded value is the value Python computed for that node *)
Theorem C06_sound (P : prims) :
  (forall f a k r, p_call P f a k = Ok r -> p_callable P f = true) ->
  forall e m v m' l x rm rl i w,
  simple e = true -> ev P 0 e (m, []) = Ok (v, (m', l)) ->
  rc P 0 e (up m, []) = Ok (x, (rm, rl)) -> In (i, w) rl -> In (i, w) l.
Proof. exact (recorded_is_computed P). Qed.

(** completeness: every node Python evaluated is recorded *)
Theorem C06_complete (P : prims) :
  (forall f a k r, p_call P f a k = Ok r -> p_callable P f = true) ->
  forall e m v m' l x rm rl i w,
  simple e = true -> ev P 0 e (m, []) = Ok (v, (m', l)) ->
  rc P 0 e (up m, []) = Ok (x, (rm, rl)) -> In (i, w) l -> In (i, w) rl.
Proof. exact (computed_is_recorded P). Qed.

(** the data model of the correspondence check meets the hypothesis *)
Theorem C06_concrete_data_model f a k r : py_call f a k = Ok r -> py_callable f = true.
Proof. exact (py_call_callable f a k r). Qed.

(** a line of the message is a recorded value under the node's text (or the assignment target), or a
    representable argument of the call under its name *)
Theorem C06_lines_come_from_the_record text recorded tables body kwargs cps p :
  In p (value_lines text recorded tables (Some body) kwargs cps) ->
  In p (reprs text recorded tables 0 body []) \/ (In p (selected_kwargs kwargs cps) /\ representable (snd p) = true).
Proof. exact (value_lines_in text recorded tables body kwargs cps p). Qed.

Theorem C06_shown_value_was_recorded recorded i chk key acc p :
  In p (show recorded i chk key acc) ->
  In p acc \/ (fst p = key /\ In (i, snd p) recorded /\ (chk = true -> representable (snd p) = true)).
Proof. exact (show_in recorded i chk key acc p). Qed.

(** every representable argument of the call is listed *)
Theorem C06_arguments_listed acc sel k v :
  In (k, v) sel -> representable v = true -> line_has (add_arguments acc sel) k = true.
Proof. exact (add_arguments_lists acc sel k v). Qed.

(** the example reported for a failing all(<generator>) is the first falsifying assignment *)
Theorem C06_all_first (P : prims) elt names envs v inputs :
  first_failing P elt names envs = Ok (Some (v, inputs)) ->
  exists pre m post,
    envs = map inl pre ++ inl m :: post /\
    (forall m', In m' pre -> elt_truth P elt m' = Ok true) /\
    run_inner (ev P 0 elt) m = Ok v /\ p_truth P v = Ok false /\
    inputs = map (fun n => (n, match lookup m n with Some w => w | None => VNone end)) names.
Proof. exact (first_failing_is_first P elt names envs v inputs). Qed.
Print Assumptions C06_all_first.

(** *All* conditions, comprehensions, generator expressions and all(<generator>) included (keyword arguments to
    all(<generator>) - which Python rejects - excepted: [wf]), under *every* data model: whenever the re-evaluator
    returns, it returns Python's value, ends in Python's tables, and what it recorded for the nodes outside
    comprehension scopes is Python's log - same nodes, same order, same values, the record of a failing
    all(<generator>) carrying the counterexample in place of False.  (That it returns is the other half: true without
    comprehensions by the theorem above; with them it is the recorded finding D12b.) *)
Theorem C06_reevaluation_agrees_whenever_it_returns (P : prims) :
  forall e, wf e = true ->
  forall m v m' l x mr lr,
  ev P 0 e (m, []) = Ok (v, (m', l)) -> rc P 0 e (up m, []) = Ok (x, (mr, lr)) ->
  x = Some v /\ mr = up m' /\
  Forall2 rec_ok (filter (fun p => negb (inner_of e (fst p))) lr) l.
Proof. exact (rc_sound P). Qed.
Print Assumptions C06_reevaluation_agrees_whenever_it_returns.

(** soundness on all conditions: a value recorded for a node outside comprehension scopes is the value Python
    computed for that node *)
Theorem C06_sound_all (P : prims) :
  forall e, wf e = true ->
  forall m v m' l x mr lr i w,
  ev P 0 e (m, []) = Ok (v, (m', l)) -> rc P 0 e (up m, []) = Ok (x, (mr, lr)) ->
  In (i, w) lr -> inner_of e i = false ->
  exists w', In (i, w') l /\ (w = w' \/ exists y inp, w = VAllFail y inp).
Proof. exact (recorded_was_evaluated P). Qed.
Print Assumptions C06_sound_all.

(** completeness on all conditions: every node Python evaluated outside comprehension scopes is recorded *)
Theorem C06_complete_all (P : prims) :
  forall e, wf e = true ->
  forall m v m' l x mr lr i w',
  ev P 0 e (m, []) = Ok (v, (m', l)) -> rc P 0 e (up m, []) = Ok (x, (mr, lr)) ->
  In (i, w') l ->
  exists w, In (i, w) lr /\ (w = w' \/ exists y inp, w = VAllFail y inp).
Proof. exact (evaluated_was_recorded P). Qed.
Print Assumptions C06_complete_all.

(** non-vacuity: all(v > lim for v in xs) and xs[0] > 0 with a failing element - both evaluations return *)
Definition ex_all : expr :=
  EBool true (ECons (ECall (EName "all")
     (ECons (EComp KGen (ECmp (EName "v") (CCons CGt (EName "lim") CNil)) EOmit
                   (GCons ["v"] false (EName "xs") ENil GNil)) ENil) KNil)
     (ECons (ECmp (ESub (EName "xs") (EConst (VInt 0))) (CCons CGt (EConst (VInt 0)) CNil)) ENil)).
Example C06_example_all :
  wf ex_all = true /\
  (exists v m' l, ev py_prims 0 ex_all ([("xs", VList [VInt 5; VInt 1]); ("lim", VInt 2)], []) = Ok (v, (m', l))) /\
  (exists x mr lr, rc py_prims 0 ex_all (up [("xs", VList [VInt 5; VInt 1]); ("lim", VInt 2)], []) = Ok (x, (mr, lr))).
Proof. split; [reflexivity|]. split; [eexists; eexists; eexists|eexists; eexists; eexists]; vm_compute; reflexivity. Qed.

(** non-vacuity: a condition with `or` nested in a call, a chained comparison and an attribute *)
Definition ex_body : expr :=
  EBool true (ECons (ECall (EName "bool") (ECons (EBool false (ECons (EName "a") (ECons (EName "b") ENil))) ENil) KNil)
             (ECons (ECmp (EConst (VInt 0)) (CCons CLt (EName "a") (CCons CLt (EAttr (EName "r") "size") CNil))) ENil)).
Example C06_example_simple : simple ex_body = true. Proof. reflexivity. Qed.
Example C06_example_runs :
  exists v m' l, ev py_prims 0 ex_body ([("a", VInt 0); ("b", VInt 0); ("r", VRec 1 [("size", VInt 3)])], []) = Ok (v, (m', l))
                 /\ truth_of v = false /\ List.length l = 6%nat.
Proof. eexists. eexists. eexists. vm_compute. repeat split. Qed.

(** non-vacuity for dictionary displays: len({(t := x + 1): t, **d}) == 0 - the value uses the name the key binds
    (D26), a mapping is unpacked (D27) *)
Definition ex_dict : expr :=
  ECmp (ECall (EName "len")
          (ECons (EDict (DCons (ENamed "t" (EBin BAdd (EName "x") (EConst (VInt 1)))) (EName "t") (DStar (EName "d") DNil))) ENil) KNil)
       (CCons CEq (EConst (VInt 0)) CNil).
Example C06_example_dict :
  simple ex_dict = true /\
  exists m' l, ev py_prims 0 ex_dict ([("x", VInt 1); ("d", VDict [(VStr "b", VInt 2)])], []) = Ok (VBool false, (m', l))
               /\ In (3%nat, VDict [(VInt 2, VInt 2); (VStr "b", VInt 2)]) l.
Proof. split; [reflexivity|]. eexists. eexists. split; [vm_compute; reflexivity|]. cbn. tauto. Qed.

(** D21 (recorded finding): a name evaluated inside an f-string is not listed.  Closure s = 'a',
    x = 3, condition  f"n={x}{s!r}" == 'zz'. *)
Definition fstr_case : xcase := {|
  x_body := ECmp (EFStr (PLit "n=" (PFmt (EName "x") ConvNone (PFmt (EName "s") ConvR PNil)))) (CCons CEq (EConst (VStr "zz")) CNil);
  x_texts := ["f""n={x}{s!r}"" == 'zz'"; "f""n={x}{s!r}"""; ""; ""; "'zz'"];
  x_cond_params := []; x_kwargs := [("unused", VInt 0); ("_ARGS", VTuple [VInt 0]); ("_KWARGS", VDict [])]; x_defaults := [];
  x_closure := [("s", VStr "a"); ("x", VInt 3)]; x_globals := [] |}.
Theorem C06_fstring_inner_refuted :
  exists ls, model_outcome fstr_case = XViolation ls /\ line_has ls "x" = false /\
  exists m l, py_run fstr_case = Ok (VBool false, (m, l)) /\ In (2%nat, VInt 3) l.
Proof. eexists. split; [vm_compute; reflexivity|]. split; [reflexivity|]. eexists. eexists. split; [vm_compute; reflexivity|]. cbn. tauto. Qed.
