(** * C09 - the [error] argument decides exactly what a violation raises.
    Property theorems only (proofs: Proofs/CheckerDispatch.v, Proofs/CheckerCount.v,
    Proofs/ElabProofs.v for the decoration-time validation). *)
From ICV Require Import Base Bind Checker CheckerSpec CheckerFrame CheckerCount CheckerDispatch.
Open Scope string_scope.
Open Scope list_scope.

(** no [error]: ViolationError carrying the generated message of this contract *)
Theorem C09_default U r c resolved st :
  cerror c = ENone -> error_of U r c resolved st = inl (XViolation (cid c)).
Proof. exact (dispatch_none U r c resolved st). Qed.

(** an exception class: instantiated with the message *)
Theorem C09_class U r c resolved st k :
  cerror c = EClass k -> error_of U r c resolved st = inl (XClass k (cid c)).
Proof. exact (dispatch_class U r c resolved st k). Qed.

(** an exception instance: raised as that same object, nothing else is called *)
Theorem C09_instance U r c resolved st t :
  cerror c = EInstance t -> create_violation_error U r c resolved st = ([], inl (XObj t), st).
Proof. exact (dispatch_instance U r c resolved st t). Qed.

(** a function or method: called once with exactly the subset of the call's values that it names
    ([resolved] contains [result]/[OLD] for postconditions and is [self] only for invariants) - a
    parameter with a default value gets the call's value too when the call has one;
    what it returns is raised, a non-exception is a TypeError; a parameter without a default that the
    call does not provide is a TypeError and the factory is not called. *)
Theorem C09_factory U r c resolved st eargs emand :
  cerror c = EFactory eargs emand ->
  match select eargs emand resolved with
  | None => create_violation_error U r c resolved st = ([], inr (XLib "TypeError" None), st)
  | Some kw =>
      kw = filter (fun kv => str_in (fst kv) eargs) resolved
      /\ create_violation_error U r c resolved st
         = ([EvError (cid c) kw],
            match u_error U (cid c) kw with
            | ERetExn t => inl (XObj t)
            | ERetOther => inr (XLib "TypeError" None)
            | ERaise e => inr (XObj e)
            end, st)
  end.
Proof. exact (dispatch_factory U r c resolved st eargs emand). Qed.
Print Assumptions C09_factory.

(** over a whole checked call the factory of a contract is called at most once *)
Theorem C09_factory_at_most_once m U s pre snaps post args kwargs st t r st' c :
  checker_call m U s pre snaps post args kwargs st = (t, r, st') ->
  NoDup (map cid (List.concat pre ++ post)) ->
  In c (List.concat pre ++ post) ->
  count (error_hits (cid c)) t <= 1.
Proof.
  intros H Hnd Hin. exact (proj2 (at_most_once m U s pre snaps post args kwargs st t r st' c H Hnd Hin)).
Qed.
Print Assumptions C09_factory_at_most_once.
