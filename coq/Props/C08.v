(** * C08 - OLD snapshots capture pre-state once, after preconditions and before the body.
    Property theorems only (proofs: Proofs/CheckerFrame.v, Proofs/CheckerProps.v; the
    definition-time clauses are in Props/C19.v and Proofs/ElabProofs.v). *)
From ICV Require Import Base Bind Checker CheckerSpec CheckerFrame CheckerProps.
Open Scope string_scope.
Open Scope list_scope.

(** The trace of every checked call is [pre ++ captures ++ body ++ post]: captures come after all
    precondition evaluations and before the body; they occur only if the effective precondition
    held and the callable has postconditions and snapshots; when the body is entered every
    snapshot was captured exactly once, in order; without a body there is no postcondition event. *)
Theorem C08_once_between m U s pre snaps post args kwargs st t r st' :
  checker_call m U s pre snaps post args kwargs st = (t, r, st') ->
  exists tp tc tb tq,
    t = tp ++ tc ++ tb ++ tq
    /\ only pre_event tp /\ only is_capture tc
    /\ (tb = [] \/ exists env, tb = [EvBody env st]) /\ only post_event tq
    /\ (tc <> [] -> capturing snaps post = true /\ pre_holds m U pre (resolve_sig s args kwargs) st = true)
    /\ (tb <> [] -> (if capturing snaps post then capture_ids tc = map sid snaps else tc = []))
    /\ (tb = [] -> tq = []).
Proof. exact (trace_phases m U s pre snaps post args kwargs st t r st'). Qed.
Print Assumptions C08_once_between.

(** Postconditions (and their error factories) are evaluated against [OLD] = the values captured
    from the *pre-body* store [st], whatever the body did to the store: [old] is the result of
    [capture_old] at [st], the postconditions run on [resolved_post old v] at the post-body store. *)
Theorem C08_old_values m U s pre snaps post args kwargs st t r st' v stb :
  checker_call m U s pre snaps post args kwargs st = (t, r, st') ->
  existsb is_body t = true ->
  u_body U args kwargs st = (BRet v, stb) ->
  exists old,
    let res := resolved_post s snaps post args kwargs old v in
    st' = stb
    /\ (if capturing snaps post
        then exists tc, capture_old m U snaps (resolve_sig s args kwargs) [] st = (tc, inl old, st)
        else old = [])
    /\ (posts_hold m U post res stb = true -> r = inl v)
    /\ (posts_hold m U post res stb = false -> posts_benign m U post res stb ->
        exists c x, first_failing m U RPost true res stb post = Some c
                    /\ error_of U RPost c res stb = inl x /\ r = inr x).
Proof. exact (post_violation_is_first_falsy m U s pre snaps post args kwargs st t r st' v stb). Qed.
Print Assumptions C08_old_values.

(** no snapshot is captured when the effective precondition fails *)
Theorem C08_not_captured_on_failed_pre m U s pre snaps post args kwargs st t r st' :
  checker_call m U s pre snaps post args kwargs st = (t, r, st') ->
  pre_holds m U pre (resolve_sig s args kwargs) st = false ->
  existsb is_body t = false /\ existsb is_capture t = false /\ (exists x, r = inr x) /\ st' = st.
Proof. exact (reject_when_pre_fails m U s pre snaps post args kwargs st t r st'). Qed.

(** Inherited snapshots (the translated [_collapse_snapshots] of /repo on this run): the same
    snapshot object reached along several paths is kept once, in the order of first occurrence;
    two different snapshots under one name make the class statement fail with ValueError. *)
From ICV Require Import Generated ElabRefine.
Theorem C08_inherited_snapshots_by_identity (bs os : list pv) :
  collapse_snapshots (PList bs) (PList os)
  = if names_clash (dedupe_pv (bs ++ os)) [] then Err "ValueError" else Ok (PList (dedupe_pv (bs ++ os))).
Proof. exact (collapse_snapshots_refines bs os). Qed.
