(** * C12 - concurrent callers never disable each other's checks.
    Property theorems only (proofs: Proofs/ConcProofs.v, Proofs/RunProofs.v).

    Model/Conc.v: a world of tasks/threads, each with its own value of the in-progress variable
    (a context copy copies the mapping, the value is immutable), a schedule that spawns tasks,
    advances a chosen task to its next suspension point, or cancels it there. *)
From Coq Require Import List ZArith Bool Arith Lia.
From ICV Require Import Run Conc RunProofs ConcProofs.
Import ListNotations.

(** Non-interference: under every schedule, what a task is and has shown is a function of its own
    start and of the decisions taken at its own suspension points - the other tasks, the calls they
    make to the same function or object and the interleaving do not matter. *)
Theorem C12_noninterference ops w t tk :
  nth_error w t = Some tk ->
  nth_error (fold_left step ops w) t = Some (solo tk (proj ops (List.length w) t)).
Proof. exact (task_evolves_alone ops w t tk). Qed.
Print Assumptions C12_noninterference.

(** The verdict of a call made by a task that runs to completion is its sequential verdict from the
    value [v0] its context held when it was created; by C11_restore that value is empty whenever
    the creator was not in the middle of a check - in particular after the creator had already
    executed contracted code. *)
Theorem C12_sequential_verdict ops w t call v0 n o :
  nth_error w t = Some {| tk_value := v0; tk_rest := None; tk_start := call; tk_trace := [] |} ->
  proj ops (List.length w) t = repeat None n ->
  forall tk, nth_error (fold_left step ops w) t = Some tk ->
             tk_rest tk = Some (Finished o) ->
             run_seq no_faults call v0 = (tk_trace tk, o, tk_value tk).
Proof. exact (finished_task_is_sequential ops w t call v0 n o). Qed.
Print Assumptions C12_sequential_verdict.

(** the creator's context is clean again after any contracted call it made before spawning *)
Theorem C12_creator_clean P plan fuel t s tr out s' :
  run_seq plan (exec P fuel t) s = (tr, out, s') -> s' = s.
Proof. exact (exec_preserves plan P fuel t s tr out s'). Qed.

(** Non-vacuity: two tasks call the same function whose precondition suspends; the second runs
    while the first is suspended inside its precondition and is checked all the same. *)
Definition ex_P : program :=
  {| p_fns := [{| fn_pre := [[([AAwait 0], VRet true)]]; fn_snaps := []; fn_post := [];
                  fn_body := ([], VRet true) |}]; p_classes := []; p_objs := [] |}.
Example C12_nonvacuous :
  map task_obs (run_world [Spawn None CopyOfCreator (exec ex_P 3 (TFn 0)); Spawn None CopyOfCreator (exec ex_P 3 (TFn 0));
                            Advance 0; Advance 1; Advance 1; Advance 0])
  = [([EvSite (SPre 0 0 0); EvSite (SBody 0)], Some (ORet true));
     ([EvSite (SPre 0 0 0); EvSite (SBody 0)], Some (ORet true))].
Proof. vm_compute. reflexivity. Qed.
