(** * C05 - contracts observe the same argument values the body receives.
    Property theorems only; proofs live in Proofs/. *)
From ICV Require Import Base Generated Bind DictLemmas BindRefine BindAgree.
From ICV Require Checker CheckerCase CheckerOracle CheckerTypeError.
Import Checker CheckerCase CheckerOracle CheckerTypeError.
Open Scope string_scope.
Open Scope list_scope.

(** The function in /repo (as translated on this run) computes [Bind.resolve]. *)
Theorem C05_code_is_model names defaults args kwargs :
  kwargs_from_call (PList (map PStr names)) (PDict defaults) (PTuple args) (PDict kwargs)
  = Ok (PDict (resolve names defaults args kwargs)).
Proof. exact (kwargs_from_call_refines names defaults args kwargs). Qed.
Print Assumptions C05_code_is_model.

(** For every signature and every call that Python can bind, outside the two recorded finding
    classes, a contract sees for every named non-variadic parameter exactly the object the
    body receives, [_ARGS] is the tuple of positionals and [_KWARGS] the dict of keywords.
    (_partial: the full statement, without the two [kf_] hypotheses, is refuted below.) *)
Theorem C05_agree_partial s args kwargs env :
  wf_call s kwargs ->
  pybind s args kwargs = Some env ->
  kf_C05_surplus s args kwargs = false ->
  kf_C05_posonly s kwargs = false ->
  spec_C05 s args kwargs (resolve_sig s args kwargs) env = true.
Proof. exact (agree s args kwargs env). Qed.
Print Assumptions C05_agree_partial.

(** Non-vacuity: a signature with all five parameter kinds and a call meeting the hypotheses. *)
Definition ex_sig : sig :=
  {| posonly := [{| pname := "a"; pdefault := None |}];
     poskw := [{| pname := "b"; pdefault := Some (PObj 100) |}];
     varpos := Some "rest";
     kwonly := [{| pname := "c"; pdefault := Some (PObj 101) |}; {| pname := "d"; pdefault := None |}];
     varkw := Some "kw" |}.
Example C05_nonvacuous :
  exists env, pybind ex_sig [PObj 1; PObj 2; PObj 3] [("d", PObj 4); ("zz", PObj 5)] = Some env
              /\ kf_C05_surplus ex_sig [PObj 1; PObj 2; PObj 3] [("d", PObj 4); ("zz", PObj 5)] = false
              /\ kf_C05_posonly ex_sig [("d", PObj 4); ("zz", PObj 5)] = false.
Proof. eexists. vm_compute. repeat split. Qed.

(** The two recorded findings (D8): the full statement is false of the faithful model. *)
Definition sig_surplus : sig :=
  {| posonly := []; poskw := [{| pname := "a"; pdefault := None |}]; varpos := Some "args";
     kwonly := [{| pname := "b"; pdefault := Some (PObj 1) |}]; varkw := None |}.
Theorem C05_refuted_surplus :
  exists s args kwargs env,
    pybind s args kwargs = Some env
    /\ spec_C05 s args kwargs (resolve_sig s args kwargs) env = false.
Proof.
  exists sig_surplus, [PObj 11; PObj 12; PObj 13], [].
  eexists. split; vm_compute; reflexivity.
Qed.

Definition sig_posonly : sig :=
  {| posonly := [{| pname := "a"; pdefault := None |}]; poskw := []; varpos := None;
     kwonly := []; varkw := Some "kw" |}.
Theorem C05_refuted_posonly :
  exists s args kwargs env,
    pybind s args kwargs = Some env
    /\ spec_C05 s args kwargs (resolve_sig s args kwargs) env = false.
Proof.
  exists sig_posonly, [PObj 11], [("a", PObj 12)].
  eexists. split; vm_compute; reflexivity.
Qed.
Print Assumptions C05_refuted_surplus.
Print Assumptions C05_refuted_posonly.

(** whole calls: the library's own TypeError has a reason that can be read off the declarations and the call - a
    parameter the call binds is available to every contract, whichever contracts were evaluated before (the clause
    [legit_type_error] of [spec_C05_call], of the model, for every case whose invariants' error factories take the
    instance only) *)
Theorem C05_type_error_has_a_reason c :
  CheckerTypeError.wf_case c ->
  match snd (run_case c) with
  | inr (XLib cls _) => implb (String.eqb cls "TypeError") (legit_type_error c (fst (run_case c)))
  | _ => true
  end = true.
Proof. exact (type_error_clause_sound c). Qed.
Print Assumptions C05_type_error_has_a_reason.

Example C05_type_error_nonvacuous :
  CheckerTypeError.wf_case ex_ty_case /\ snd (run_case ex_ty_case) = inr (XLib "TypeError" None)
  /\ legit_type_error ex_ty_case (fst (run_case ex_ty_case)) = true.
Proof. exact type_error_nonvacuous. Qed.
