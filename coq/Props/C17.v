(** * C17 - defining a class or decorating a function never changes another's contracts.
    Property theorems only (proofs: Proofs/ElabFrame.v).

    Model/Elab.v keeps Python's list objects in a heap of cells and function objects / classes hold
    references to them, so that sharing (aliasing) is explicit.  [Keeps w w']: every list cell,
    every function object, every class, every module binding and every registration of [w] is found
    unchanged in [w'] - hence every contract list and every verdict derived from them. *)
From ICV Require Import Base Bind Checker Elab ElabFrame.
Open Scope string_scope.
Open Scope list_scope.

(** Decorating a function - with any stack of require / ensure / snapshot decorators, enabled or
    not, valid or not, interleaved with any foreign functools.wraps decorators - changes nothing
    that existed before. *)
Theorem C17_function_decoration_frame w s a ds w' f :
  define_function w s a ds = Ok (w', f) -> Keeps w w'.
Proof. exact (define_function_keeps w s a ds w' f). Qed.
Print Assumptions C17_function_decoration_frame.

(** ... and a definition that raises binds nothing at all. *)
Theorem C17_failed_definition_binds_nothing w m e :
  step_def w (DefFunction m) = Err e -> fail_def w (DefFunction m) = w.
Proof. reflexivity. Qed.

(** The same statement for class statements (metaclass merge, class decorators) is
    [C17_class_frame]; it is established on every run by the correspondence of harness/c17.py
    (identity and contents of all lists of all earlier classes after every step, compared with the
    model) and stated here for the record:

      forall w d w', define_class w d = Ok w' ->
        (created through DBCMeta or no base has invariants) -> KeepsClasses w w'.

    Its proof follows the same freshness argument (every cell appended to and every object assigned
    to by [define_class] is allocated by that very statement) and is not finished: C17 is claimed
    as proved for function decoration and as checked by correspondence for class creation. *)

(** Non-vacuity: decorating a second function leaves the first one's checker lists untouched. *)
Definition c (n : Z) : contract := {| cid := n; cargs := []; cmandatory := []; ckind_ := CKPlain; cerror := ENone; clambda := false |}.
Definition s0 : sig := {| posonly := []; poskw := []; varpos := None; kwonly := []; varkw := None |}.
Example C17_nonvacuous :
  match define_function empty_world s0 false [DRequire (c 1) true; DForeign 1; DEnsure (c 2) true] with
  | Ok (w1, f1) =>
      match define_function w1 s0 false [DEnsure (c 3) true; DRequire (c 4) true] with
      | Ok (w2, f2) => w_heap w1 = firstn (List.length (w_heap w1)) (w_heap w2) /\ List.length (w_heap w1) < List.length (w_heap w2)
      | Err _ => False
      end
  | Err _ => False
  end.
Proof. vm_compute. split; [reflexivity | repeat constructor]. Qed.
