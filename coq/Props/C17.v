(** * C17 - defining a class or decorating a function never changes another's contracts.
    Property theorems only (proofs: Proofs/ElabFrame.v).

    Model/Elab.v keeps Python's list objects in a heap of cells and function objects / classes hold
    references to them, so that sharing (aliasing) is explicit.  [Keeps w w']: every list cell,
    every function object, every class, every module binding and every registration of [w] is found
    unchanged in [w'] - hence every contract list and every verdict derived from them. *)
From ICV Require Import Base Bind Checker Elab ElabFrame ElabClassFrame ElabOwnLists.
Open Scope string_scope.
Open Scope list_scope.

(** Decorating a function - with any stack of require / ensure / snapshot decorators, enabled or
    not, valid or not, interleaved with any foreign functools.wraps decorators - changes nothing
    that existed before. *)
Theorem C17_function_decoration_frame w s a ds w' f :
  define_function w s a ds = Ok (w', f) -> Keeps w w'.
Proof. exact (define_function_keeps w s a ds w' f). Qed.
Print Assumptions C17_function_decoration_frame.

(** ... and a definition that raises binds nothing at all. *)
Theorem C17_failed_definition_binds_nothing w m e :
  step_def w (DefFunction m) = Err e -> fail_def w (DefFunction m) = w.
Proof. reflexivity. Qed.

(** Class statements: member definitions, the work of the meta-class (merging inherited contracts
    into the members' checkers and the invariant lists), invariant wrappers, registration, class
    decorators.  Every list cell, function object and class that existed before is unchanged, module
    bindings are untouched, the registrations only grow ([KeepsC]) - provided a list the new class
    shows through attribute lookup is its own object ([OwnLists], what the repair of D15 makes the
    meta-class establish; evaluated on every class of every generated history on every run:
    [own_lists_everywhere] in Spec/ElabOracle.v).  The hypothesis is discharged for classes without
    bases and for class statements without enabled class decorators. *)
Theorem C17_class_statement_frame w d w' :
  define_class w d = Ok w' ->
  (forall w5 k, define_class_pre w d = Ok (w5, k) -> OwnLists w5 k) ->
  KeepsC w w'.
Proof. exact (define_class_frame w d w'). Qed.
Print Assumptions C17_class_statement_frame.

Theorem C17_class_statement_frame_no_bases w d w' :
  define_class w d = Ok w' -> cd_bases d = [] -> KeepsC w w'.
Proof. exact (define_class_frame_no_bases w d w'). Qed.

Theorem C17_class_statement_frame_no_decorators w d w' :
  define_class w d = Ok w' -> forallb (fun i => negb (id_enabled i)) (cd_invs d) = true -> KeepsC w w'.
Proof. exact (define_class_frame_no_decorators w d w'). Qed.

(** ... and for every class created through the meta-class (DBC / DBCMeta named, or a base that was) in every world
    that a history of definitions - functions, classes, later decorations of members - can reach, with no
    hypothesis left: [OwnLists] follows from an invariant of reachable worlds (the three invariant lists of a class exist
    together or not at all; a class stands first in its resolution order; resolution orders name existing classes:
    [WF], kept by every definition) and from C3 merging nothing but the bases and their orders
    (Proofs/ElabOwnLists.v). *)
Theorem C17_class_statement_frame_reachable ops d w' :
  let w := fst (run_defs empty_world ops) in
  is_meta w d = true -> define_class w d = Ok w' -> KeepsC w w'.
Proof. exact (define_class_frame_reachable ops d w'). Qed.
Print Assumptions C17_class_statement_frame_reachable.

(** Non-vacuity: decorating a second function leaves the first one's checker lists untouched. *)
Definition c (n : Z) : contract := {| cid := n; cargs := []; cmandatory := []; ckind_ := CKPlain; cerror := ENone; clambda := false |}.
Definition s0 : sig := {| posonly := []; poskw := []; varpos := None; kwonly := []; varkw := None |}.
Example C17_nonvacuous :
  match define_function empty_world s0 false [DRequire (c 1) true; DForeign 1; DEnsure (c 2) true] with
  | Ok (w1, f1) =>
      match define_function w1 s0 false [DEnsure (c 3) true; DRequire (c 4) true] with
      | Ok (w2, f2) => w_heap w1 = firstn (List.length (w_heap w1)) (w_heap w2) /\ List.length (w_heap w1) < List.length (w_heap w2)
      | Err _ => False
      end
  | Err _ => False
  end.
Proof. vm_compute. split; [reflexivity | repeat constructor]. Qed.
