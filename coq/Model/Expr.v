(** * Expr: condition expressions, Python's evaluation of them (the reference, [ev]) and
    icontract's re-evaluator [icontract._recompute.Visitor] ([rc]).

    Python's data model (operators, truth, attribute access, subscripting, calls, iteration,
    formatting) is a record of functions [prims]: an oracle, deterministic by construction.  A
    concrete instance for the correspondence check is in [Model/PyPrims.v]. *)
From Coq Require Import List String ZArith Bool.
Import ListNotations.
Open Scope string_scope.
Open Scope list_scope.

(** ** Values *)
Inductive err := ZeroDiv | IndexErr | KeyErr | AttrErr | TypeErr | NameErr | ValueErr | Unsupported.

Inductive val :=
| VNone
| VBool (b : bool)
| VInt (z : Z)
| VStr (s : string)
| VList (l : list val)
| VTuple (l : list val)
| VDict (kv : list (val * val))
| VRec (tag : Z) (fields : list (string * val))     (* an object with attributes *)
| VFun (name : string)                             (* a builtin or a module-level function *)
| VSlice (lo hi : val)
| VGen (items : list (val + err))                  (* a generator: its element results, an error ends it *)
| VAllFail (result : val) (inputs : list (string * val))  (* FirstExceptionInAll; lives in recorded maps only *)
| VPlaceholder.                                    (* the re-evaluator's PLACEHOLDER; Python never yields it *)

Inductive res (A : Type) := Ok (a : A) | Err (e : err).
Arguments Ok {A} a.
Arguments Err {A} e.

(** ** Syntax (mirrors the [ast] node kinds the library handles) *)
Inductive uop := UNot | UNeg | UPos | UInv.
Inductive bop := BAdd | BSub | BMul | BDiv | BFloorDiv | BMod | BPow | BLShift | BRShift | BOr | BXor | BAnd | BMatMul.
Inductive cop := CEq | CNe | CLt | CLe | CGt | CGe | CIs | CIsNot | CIn | CNotIn.
Inductive conv := ConvNone | ConvS | ConvR | ConvA.
Inductive ckind := KList | KGen | KDict.   (* set comprehensions and displays: not in the model *)

Inductive expr :=
| EConst (v : val)
| EName (id : string)
| EAttr (e : expr) (a : string)
| ESub (e : expr) (i : expr)
| ESlice (lo hi : expr)                       (* only as a subscript; a missing bound is [EOmit] *)
| EOmit
| ECall (f : expr) (args : exprs) (kws : kwds)   (* [args] may contain [EStar]; a keyword without a name is ** *)
| EStar (e : expr)
| EUn (op : uop) (e : expr)
| EBin (op : bop) (l r : expr)
| EBool (is_and : bool) (es : exprs)
| ECmp (l : expr) (cs : cmps)
| EIf (t b o : expr)
| ENamed (target : string) (e : expr)
| EFStr (ps : parts)
| EList (es : exprs)
| ETuple (es : exprs)
| EDict (ds : dpairs)
| EComp (k : ckind) (elt : expr) (elt2 : expr) (gs : gens)   (* [elt2]: the value of a dict comprehension, else [EOmit] *)
with exprs := ENil | ECons (e : expr) (es : exprs)
with kwds := KNil | KCons (name : option string) (e : expr) (k : kwds)
with cmps := CNil | CCons (op : cop) (e : expr) (c : cmps)
with parts := PNil | PLit (s : string) (p : parts) | PFmt (e : expr) (cv : conv) (p : parts)
with dpairs := DNil | DCons (k v : expr) (d : dpairs)
with gens := GNil | GCons (targets : list string) (tuple_target : bool) (iter : expr) (ifs : exprs) (g : gens).

(** ** Python's data model as an oracle *)
Record prims := {
  p_unop : uop -> val -> res val;
  p_binop : bop -> val -> val -> res val;
  p_cmp : cop -> val -> val -> res val;
  p_truth : val -> res bool;
  p_getattr : val -> string -> res val;
  p_getitem : val -> val -> res val;
  p_call : val -> list val -> list (string * val) -> res val;
  p_iter : val -> res (list (val + err));
  p_format : conv -> val -> res string;
  p_mkdict : list (val * val) -> res val;
  p_kwunpack : val -> res (list (string * val));
  p_callable : val -> bool;
  p_is_all : val -> bool;                 (* [func == builtins.all] *)
  p_builtin : string -> option val        (* [getattr(builtins, name)] *)
}.

(** ** Environments and logs *)
Definition env := list (string * val).

Fixpoint lookup (m : env) (id : string) : option val :=
  match m with
  | [] => None
  | (k, v) :: r => if String.eqb k id then Some v else lookup r id
  end.

Fixpoint set_var (m : env) (id : string) (v : val) : env :=
  match m with
  | [] => [(id, v)]
  | (k, w) :: r => if String.eqb k id then (k, v) :: r else (k, w) :: set_var r id v
  end.

(** precedence of the look-up tables: the first table that has the name wins *)
Fixpoint flatten (tables : list env) : env :=
  match tables with
  | [] => []
  | t :: r => let rest := flatten r in
              t ++ filter (fun kv => match lookup t (fst kv) with Some _ => false | None => true end) rest
  end.

Definition log := list (expr * val).
Definition st := (env * log)%type.
Definition M (A : Type) := st -> res (A * st).
Definition ret {A} (a : A) : M A := fun s => Ok (a, s).
Definition fail {A} (e : err) : M A := fun _ => Err e.
Definition bindM {A B} (m : M A) (k : A -> M B) : M B :=
  fun s => match m s with Ok (a, s') => k a s' | Err e => Err e end.
Definition lift {A} (r : res A) : M A := fun s => match r with Ok a => Ok (a, s) | Err e => Err e end.
Definition record (e : expr) (v : val) : M unit := fun s => Ok (tt, (fst s, snd s ++ [(e, v)])).
Definition get_env : M env := fun s => Ok (fst s, s).
Definition put_env (m : env) : M unit := fun s => Ok (tt, (m, snd s)).
Notation "x <- m ;; k" := (bindM m (fun x => k)) (at level 61, m at next level, right associativity).
Notation "m ;;; k" := (bindM m (fun _ => k)) (at level 61, right associativity).

Definition run_inner {A} (m : M A) (e : env) : res A :=
  match m (e, []) with Ok (a, _) => Ok a | Err x => Err x end.

Definition has_err {A} (l : list (A + err)) : bool :=
  existsb (fun x => match x with inr _ => true | inl _ => false end) l.
Definition app_lazy {A} (l1 l2 : list (A + err)) : list (A + err) := if has_err l1 then l1 else l1 ++ l2.

Fixpoint force {A} (l : list (A + err)) : res (list A) :=
  match l with
  | [] => Ok []
  | inl a :: r => match force r with Ok x => Ok (a :: x) | Err e => Err e end
  | inr e :: _ => Err e
  end.

(** binding of a loop target: a name, or a tuple of names unpacked from a sequence *)
Fixpoint bind_names (names : list string) (vs : list val) (m : env) : res env :=
  match names, vs with
  | [], [] => Ok m
  | n :: ns, v :: vs' => bind_names ns vs' (set_var m n v)
  | _, _ => Err ValueErr
  end.

Definition is_ph (v : val) : bool := match v with VPlaceholder => true | _ => false end.

Section Eval.
Variable P : prims.

Definition truthM (v : val) : M bool := lift (p_truth P v).

Definition bind_target (names : list string) (tuple_target : bool) (v : val) (m : env) : res env :=
  if tuple_target then
    match p_iter P v with
    | Ok items => match force items with Ok vs => bind_names names vs m | Err e => Err e end
    | Err e => Err e
    end
  else match names with [n] => Ok (set_var m n v) | _ => Err ValueErr end.

(** first falsifying assignment of a stream of environments *)
Fixpoint map_lazy {A B} (f : A -> res B) (l : list (A + err)) : list (B + err) :=
  match l with
  | [] => []
  | inr e :: _ => [inr e]
  | inl a :: r => match f a with Ok b => inl b :: map_lazy f r | Err e => [inr e] end
  end.

(** *** Python's evaluation.  Every evaluated node that denotes a value is logged with its value
    (the same node kinds the re-evaluator records), except inside comprehensions, which run in a
    scope of their own: there nothing is logged and bindings are local. *)
Fixpoint ev (e : expr) : M val :=
  match e with
  | EConst v => record e v ;;; ret v
  | EName id =>
      m <- get_env ;;
      match lookup m id with
      | Some v => record e v ;;; ret v
      | None => match p_builtin P id with
                | Some v => record e v ;;; ret v
                | None => fail NameErr
                end
      end
  | EOmit => ret VNone
  | EStar _ => fail Unsupported
  | EAttr e1 a => v <- ev e1 ;; r <- lift (p_getattr P v a) ;; record e r ;;; ret r
  | ESub e1 i => v <- ev e1 ;; s <- ev i ;; r <- lift (p_getitem P v s) ;; record e r ;;; ret r
  | ESlice lo hi => a <- ev lo ;; b <- ev hi ;; record e (VSlice a b) ;;; ret (VSlice a b)
  | ECall f args kws =>
      fv <- ev f ;; av <- ev_args args ;; kv <- ev_kwds kws ;;
      r <- lift (p_call P fv av kv) ;; record e r ;;; ret r
  | EUn op e1 => v <- ev e1 ;; r <- lift (p_unop P op v) ;; record e r ;;; ret r
  | EBin op l r => a <- ev l ;; b <- ev r ;; x <- lift (p_binop P op a b) ;; record e x ;;; ret x
  | EBool is_and es => r <- ev_bool is_and es ;; record e r ;;; ret r
  | ECmp l cs => a <- ev l ;; r <- ev_cmps a cs ;; record e r ;;; ret r
  | EIf t b o => tv <- ev t ;; c <- truthM tv ;; r <- (if c then ev b else ev o) ;; record e r ;;; ret r
  | ENamed tg e1 =>
      v <- ev e1 ;; record e v ;;; m <- get_env ;; put_env (set_var m tg v) ;;; ret v
  | EFStr ps => ss <- ev_parts ps ;; record e (VStr (String.concat "" ss)) ;;; ret (VStr (String.concat "" ss))
  | EList es => vs <- ev_args es ;; record e (VList vs) ;;; ret (VList vs)
  | ETuple es => vs <- ev_args es ;; record e (VTuple vs) ;;; ret (VTuple vs)
  | EDict ds => kvs <- ev_dpairs ds ;; d <- lift (p_mkdict P kvs) ;; record e d ;;; ret d
  | EComp k elt elt2 gs =>
      m <- get_env ;;
      (* the first iterable is evaluated when the comprehension is created *)
      match gs with
      | GNil => fail Unsupported
      | GCons _ _ it0 _ _ =>
          match run_inner (ev it0) m with
          | Err x => fail x
          | Ok _ =>
              let envs := ev_gens gs m in
              match k with
              | KGen => ret (VGen (map_lazy (fun m' => run_inner (ev elt) m') envs))
              | KList =>
                  vs <- lift (force (map_lazy (fun m' => run_inner (ev elt) m') envs)) ;;
                  record e (VList vs) ;;; ret (VList vs)
              | KDict =>
                  kvs <- lift (force (map_lazy (fun m' =>
                            match run_inner (ev elt) m' with
                            | Ok kx => match run_inner (ev elt2) m' with Ok vx => Ok (kx, vx) | Err x => Err x end
                            | Err x => Err x
                            end) envs)) ;;
                  d <- lift (p_mkdict P kvs) ;; record e d ;;; ret d
              end
          end
      end
  end
with ev_args (es : exprs) : M (list val) :=
  match es with
  | ENil => ret []
  | ECons (EStar e1) r =>
      v <- ev e1 ;; items <- lift (p_iter P v) ;; xs <- lift (force items) ;; rest <- ev_args r ;; ret (xs ++ rest)
  | ECons e1 r => v <- ev e1 ;; rest <- ev_args r ;; ret (v :: rest)
  end
with ev_kwds (ks : kwds) : M (list (string * val)) :=
  match ks with
  | KNil => ret []
  | KCons (Some n) e1 r => v <- ev e1 ;; rest <- ev_kwds r ;; ret ((n, v) :: rest)
  | KCons None e1 r => v <- ev e1 ;; kv <- lift (p_kwunpack P v) ;; rest <- ev_kwds r ;; ret (kv ++ rest)
  end
with ev_bool (is_and : bool) (es : exprs) : M val :=
  match es with
  | ENil => ret VNone
  | ECons e1 r =>
      match r with
      | ENil => ev e1
      | ECons _ _ =>
          v <- ev e1 ;; t <- truthM v ;;
          if Bool.eqb t is_and then ev_bool is_and r else ret v
      end
  end
with ev_cmps (left : val) (cs : cmps) : M val :=
  match cs with
  | CNil => ret VNone
  | CCons op e1 r =>
      c <- ev e1 ;; x <- lift (p_cmp P op left c) ;;
      match r with
      | CNil => ret x
      | CCons _ _ _ => t <- truthM x ;; if t then ev_cmps c r else ret x
      end
  end
with ev_parts (ps : parts) : M (list string) :=
  match ps with
  | PNil => ret []
  | PLit s r => rest <- ev_parts r ;; ret (s :: rest)
  | PFmt e1 cv r => v <- ev e1 ;; s <- lift (p_format P cv v) ;; rest <- ev_parts r ;; ret (s :: rest)
  end
with ev_dpairs (ds : dpairs) : M (list (val * val)) :=
  match ds with
  | DNil => ret []
  | DCons k v r => kx <- ev k ;; vx <- ev v ;; rest <- ev_dpairs r ;; ret ((kx, vx) :: rest)
  end
with ev_gens (gs : gens) (m : env) : list (env + err) :=
  match gs with
  | GNil => [inl m]
  | GCons names tup it ifs rest =>
      match run_inner (ev it) m with
      | Err x => [inr x]
      | Ok itv =>
          match p_iter P itv with
          | Err x => [inr x]
          | Ok items =>
              (fix loop (xs : list (val + err)) : list (env + err) :=
                 match xs with
                 | [] => []
                 | inr x :: _ => [inr x]
                 | inl x :: xs' =>
                     match bind_target names tup x m with
                     | Err x' => [inr x']
                     | Ok m' =>
                         match run_inner (ev_ifs ifs) m' with
                         | Err x' => [inr x']
                         | Ok false => loop xs'
                         | Ok true => app_lazy (ev_gens rest m') (loop xs')
                         end
                     end
                 end) items
          end
      end
  end
with ev_ifs (es : exprs) : M bool :=
  match es with
  | ENil => ret true
  | ECons e1 r => v <- ev e1 ;; t <- truthM v ;; if t then ev_ifs r else ret false
  end.

(** the value of a comprehension under a mapping, as [_execute_comprehension] obtains it by
    compiling the node into a function of the mapping's names: Python's own evaluation *)
Definition comp_value (e : expr) (m : env) : res val := run_inner (ev e) m.

(** names stored by the loop targets, first occurrence order *)
Fixpoint stored_names (gs : gens) (acc : list string) : list string :=
  match gs with
  | GNil => acc
  | GCons names _ _ _ rest =>
      stored_names rest (fold_left (fun a n => if existsb (String.eqb n) a then a else a ++ [n]) names acc)
  end.

(** the tracing function generated for a failing [all(<generator>)]: nested loops, the first
    assignment of the loop variables for which the element is falsy *)
Fixpoint first_failing (elt : expr) (names : list string) (envs : list (env + err)) : res (option (val * list (string * val))) :=
  match envs with
  | [] => Ok None
  | inr x :: _ => Err x
  | inl m :: r =>
      match run_inner (ev elt) m with
      | Err x => Err x
      | Ok v => match p_truth P v with
                | Err x => Err x
                | Ok true => first_failing elt names r
                | Ok false => Ok (Some (v, map (fun n => (n, match lookup m n with Some w => w | None => VNone end)) names))
                end
      end
  end.

(** *** The re-evaluator, [icontract._recompute.Visitor].  The state is its [_name_to_value]
    (placeholders included) and [recomputed_values].  An error is an exception escaping [visit]
    (the caller turns it into RuntimeError "Failed to recompute"). *)
Definition any_ph (l : list val) : bool := existsb is_ph l.

Definition mark_targets (gs : gens) : M unit :=
  m <- get_env ;;
  put_env (fold_left (fun a n => set_var a n VPlaceholder) (stored_names gs []) m).

Fixpoint rc (e : expr) {struct e} : M val :=
  match e with
  | EConst v => record e v ;;; ret v
  | EName id =>
      m <- get_env ;;
      match lookup m id with
      | Some v => if is_ph v then ret VPlaceholder else record e v ;;; ret v
      | None => match p_builtin P id with
                | Some v => record e v ;;; ret v
                | None => ret VPlaceholder
                end
      end
  | EOmit => ret VNone
  | EStar _ => fail Unsupported
  | EAttr e1 a =>
      v <- rc e1 ;;
      if is_ph v then ret VPlaceholder else r <- lift (p_getattr P v a) ;; record e r ;;; ret r
  | ESub e1 i =>
      v <- rc e1 ;; s <- rc i ;;
      if is_ph v || is_ph s then ret VPlaceholder else r <- lift (p_getitem P v s) ;; record e r ;;; ret r
  | ESlice lo hi =>
      a <- rc lo ;; b <- rc hi ;;
      if is_ph a || is_ph b then ret VPlaceholder else record e (VSlice a b) ;;; ret (VSlice a b)
  | ECall f args kws =>
      fv <- rc f ;;
      if is_ph fv then ret VPlaceholder else
      if negb (p_callable P fv) then fail ValueErr else
      let normal : M val :=
        av <- rc_args args ;; kv <- rc_kwds kws ;;
        if any_ph av || any_ph (map snd kv) then ret VPlaceholder else
        r <- lift (p_call P fv av kv) ;; record e r ;;; ret r in
      match args with
      | ECons g ENil =>
          match g with
          | EComp KGen elt _ gs =>
              if negb (p_is_all P fv) then normal else
              (* tracing of all(<generator expression>) *)
              a1 <- rc g ;;
              if is_ph a1 then ret VPlaceholder else
              a2 <- rc g ;;
              r <- lift (p_call P fv [a2] []) ;;
              t <- truthM r ;;
              if t then record e r ;;; ret r else
              m <- get_env ;;
              ff <- lift (first_failing elt (stored_names gs []) (ev_gens gs m)) ;;
              match ff with
              | Some (x, inputs) => record e (VAllFail x inputs) ;;; ret r
              | None => fail Unsupported   (* "Expected the unhappy path here" *)
              end
          | _ => normal
          end
      | _ => normal
      end
  | EUn op e1 =>
      v <- rc e1 ;;
      if is_ph v then ret VPlaceholder else r <- lift (p_unop P op v) ;; record e r ;;; ret r
  | EBin op l r =>
      a <- rc l ;; b <- rc r ;;
      if is_ph a || is_ph b then ret VPlaceholder else x <- lift (p_binop P op a b) ;; record e x ;;; ret x
  | EBool is_and es =>
      r <- rc_bool is_and es false ;;
      if is_ph r then ret VPlaceholder else record e r ;;; ret r
  | ECmp l cs =>
      a <- rc l ;;
      r <- rc_cmps a cs (is_ph a) VNone ;;
      if is_ph r then ret VPlaceholder else record e r ;;; ret r
  | EIf t b o =>
      tv <- rc t ;;
      if is_ph tv then ret VPlaceholder else
      c <- truthM tv ;;
      r <- (if c then rc b else rc o) ;;
      if is_ph r then ret VPlaceholder else record e r ;;; ret r
  | ENamed tg e1 =>
      v <- rc e1 ;;
      if is_ph v then ret VPlaceholder else
      record e v ;;; m <- get_env ;; put_env (set_var m tg v) ;;; ret v
  | EFStr ps =>
      ss <- rc_parts ps ;;
      match ss with
      | None => ret VPlaceholder
      | Some l => record e (VStr (String.concat "" l)) ;;; ret (VStr (String.concat "" l))
      end
  | EList es =>
      vs <- rc_args es ;;
      if any_ph vs then ret VPlaceholder else record e (VList vs) ;;; ret (VList vs)
  | ETuple es =>
      vs <- rc_args es ;;
      if any_ph vs then ret VPlaceholder else record e (VTuple vs) ;;; ret (VTuple vs)
  | EDict ds =>
      kvs <- rc_dpairs ds ;;
      if any_ph (map fst kvs) || any_ph (map snd kvs) then ret VPlaceholder else
      d <- lift (p_mkdict P kvs) ;; record e d ;;; ret d
  | EComp k elt elt2 gs =>
      m <- get_env ;;
      mark_targets gs ;;;
      rc elt ;;; rc elt2 ;;; rc_gens gs ;;;
      put_env m ;;;
      if any_ph (map snd m) then ret VPlaceholder else
      r <- lift (comp_value e m) ;;
      match k with
      | KGen => ret r
      | _ => record e r ;;; ret r
      end
  end
with rc_args (es : exprs) {struct es} : M (list val) :=
  match es with
  | ENil => ret []
  | ECons (EStar e1) r =>
      v <- rc e1 ;;
      if is_ph v then rest <- rc_args r ;; ret (VPlaceholder :: rest) else
      items <- lift (p_iter P v) ;; xs <- lift (force items) ;; rest <- rc_args r ;; ret (xs ++ rest)
  | ECons e1 r => v <- rc e1 ;; rest <- rc_args r ;; ret (v :: rest)
  end
with rc_kwds (ks : kwds) {struct ks} : M (list (string * val)) :=
  match ks with
  | KNil => ret []
  | KCons (Some n) e1 r => v <- rc e1 ;; rest <- rc_kwds r ;; ret ((n, v) :: rest)
  | KCons None e1 r =>
      v <- rc e1 ;;
      if is_ph v then rest <- rc_kwds r ;; ret (("**", VPlaceholder) :: rest) else
      kv <- lift (p_kwunpack P v) ;; rest <- rc_kwds r ;; ret (kv ++ rest)
  end
with rc_bool (is_and : bool) (es : exprs) (seen_ph : bool) {struct es} : M val :=
  match es with
  | ENil => ret (if seen_ph then VPlaceholder else VNone)
  | ECons e1 r =>
      v <- rc e1 ;;
      let seen := seen_ph || is_ph v in
      match r with
      | ENil => ret (if seen then VPlaceholder else v)
      | ECons _ _ =>
          if seen then rc_bool is_and r true else
          t <- truthM v ;;
          if Bool.eqb t is_and then rc_bool is_and r false else ret v
      end
  end
with rc_cmps (left : val) (cs : cmps) (seen_ph : bool) (result : val) {struct cs} : M val :=
  match cs with
  | CNil => ret (if seen_ph then VPlaceholder else result)
  | CCons op e1 r =>
      c <- rc e1 ;;
      let seen := seen_ph || is_ph c in
      if seen then rc_cmps left r true result else
      x <- lift (p_cmp P op left c) ;;
      match r with
      | CNil => ret x
      | CCons _ _ _ => t <- truthM x ;; if t then rc_cmps c r false x else ret x
      end
  end
with rc_parts (ps : parts) {struct ps} : M (option (list string)) :=
  match ps with
  | PNil => ret (Some [])
  | PLit s r => rest <- rc_parts r ;; ret (match rest with Some l => Some (s :: l) | None => None end)
  | PFmt e1 cv r =>
      v <- rc e1 ;;
      if is_ph v then rc_parts r ;;; ret None else
      s <- lift (p_format P cv v) ;;
      rest <- rc_parts r ;; ret (match rest with Some l => Some (s :: l) | None => None end)
  end
with rc_dpairs (ds : dpairs) {struct ds} : M (list (val * val)) :=
  match ds with
  | DNil => ret []
  | DCons k v r =>
      (* [d[visit(key)] = visit(value)]: Python evaluates the right-hand side first *)
      vx <- rc v ;; kx <- rc k ;; rest <- rc_dpairs r ;; ret ((kx, vx) :: rest)
  end
with rc_gens (gs : gens) {struct gs} : M unit :=
  match gs with
  | GNil => ret tt
  | GCons _ _ it ifs rest => rc it ;;; rc_ifs ifs ;;; rc_gens rest
  end
with rc_ifs (es : exprs) {struct es} : M unit :=
  match es with
  | ENil => ret tt
  | ECons e1 r => rc e1 ;;; rc_ifs r
  end.

End Eval.
