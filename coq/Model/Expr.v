(** * Expr: condition expressions, Python's evaluation of them (the reference, [ev]) and
    icontract's re-evaluator [icontract._recompute.Visitor] ([rc]).

    Python's data model (operators, truth, attribute access, subscripting, calls, iteration,
    formatting) is a record of functions [prims]: an oracle, deterministic by construction.  A
    concrete instance for the correspondence check is in [Model/PyPrims.v]. *)
From Coq Require Import List String ZArith Bool.
Import ListNotations.
Open Scope string_scope.
Open Scope list_scope.

(** ** Values *)
Inductive err := ZeroDiv | IndexErr | KeyErr | AttrErr | TypeErr | NameErr | ValueErr | Unsupported
                 | Speculative.   (* raised while the re-evaluator visits a part of a comprehension on its own *)

Inductive val :=
| VNone
| VBool (b : bool)
| VInt (z : Z)
| VStr (s : string)
| VList (l : list val)
| VTuple (l : list val)
| VDict (kv : list (val * val))
| VRec (tag : Z) (fields : list (string * val))     (* an object with attributes *)
| VFun (name : string)                             (* a builtin or a module-level function *)
| VSlice (lo hi : val)
| VGen (items : list (val + err))                  (* a generator: its element results, an error ends it *)
| VAllFail (result : val) (inputs : list (string * val)). (* FirstExceptionInAll; lives in recorded maps only *)

(** what a visit of the re-evaluator returns: a value or its PLACEHOLDER (no Python value is one) *)
Definition rval := option val.

Inductive res (A : Type) := Ok (a : A) | Err (e : err).
Arguments Ok {A} a.
Arguments Err {A} e.

(** ** Syntax (mirrors the [ast] node kinds the library handles) *)
Inductive uop := UNot | UNeg | UPos | UInv.
Inductive bop := BAdd | BSub | BMul | BDiv | BFloorDiv | BMod | BPow | BLShift | BRShift | BOr | BXor | BAnd | BMatMul.
Inductive cop := CEq | CNe | CLt | CLe | CGt | CGe | CIs | CIsNot | CIn | CNotIn.
Inductive conv := ConvNone | ConvS | ConvR | ConvA.
Inductive ckind := KList | KGen | KDict.   (* set comprehensions and displays: not in the model *)

Inductive expr :=
| EConst (v : val)
| EName (id : string)
| EAttr (e : expr) (a : string)
| ESub (e : expr) (i : expr)
| ESlice (lo hi : expr)                       (* only as a subscript; a missing bound is [EOmit] *)
| EOmit
| ECall (f : expr) (args : exprs) (kws : kwds)   (* [args] may contain [EStar]; a keyword without a name is ** *)
| EStar (e : expr)
| EUn (op : uop) (e : expr)
| EBin (op : bop) (l r : expr)
| EBool (is_and : bool) (es : exprs)
| ECmp (l : expr) (cs : cmps)
| EIf (t b o : expr)
| ENamed (target : string) (e : expr)
| EFStr (ps : parts)
| EList (es : exprs)
| ETuple (es : exprs)
| EDict (ds : dpairs)
| EComp (k : ckind) (elt : expr) (elt2 : expr) (gs : gens)   (* [elt2]: the value of a dict comprehension, else [EOmit] *)
with exprs := ENil | ECons (e : expr) (es : exprs)
with kwds := KNil | KCons (name : option string) (e : expr) (k : kwds)
with cmps := CNil | CCons (op : cop) (e : expr) (c : cmps)
with parts := PNil | PLit (s : string) (p : parts) | PFmt (e : expr) (cv : conv) (p : parts)
with dpairs := DNil | DCons (k v : expr) (d : dpairs) | DStar (e : expr) (d : dpairs)   (* [**e] *)
with gens := GNil | GCons (targets : list string) (tuple_target : bool) (iter : expr) (ifs : exprs) (g : gens).

(** ** Node numbering: a node is identified by its position in the pre-order listing of the
    condition's body ([size] = number of nodes of a sub-tree).  An f-string literal part is no node. *)
Fixpoint size (e : expr) : nat :=
  S match e with
    | EConst _ | EName _ | EOmit => 0
    | EAttr e1 _ | EStar e1 | EUn _ e1 | ENamed _ e1 => size e1
    | ESub a b | ESlice a b | EBin _ a b => size a + size b
    | ECall f xs ks => size f + size_l xs + size_k ks
    | EBool _ es | EList es | ETuple es => size_l es
    | ECmp l cs => size l + size_c cs
    | EIf a b c => size a + size b + size c
    | EFStr ps => size_p ps
    | EDict ds => size_d ds
    | EComp _ a b gs => size a + size b + size_g gs
    end
with size_l (es : exprs) : nat := match es with ENil => 0 | ECons e r => size e + size_l r end
with size_k (ks : kwds) : nat := match ks with KNil => 0 | KCons _ e r => size e + size_k r end
with size_c (cs : cmps) : nat := match cs with CNil => 0 | CCons _ e r => size e + size_c r end
with size_p (ps : parts) : nat := match ps with PNil => 0 | PLit _ r => size_p r | PFmt e _ r => size e + size_p r end
with size_d (ds : dpairs) : nat :=
  match ds with DNil => 0 | DCons k v r => size k + size v + size_d r | DStar e r => size e + size_d r end
with size_g (gs : gens) : nat :=
  match gs with GNil => 0 | GCons _ _ it ifs r => size it + size_l ifs + size_g r end.

(** ** Python's data model as an oracle *)
Record prims := {
  p_unop : uop -> val -> res val;
  p_binop : bop -> val -> val -> res val;
  p_cmp : cop -> val -> val -> res val;
  p_truth : val -> res bool;
  p_getattr : val -> string -> res val;
  p_getitem : val -> val -> res val;
  p_call : val -> list val -> list (string * val) -> res val;
  p_iter : val -> res (list (val + err));
  p_format : conv -> val -> res string;
  p_mkdict : list (val * val) -> res val;
  p_kwunpack : val -> res (list (string * val));
  p_items : val -> res (list (val * val));
  p_same_key : val -> val -> bool;               (* two keys address the same dictionary entry *)       (* the items of a mapping, for [**m] in a dict display *)
  p_callable : val -> bool;
  p_is_all : val -> bool;                 (* [func == builtins.all] *)
  p_builtin : string -> option val        (* [getattr(builtins, name)] *)
}.

(** ** Environments and logs *)
Definition genv (V : Type) := list (string * V).
Definition env := genv val.
Definition renv := genv rval.     (* the re-evaluator's [_name_to_value] *)

Fixpoint lookup {V} (m : genv V) (id : string) : option V :=
  match m with
  | [] => None
  | (k, v) :: r => if String.eqb k id then Some v else lookup r id
  end.

Fixpoint set_var {V} (m : genv V) (id : string) (v : V) : genv V :=
  match m with
  | [] => [(id, v)]
  | (k, w) :: r => if String.eqb k id then (k, v) :: r else (k, w) :: set_var r id v
  end.

Definition remove_names {V} (names : list string) (m : genv V) : genv V :=
  filter (fun p => negb (existsb (String.eqb (fst p)) names)) m.

(** precedence of the look-up tables: the first table that has the name wins *)
Fixpoint flatten (tables : list env) : env :=
  match tables with
  | [] => []
  | t :: r => let rest := flatten r in
              t ++ filter (fun kv => match lookup t (fst kv) with Some _ => false | None => true end) rest
  end.

Definition up (m : env) : renv := map (fun p => (fst p, Some (snd p))) m.
Fixpoint down (m : renv) : option env :=
  match m with
  | [] => Some []
  | (k, Some v) :: r => match down r with Some r' => Some ((k, v) :: r') | None => None end
  | (_, None) :: _ => None
  end.

Definition log := list (nat * val).      (* node, value - in the order of evaluation *)
Definition gst (V : Type) := (genv V * log)%type.
Definition GM (V A : Type) := gst V -> res (A * gst V).
Definition M := GM val.        (* Python's evaluation *)
Definition R := GM rval.       (* the re-evaluator *)
Definition ret {V A} (a : A) : GM V A := fun s => Ok (a, s).
Definition fail {V A} (e : err) : GM V A := fun _ => Err e.
Definition bindM {V A B} (m : GM V A) (k : A -> GM V B) : GM V B :=
  fun s => match m s with Ok (a, s') => k a s' | Err e => Err e end.
Definition lift {V A} (r : res A) : GM V A := fun s => match r with Ok a => Ok (a, s) | Err e => Err e end.
Definition record {V} (i : nat) (v : val) : GM V unit := fun s => Ok (tt, (fst s, snd s ++ [(i, v)])).
Definition get_env {V} : GM V (genv V) := fun s => Ok (fst s, s).
Definition put_env {V} (m : genv V) : GM V unit := fun s => Ok (tt, (m, snd s)).
(** the visits of the parts of a comprehension on their own (NOTE ABOUT PLACEHOLDERS AND RE-COMPUTATION): an
    exception there is marked, whatever it was *)
Definition speculative {V A} (m : GM V A) : GM V A :=
  fun s => match m s with Ok r => Ok r | Err _ => Err Speculative end.
Notation "x <- m ;; k" := (bindM m (fun x => k)) (at level 61, m at next level, right associativity).
Notation "m ;;; k" := (bindM m (fun _ => k)) (at level 61, right associativity).

Definition run_inner {A} (m : M A) (e : env) : res A :=
  match m (e, []) with Ok (a, _) => Ok a | Err x => Err x end.

Definition has_err {A} (l : list (A + err)) : bool :=
  existsb (fun x => match x with inr _ => true | inl _ => false end) l.
Definition app_lazy {A} (l1 l2 : list (A + err)) : list (A + err) := if has_err l1 then l1 else l1 ++ l2.

Fixpoint force {A} (l : list (A + err)) : res (list A) :=
  match l with
  | [] => Ok []
  | inl a :: r => match force r with Ok x => Ok (a :: x) | Err e => Err e end
  | inr e :: _ => Err e
  end.

(** binding of a loop target: a name, or a tuple of names unpacked from a sequence *)
Fixpoint bind_names (names : list string) (vs : list val) (m : env) : res env :=
  match names, vs with
  | [], [] => Ok m
  | n :: ns, v :: vs' => bind_names ns vs' (set_var m n v)
  | _, _ => Err ValueErr
  end.


(** names stored by the loop targets, first occurrence order *)
Fixpoint stored_names (gs : gens) (acc : list string) : list string :=
  match gs with
  | GNil => acc
  | GCons names _ _ _ rest =>
      stored_names rest (fold_left (fun a n => if existsb (String.eqb n) a then a else a ++ [n]) names acc)
  end.

Section Eval.
Variable P : prims.

Definition truthM {V} (v : val) : GM V bool := lift (p_truth P v).

Definition bind_target (names : list string) (tuple_target : bool) (v : val) (m : env) : res env :=
  if tuple_target then
    match p_iter P v with
    | Ok items => match force items with Ok vs => bind_names names vs m | Err e => Err e end
    | Err e => Err e
    end
  else match names with [n] => Ok (set_var m n v) | _ => Err ValueErr end.

(** first falsifying assignment of a stream of environments *)
Fixpoint map_lazy {A B} (f : A -> res B) (l : list (A + err)) : list (B + err) :=
  match l with
  | [] => []
  | inr e :: _ => [inr e]
  | inl a :: r => match f a with Ok b => inl b :: map_lazy f r | Err e => [inr e] end
  end.

(** *** Python's evaluation.  Every evaluated node that denotes a value is logged with its value
    (the same node kinds the re-evaluator records), except inside comprehensions, which run in a
    scope of their own: there nothing is logged and bindings are local.  [i] is the node's number. *)
Fixpoint ev (i : nat) (e : expr) {struct e} : M val :=
  match e with
  | EConst v => record i v ;;; ret v
  | EName id =>
      m <- get_env ;;
      match lookup m id with
      | Some v => record i v ;;; ret v
      | None => match p_builtin P id with
                | Some v => record i v ;;; ret v
                | None => fail NameErr
                end
      end
  | EOmit => ret VNone
  | EStar e1 => ev (S i) e1     (* only met in argument / element position, where it is unpacked *)
  | EAttr e1 a => v <- ev (S i) e1 ;; r <- lift (p_getattr P v a) ;; record i r ;;; ret r
  | ESub e1 ix => v <- ev (S i) e1 ;; s <- ev (S i + size e1) ix ;; r <- lift (p_getitem P v s) ;; record i r ;;; ret r
  | ESlice lo hi => a <- ev (S i) lo ;; b <- ev (S i + size lo) hi ;; record i (VSlice a b) ;;; ret (VSlice a b)
  | ECall f args kws =>
      fv <- ev (S i) f ;; av <- ev_args (S i + size f) args ;; kv <- ev_kwds (S i + size f + size_l args) kws ;;
      r <- lift (p_call P fv av kv) ;; record i r ;;; ret r
  | EUn op e1 => v <- ev (S i) e1 ;; r <- lift (p_unop P op v) ;; record i r ;;; ret r
  | EBin op l r => a <- ev (S i) l ;; b <- ev (S i + size l) r ;; x <- lift (p_binop P op a b) ;; record i x ;;; ret x
  | EBool is_and es => r <- ev_bool is_and (S i) es ;; record i r ;;; ret r
  | ECmp l cs => a <- ev (S i) l ;; r <- ev_cmps a (S i + size l) cs ;; record i r ;;; ret r
  | EIf t b o =>
      tv <- ev (S i) t ;; c <- truthM tv ;;
      r <- (if c then ev (S i + size t) b else ev (S i + size t + size b) o) ;; record i r ;;; ret r
  | ENamed tg e1 =>
      v <- ev (S i) e1 ;; record i v ;;; m <- get_env ;; put_env (set_var m tg v) ;;; ret v
  | EFStr ps => ss <- ev_parts (S i) ps ;; record i (VStr (String.concat "" ss)) ;;; ret (VStr (String.concat "" ss))
  | EList es => vs <- ev_args (S i) es ;; record i (VList vs) ;;; ret (VList vs)
  | ETuple es => vs <- ev_args (S i) es ;; record i (VTuple vs) ;;; ret (VTuple vs)
  | EDict ds => kvs <- ev_dpairs (S i) ds ;; d <- lift (p_mkdict P kvs) ;; record i d ;;; ret d
  | EComp k elt elt2 gs =>
      m <- get_env ;;
      (* the first iterable is evaluated when the comprehension is created *)
      match gs with
      | GNil => fail Unsupported
      | GCons _ _ it0 _ _ =>
          match run_inner (ev 0 it0) m with
          | Err x => fail x
          | Ok _ =>
              (* the loop variables are local to the comprehension: unbound until their clause binds them *)
              let envs := ev_gens gs m (remove_names (stored_names gs []) m) in
              match k with
              | KGen => ret (VGen (map_lazy (fun m' => run_inner (ev 0 elt) m') envs))
              | KList =>
                  vs <- lift (force (map_lazy (fun m' => run_inner (ev 0 elt) m') envs)) ;;
                  record i (VList vs) ;;; ret (VList vs)
              | KDict =>
                  kvs <- lift (force (map_lazy (fun m' =>
                            match run_inner (ev 0 elt) m' with
                            | Ok kx => match run_inner (ev 0 elt2) m' with Ok vx => Ok (kx, vx) | Err x => Err x end
                            | Err x => Err x
                            end) envs)) ;;
                  d <- lift (p_mkdict P kvs) ;; record i d ;;; ret d
              end
          end
      end
  end
with ev_args (i : nat) (es : exprs) {struct es} : M (list val) :=
  match es with
  | ENil => ret []
  | ECons (EStar e1) r =>
      v <- ev (S i) e1 ;; items <- lift (p_iter P v) ;; xs <- lift (force items) ;;
      rest <- ev_args (S i + size e1) r ;; ret (xs ++ rest)
  | ECons e1 r => v <- ev i e1 ;; rest <- ev_args (i + size e1) r ;; ret (v :: rest)
  end
with ev_kwds (i : nat) (ks : kwds) {struct ks} : M (list (string * val)) :=
  match ks with
  | KNil => ret []
  | KCons (Some n) e1 r => v <- ev i e1 ;; rest <- ev_kwds (i + size e1) r ;; ret ((n, v) :: rest)
  | KCons None e1 r => v <- ev i e1 ;; kv <- lift (p_kwunpack P v) ;; rest <- ev_kwds (i + size e1) r ;; ret (kv ++ rest)
  end
with ev_bool (is_and : bool) (i : nat) (es : exprs) {struct es} : M val :=
  match es with
  | ENil => ret VNone
  | ECons e1 r =>
      match r with
      | ENil => ev i e1
      | ECons _ _ =>
          v <- ev i e1 ;; t <- truthM v ;;
          if Bool.eqb t is_and then ev_bool is_and (i + size e1) r else ret v
      end
  end
with ev_cmps (left : val) (i : nat) (cs : cmps) {struct cs} : M val :=
  match cs with
  | CNil => ret VNone
  | CCons op e1 r =>
      c <- ev i e1 ;; x <- lift (p_cmp P op left c) ;;
      match r with
      | CNil => ret x
      | CCons _ _ _ => t <- truthM x ;; if t then ev_cmps c (i + size e1) r else ret x
      end
  end
with ev_parts (i : nat) (ps : parts) {struct ps} : M (list string) :=
  match ps with
  | PNil => ret []
  | PLit s r => rest <- ev_parts i r ;; ret (s :: rest)
  | PFmt e1 cv r => v <- ev i e1 ;; s <- lift (p_format P cv v) ;; rest <- ev_parts (i + size e1) r ;; ret (s :: rest)
  end
with ev_dpairs (i : nat) (ds : dpairs) {struct ds} : M (list (val * val)) :=
  match ds with
  | DNil => ret []
  | DCons k v r =>
      kx <- ev i k ;; vx <- ev (i + size k) v ;; rest <- ev_dpairs (i + size k + size v) r ;; ret ((kx, vx) :: rest)
  | DStar e1 r =>
      mv <- ev i e1 ;; kv <- lift (p_items P mv) ;; rest <- ev_dpairs (i + size e1) r ;; ret (kv ++ rest)
  end
with ev_gens (gs : gens) (m_iter m : env) {struct gs} : list (env + err) :=
  (* [m_iter]: where the iterable of the first clause is evaluated (the enclosing scope for the
     outermost clause); [m]: the comprehension's own scope *)
  match gs with
  | GNil => [inl m]
  | GCons names tup it ifs rest =>
      match run_inner (ev 0 it) m_iter with
      | Err x => [inr x]
      | Ok itv =>
          match p_iter P itv with
          | Err x => [inr x]
          | Ok items =>
              (fix loop (xs : list (val + err)) : list (env + err) :=
                 match xs with
                 | [] => []
                 | inr x :: _ => [inr x]
                 | inl x :: xs' =>
                     match bind_target names tup x m with
                     | Err x' => [inr x']
                     | Ok m' =>
                         match run_inner (ev_ifs ifs) m' with
                         | Err x' => [inr x']
                         | Ok false => loop xs'
                         | Ok true => app_lazy (ev_gens rest m' m') (loop xs')
                         end
                     end
                 end) items
          end
      end
  end
with ev_ifs (es : exprs) {struct es} : M bool :=
  match es with
  | ENil => ret true
  | ECons e1 r => v <- ev 0 e1 ;; t <- truthM v ;; if t then ev_ifs r else ret false
  end.

(** the value of a comprehension under a mapping, as [_execute_comprehension] obtains it by
    compiling the node into a function of the mapping's names: Python's own evaluation *)
Definition comp_value (e : expr) (m : env) : res val := run_inner (ev 0 e) m.

(** the tracing function generated for a failing [all(<generator>)]: nested loops, the first
    assignment of the loop variables for which the element is falsy *)
Fixpoint first_failing (elt : expr) (names : list string) (envs : list (env + err)) : res (option (val * list (string * val))) :=
  match envs with
  | [] => Ok None
  | inr x :: _ => Err x
  | inl m :: r =>
      match run_inner (ev 0 elt) m with
      | Err x => Err x
      | Ok v => match p_truth P v with
                | Err x => Err x
                | Ok true => first_failing elt names r
                | Ok false => Ok (Some (v, map (fun n => (n, match lookup m n with Some w => w | None => VNone end)) names))
                end
      end
  end.

(** *** The re-evaluator, [icontract._recompute.Visitor].  The state is its [_name_to_value]
    (placeholders included) and [recomputed_values].  An error is an exception escaping [visit]
    (the caller turns it into RuntimeError "Failed to recompute"). *)
Fixpoint all_some {A} (l : list (option A)) : option (list A) :=
  match l with
  | [] => Some []
  | Some a :: r => match all_some r with Some r' => Some (a :: r') | None => None end
  | None :: _ => None
  end.

Definition all_some_kw (l : list (string * rval)) : option (list (string * val)) :=
  match all_some (map snd l) with
  | Some vs => Some (combine (map fst l) vs)
  | None => None
  end.

Definition mark_targets (gs : gens) : R unit :=
  m <- get_env ;;
  put_env (fold_left (fun a n => set_var a n (None : rval)) (stored_names gs []) m).

Definition ph {A} : R (option A) := ret None.

(** the re-evaluator fills a Python dict item by item and looks for placeholders in the *finished* dict: an unknown
    value stored under a key that a later item stores again is gone by then *)
Definition last_value (k : val) (kvs : list (rval * rval)) (dflt : rval) : rval :=
  fold_left (fun acc p => match fst p with
                          | Some k' => if p_same_key P k k' then snd p else acc
                          | None => acc
                          end) kvs dflt.

Fixpoint settle (kvs : list (rval * rval)) : list (rval * rval) :=
  match kvs with
  | [] => []
  | (Some k, None) :: r => (Some k, last_value k r None) :: settle r
  | p :: r => p :: settle r
  end.

Definition dict_items (kvs : list (rval * rval)) : option (list (val * val)) :=
  let c := settle kvs in
  match all_some (map fst c), all_some (map snd c) with
  | Some ks, Some vs => Some (combine ks vs)
  | _, _ => None
  end.

Fixpoint rc (i : nat) (e : expr) {struct e} : R rval :=
  match e with
  | EConst v => record i v ;;; ret (Some v)
  | EName id =>
      m <- get_env ;;
      match lookup m id with
      | Some (Some v) => record i v ;;; ret (Some v)
      | Some None => ph
      | None => match p_builtin P id with
                | Some v => record i v ;;; ret (Some v)
                | None => ph
                end
      end
  | EOmit => ret (Some VNone)
  | EStar e1 => rc (S i) e1
  | EAttr e1 a =>
      x <- rc (S i) e1 ;;
      match x with
      | None => ph
      | Some v => r <- lift (p_getattr P v a) ;; record i r ;;; ret (Some r)
      end
  | ESub e1 ix =>
      x <- rc (S i) e1 ;; y <- rc (S i + size e1) ix ;;
      match x, y with
      | Some v, Some s => r <- lift (p_getitem P v s) ;; record i r ;;; ret (Some r)
      | _, _ => ph
      end
  | ESlice lo hi =>
      x <- rc (S i) lo ;; y <- rc (S i + size lo) hi ;;
      match x, y with
      | Some a, Some b => record i (VSlice a b) ;;; ret (Some (VSlice a b))
      | _, _ => ph
      end
  | ECall f args kws =>
      x <- rc (S i) f ;;
      match x with
      | None => ph
      | Some fv =>
          if negb (p_callable P fv) then fail ValueErr else
          let normal : R rval :=
            av <- rc_args (S i + size f) args ;; kv <- rc_kwds (S i + size f + size_l args) kws ;;
            match all_some av, all_some_kw kv with
            | Some avs, Some kvs => r <- lift (p_call P fv avs kvs) ;; record i r ;;; ret (Some r)
            | _, _ => ph
            end in
          match args with
          | ECons g ENil =>
              match g with
              | EComp KGen elt _ gs =>
                  if negb (p_is_all P fv) then normal else
                  (* tracing of all(<generator expression>) *)
                  a1 <- rc (S i + size f) g ;;
                  match a1 with
                  | None => ph
                  | Some _ =>
                      a2 <- rc (S i + size f) g ;;
                      match a2 with
                      | None => ph
                      | Some gv =>
                          r <- lift (p_call P fv [gv] []) ;;
                          t <- truthM r ;;
                          if t then record i r ;;; ret (Some r) else
                          m <- get_env ;;
                          match down m with
                          | None => fail Unsupported
                          | Some m' =>
                              ff <- lift (first_failing elt (stored_names gs []) (ev_gens gs m' (remove_names (stored_names gs []) m'))) ;;
                              match ff with
                              | Some (x', inputs) => record i (VAllFail x' inputs) ;;; ret (Some r)
                              | None => fail Unsupported   (* "Expected the unhappy path here" *)
                              end
                          end
                      end
                  end
              | _ => normal
              end
          | _ => normal
          end
      end
  | EUn op e1 =>
      x <- rc (S i) e1 ;;
      match x with
      | None => ph
      | Some v => r <- lift (p_unop P op v) ;; record i r ;;; ret (Some r)
      end
  | EBin op l r =>
      x <- rc (S i) l ;; y <- rc (S i + size l) r ;;
      match x, y with
      | Some a, Some b => z <- lift (p_binop P op a b) ;; record i z ;;; ret (Some z)
      | _, _ => ph
      end
  | EBool is_and es =>
      x <- rc_bool is_and (S i) es false ;;
      match x with
      | None => ph
      | Some r => record i r ;;; ret (Some r)
      end
  | ECmp l cs =>
      x <- rc (S i) l ;;
      y <- match x with
           | None => rc_cmps VNone (S i + size l) cs true VNone
           | Some a => rc_cmps a (S i + size l) cs false VNone
           end ;;
      match y with
      | None => ph
      | Some r => record i r ;;; ret (Some r)
      end
  | EIf t b o =>
      x <- rc (S i) t ;;
      match x with
      | None => ph
      | Some tv =>
          c <- truthM tv ;;
          y <- (if c then rc (S i + size t) b else rc (S i + size t + size b) o) ;;
          match y with
          | None => ph
          | Some r => record i r ;;; ret (Some r)
          end
      end
  | ENamed tg e1 =>
      x <- rc (S i) e1 ;;
      match x with
      | None => ph
      | Some v => record i v ;;; m <- get_env ;; put_env (set_var m tg (Some v)) ;;; ret (Some v)
      end
  | EFStr ps =>
      ss <- rc_parts (S i) ps ;;
      match ss with
      | None => ph
      | Some l => record i (VStr (String.concat "" l)) ;;; ret (Some (VStr (String.concat "" l)))
      end
  | EList es =>
      xs <- rc_args (S i) es ;;
      match all_some xs with
      | None => ph
      | Some vs => record i (VList vs) ;;; ret (Some (VList vs))
      end
  | ETuple es =>
      xs <- rc_args (S i) es ;;
      match all_some xs with
      | None => ph
      | Some vs => record i (VTuple vs) ;;; ret (Some (VTuple vs))
      end
  | EDict ds =>
      kvs <- rc_dpairs (S i) ds ;;
      match dict_items kvs with
      | Some items => d <- lift (p_mkdict P items) ;; record i d ;;; ret (Some d)
      | None => ph
      end
  | EComp k elt elt2 gs =>
      m <- get_env ;;
      mark_targets gs ;;;
      speculative (rc (S i) elt ;;; rc (S i + size elt) elt2 ;;; rc_gens (S i + size elt + size elt2) gs) ;;;
      put_env m ;;;
      match down m with
      | None => ph        (* a comprehension nested in a comprehension: not re-computed *)
      | Some m' =>
          r <- lift (comp_value e m') ;;
          match k with
          | KGen => ret (Some r)
          | _ => record i r ;;; ret (Some r)
          end
      end
  end
with rc_args (i : nat) (es : exprs) {struct es} : R (list rval) :=
  match es with
  | ENil => ret []
  | ECons (EStar e1) r =>
      x <- rc (S i) e1 ;;
      match x with
      | None => rest <- rc_args (S i + size e1) r ;; ret (None :: rest)
      | Some v =>
          items <- lift (p_iter P v) ;; xs <- lift (force items) ;;
          rest <- rc_args (S i + size e1) r ;; ret (map Some xs ++ rest)
      end
  | ECons e1 r => x <- rc i e1 ;; rest <- rc_args (i + size e1) r ;; ret (x :: rest)
  end
with rc_kwds (i : nat) (ks : kwds) {struct ks} : R (list (string * rval)) :=
  match ks with
  | KNil => ret []
  | KCons (Some n) e1 r => x <- rc i e1 ;; rest <- rc_kwds (i + size e1) r ;; ret ((n, x) :: rest)
  | KCons None e1 r =>
      x <- rc i e1 ;;
      match x with
      | None => rest <- rc_kwds (i + size e1) r ;; ret (("**", None) :: rest)
      | Some v =>
          kv <- lift (p_kwunpack P v) ;; rest <- rc_kwds (i + size e1) r ;;
          ret (map (fun p => (fst p, Some (snd p))) kv ++ rest)
      end
  end
with rc_bool (is_and : bool) (i : nat) (es : exprs) (seen_ph : bool) {struct es} : R rval :=
  match es with
  | ENil => ret (if seen_ph then None else Some VNone)
  | ECons e1 r =>
      x <- rc i e1 ;;
      match r with
      | ENil => ret (if seen_ph then None else x)
      | ECons _ _ =>
          match (if seen_ph then None else x) with
          | None => rc_bool is_and (i + size e1) r true
          | Some v =>
              t <- truthM v ;;
              if Bool.eqb t is_and then rc_bool is_and (i + size e1) r false else ret (Some v)
          end
      end
  end
with rc_cmps (left : val) (i : nat) (cs : cmps) (seen_ph : bool) (result : val) {struct cs} : R rval :=
  match cs with
  | CNil => ret (if seen_ph then None else Some result)
  | CCons op e1 r =>
      x <- rc i e1 ;;
      match (if seen_ph then None else x) with
      | None => rc_cmps left (i + size e1) r true result
      | Some c =>
          z <- lift (p_cmp P op left c) ;;
          match r with
          | CNil => ret (Some z)
          | CCons _ _ _ => t <- truthM z ;; if t then rc_cmps c (i + size e1) r false z else ret (Some z)
          end
      end
  end
with rc_parts (i : nat) (ps : parts) {struct ps} : R (option (list string)) :=
  match ps with
  | PNil => ret (Some [])
  | PLit s r => rest <- rc_parts i r ;; ret (match rest with Some l => Some (s :: l) | None => None end)
  | PFmt e1 cv r =>
      x <- rc i e1 ;;
      match x with
      | None => rc_parts (i + size e1) r ;;; ret None
      | Some v =>
          s <- lift (p_format P cv v) ;;
          rest <- rc_parts (i + size e1) r ;; ret (match rest with Some l => Some (s :: l) | None => None end)
      end
  end
with rc_dpairs (i : nat) (ds : dpairs) {struct ds} : R (list (rval * rval)) :=
  match ds with
  | DNil => ret []
  | DCons k v r =>
      kx <- rc i k ;; vx <- rc (i + size k) v ;; rest <- rc_dpairs (i + size k + size v) r ;; ret ((kx, vx) :: rest)
  | DStar e1 r =>
      x <- rc i e1 ;;
      match x with
      | None => rest <- rc_dpairs (i + size e1) r ;; ret ((None, None) :: rest)
      | Some mv =>
          kv <- lift (p_items P mv) ;; rest <- rc_dpairs (i + size e1) r ;;
          ret (map (fun p => (Some (fst p), Some (snd p))) kv ++ rest)
      end
  end
with rc_gens (i : nat) (gs : gens) {struct gs} : R unit :=
  match gs with
  | GNil => ret tt
  | GCons _ _ it ifs rest => rc i it ;;; rc_ifs (i + size it) ifs ;;; rc_gens (i + size it + size_l ifs) rest
  end
with rc_ifs (i : nat) (es : exprs) {struct es} : R unit :=
  match es with
  | ENil => ret tt
  | ECons e1 r => rc i e1 ;;; rc_ifs (i + size e1) r
  end.

End Eval.
