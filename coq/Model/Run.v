(** * Run: re-entrancy, faults and suspension - the in-progress marker of the wrappers.

    A program is a finite set of contracted functions, classes with invariants and instances;
    every piece of user code (condition, capture, body, invariant) is a finite script that may
    call any function / method / constructor any number of times, may suspend (await) and ends by
    returning a truth value or raising.

    The wrappers are written as programs over four effects - reading and setting the in-progress
    context variable, emitting an event, suspending - so that the same definition is run
    sequentially (this file: C10, C11) and by a scheduler over several contexts (Model/Conc.v: C12).
    They mirror [decorate_with_checker.wrapper] and [_decorate_with_invariants.wrapper]:
    get the set; re-entrant -> bare call (outside any try); publish set+id; try: contracts, the
    body (for functions with the marker lifted), contracts; finally: publish the saved set. *)
From Coq Require Import List ZArith Bool Arith Lia.
Import ListNotations.

Inductive key := KF (f : nat) | KO (o : nat).
Definition key_eqb (a b : key) : bool :=
  match a, b with KF x, KF y | KO x, KO y => Nat.eqb x y | _, _ => false end.
Definition kset := list key.
Fixpoint kmem (k : key) (s : kset) : bool :=
  match s with [] => false | x :: r => key_eqb x k || kmem k r end.

Inductive target :=
| TFn (f : nat)                 (* call the contracted function f *)
| TMeth (o : nat) (m : nat)     (* call public method m of instance o *)
| TInit (o : nat)               (* run the (outermost or nested) constructor on instance o *)
| TNew (o : nat).               (* create instance o of a class that defines __new__ and no __init__ *)

Inductive action :=
| ACall (t : target)
| AAwait (pt : nat).            (* a suspension point in user code *)

Inductive verdict := VRet (b : bool) | VRaise (e : Z).
Definition script := (list action * verdict)%type.

Record fn := { fn_pre : list (list script); fn_snaps : list script; fn_post : list script; fn_body : script }.
Record cls := { cl_invs : list script; cl_meths : list script; cl_init : script }.
Record program := { p_fns : list fn; p_classes : list cls; p_objs : list nat (* class of each instance *) }.

(** which piece of user code runs *)
Inductive site :=
| SPre (f g i : nat) | SCap (f i : nat) | SBody (f : nat) | SPost (f i : nat)
| SInv (o i : nat) | SMeth (o m : nat) | SInitBody (o : nat).

Inductive exn :=
| EUser (e : Z)           (* raised by user code (incl. CancelledError / GeneratorExit injected at an await) *)
| EViol (s : site)        (* violation of the contract evaluated at this site *)
| EFuel.                  (* the interpreter's recursion budget is exhausted *)

Inductive event :=
| EvSite (s : site)       (* this piece of user code starts *)
| EvBare (t : target)     (* the wrapper took the re-entrant shortcut: bare call *)
| EvRaise (x : exn).      (* an exception starts to propagate here *)

(** ** Programs over the effects *)
Inductive prog (A : Type) : Type :=
| Ret (a : A)
| Raise (x : exn)
| GetP (k : kset -> prog A)
| SetP (s : kset) (k : prog A)
| Emit (ev : event) (k : prog A)
| Suspend (pt : nat) (resume : prog A) (cancel : Z -> prog A).
Arguments Ret {A} a.
Arguments Raise {A} x.
Arguments GetP {A} k.
Arguments SetP {A} s k.
Arguments Emit {A} ev k.
Arguments Suspend {A} pt resume cancel.

Fixpoint pbind {A B} (m : prog A) (f : A -> prog B) : prog B :=
  match m with
  | Ret a => f a
  | Raise x => Raise x
  | GetP k => GetP (fun s => pbind (k s) f)
  | SetP s k => SetP s (pbind k f)
  | Emit ev k => Emit ev (pbind k f)
  | Suspend pt r c => Suspend pt (pbind r f) (fun e => pbind (c e) f)
  end.

(** [try: m finally: fin] *)
Fixpoint finally_ {A} (m : prog A) (fin : prog unit) : prog A :=
  match m with
  | Ret a => pbind fin (fun _ => Ret a)
  | Raise x => pbind fin (fun _ => Raise x)
  | GetP k => GetP (fun s => finally_ (k s) fin)
  | SetP s k => SetP s (finally_ k fin)
  | Emit ev k => Emit ev (finally_ k fin)
  | Suspend pt r c => Suspend pt (finally_ r fin) (fun e => finally_ (c e) fin)
  end.

(** raising, with the event that marks where the exception started *)
Definition raise_ {A} (x : exn) : prog A := Emit (EvRaise x) (Raise x).

Notation "x <- m ;; k" := (pbind m (fun x => k)) (at level 61, m at next level, right associativity).
Notation "m ;;; k" := (pbind m (fun _ => k)) (at level 61, right associativity).

(** ** The interpreter of user scripts and the wrappers (fuel = nesting depth of calls) *)
Section Interp.
  Variable P : program.

  Definition get_fn (f : nat) : option fn := nth_error (p_fns P) f.
  Definition class_of (o : nat) : option cls :=
    match nth_error (p_objs P) o with Some c => nth_error (p_classes P) c | None => None end.

  (** conjunction: stop at the first falsy condition *)
  Fixpoint run_conj (run : script -> prog bool) (mk : nat -> site) (i : nat) (l : list script) : prog unit :=
    match l with
    | [] => Ret tt
    | sc :: rest =>
        Emit (EvSite (mk i)) (b <- run sc ;; if b then run_conj run mk (S i) rest else raise_ (EViol (mk i)))
    end.

  (** captures: all of them, results ignored here *)
  Fixpoint run_all (run : script -> prog bool) (mk : nat -> site) (i : nat) (l : list script) : prog unit :=
    match l with
    | [] => Ret tt
    | sc :: rest => Emit (EvSite (mk i)) (run sc ;;; run_all run mk (S i) rest)
    end.

  (** DNF: a group that fails is followed by the next group; the last failure is raised *)
  Fixpoint run_group (run : script -> prog bool) (f g i : nat) (l : list script) : prog (option site) :=
    match l with
    | [] => Ret None
    | sc :: rest =>
        Emit (EvSite (SPre f g i))
             (b <- run sc ;; if b then run_group run f g (S i) rest else Ret (Some (SPre f g i)))
    end.
  Fixpoint run_groups (run : script -> prog bool) (f g : nat) (gs : list (list script)) : prog unit :=
    match gs with
    | [] => Ret tt
    | grp :: rest =>
        v <- run_group run f g 0 grp ;;
        match v with
        | None => Ret tt
        | Some st => match rest with [] => raise_ (EViol st) | _ :: _ => run_groups run f (S g) rest end
        end
    end.

  (** a script: its calls and suspension points in order, then its verdict *)
  Fixpoint run_actions (call : target -> prog bool) (acts : list action) (v : verdict) : prog bool :=
    match acts with
    | [] => match v with VRet b => Ret b | VRaise e => raise_ (EUser e) end
    | ACall t :: rest => call t ;;; run_actions call rest v
    | AAwait pt :: rest => Suspend pt (run_actions call rest v) (fun e => raise_ (EUser e))
    end.
  Definition run_script (call : target -> prog bool) (sc : script) : prog bool :=
    run_actions call (fst sc) (snd sc).

  (** the checker wrapper of a function: [decorate_with_checker.wrapper] *)
  Definition call_fn (run : script -> prog bool) (f : nat) (fd : fn) : prog bool :=
    GetP (fun s =>
      if kmem (KF f) s
      then Emit (EvBare (TFn f)) (Emit (EvSite (SBody f)) (run (fn_body fd)))
      else
        SetP (KF f :: s)
          (finally_
             (run_groups run f 0 (fn_pre fd) ;;;
              (match fn_post fd with
               | [] => Ret tt
               | _ :: _ => run_all run (SCap f) 0 (fn_snaps fd)
               end) ;;;
              SetP s (Emit (EvSite (SBody f)) (r <- run (fn_body fd) ;;
              SetP (KF f :: s)
                (run_conj run (SPost f) 0 (fn_post fd) ;;; Ret r))))
             (SetP s (Ret tt)))).

  (** the invariant wrapper of a public method: [_decorate_with_invariants.wrapper] (not __init__) *)
  Definition call_meth (run : script -> prog bool) (o m : nat) (cd : cls) (body : script) : prog bool :=
    GetP (fun s =>
      if kmem (KO o) s
      then Emit (EvBare (TMeth o m)) (Emit (EvSite (SMeth o m)) (run body))
      else
        SetP (KO o :: s)
          (finally_
             (run_conj run (SInv o) 0 (cl_invs cd) ;;;
              Emit (EvSite (SMeth o m)) (r <- run body ;;
              run_conj run (SInv o) 0 (cl_invs cd) ;;; Ret r))
             (SetP s (Ret tt)))).

  (** the invariant wrapper of __init__ *)
  Definition call_init (run : script -> prog bool) (o : nat) (cd : cls) : prog bool :=
    GetP (fun s =>
      if kmem (KO o) s
      then Emit (EvBare (TInit o)) (Emit (EvSite (SInitBody o)) (run (cl_init cd)))
      else
        SetP (KO o :: s)
          (finally_
             (Emit (EvSite (SInitBody o)) (r <- run (cl_init cd) ;;
              run_conj run (SInv o) 0 (cl_invs cd) ;;; Ret r))
             (SetP s (Ret tt)))).

  (** the wrapper of __new__ of a class without a constructor of its own ([_decorate_new_with_invariants]):
      the instance is created, then the invariants are evaluated; nothing is suspended meanwhile *)
  Definition call_new (run : script -> prog bool) (o : nat) (cd : cls) : prog bool :=
    Emit (EvSite (SInitBody o)) (r <- run (cl_init cd) ;;
    run_conj run (SInv o) 0 (cl_invs cd) ;;; Ret r).

  Definition dispatch (run : script -> prog bool) (t : target) : prog bool :=
    match t with
    | TFn f =>
        match get_fn f with
        | None => raise_ EFuel
        | Some fd => call_fn run f fd
        end
    | TMeth o m =>
        match class_of o with
        | None => raise_ EFuel
        | Some cd =>
            match nth_error (cl_meths cd) m with
            | None => raise_ EFuel
            | Some body => call_meth run o m cd body
            end
        end
    | TInit o =>
        match class_of o with
        | None => raise_ EFuel
        | Some cd => call_init run o cd
        end
    | TNew o =>
        match class_of o with
        | None => raise_ EFuel
        | Some cd => call_new run o cd
        end
    end.

  Fixpoint exec (fuel : nat) : target -> prog bool :=
    match fuel with
    | 0 => fun _ => raise_ EFuel
    | S fuel' => dispatch (run_script (exec fuel'))
    end.
End Interp.

(** ** Sequential handler: one context; [plan] says at which suspension points an exception
    (cancellation, close) is thrown into the coroutine. *)
Inductive outcome (A : Type) := ORet (a : A) | OExn (x : exn).
Arguments ORet {A} a.
Arguments OExn {A} x.

Fixpoint run_seq {A} (plan : nat -> option Z) (m : prog A) (s : kset) : list event * outcome A * kset :=
  match m with
  | Ret a => ([], ORet a, s)
  | Raise x => ([], OExn x, s)
  | GetP k => run_seq plan (k s) s
  | SetP s' k => run_seq plan k s'
  | Emit ev k => match run_seq plan k s with (t, r, s') => (ev :: t, r, s') end
  | Suspend pt r c =>
      match plan pt with
      | None => run_seq plan r s
      | Some e => run_seq plan (c e) s
      end
  end.

Definition no_faults : nat -> option Z := fun _ => None.
