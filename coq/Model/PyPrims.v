(** * PyPrims: a concrete instance of the data-model oracle for the correspondence check.
    A mini-domain of Python values: None, bools, unbounded ints, ASCII strings, lists, tuples, dicts,
    records with attributes, a few builtins and four module-level functions.  CPython evaluates the
    same expressions on the same values; the two are compared node by node on every run. *)
From Coq Require Import List String ZArith Bool Ascii DecimalString.
From ICV Require Import Expr.
Import ListNotations.
Open Scope string_scope.
Open Scope list_scope.
Open Scope Z_scope.
Infix "+++" := String.append (at level 60, right associativity).

Definition as_int (v : val) : option Z :=
  match v with VInt z => Some z | VBool true => Some 1 | VBool false => Some 0 | _ => None end.

(** structural equality, [True == 1] *)
Fixpoint val_eqb (a b : val) {struct a} : bool :=
  let fix list_eqb (l1 l2 : list val) {struct l1} : bool :=
    match l1, l2 with
    | [], [] => true
    | x :: r1, y :: r2 => val_eqb x y && list_eqb r1 r2
    | _, _ => false
    end in
  let fix fields_eqb (l1 l2 : list (string * val)) {struct l1} : bool :=
    match l1, l2 with
    | [], [] => true
    | (k1, x) :: r1, (k2, y) :: r2 => String.eqb k1 k2 && val_eqb x y && fields_eqb r1 r2
    | _, _ => false
    end in
  let fix kv_eqb (l1 l2 : list (val * val)) {struct l1} : bool :=
    match l1, l2 with
    | [], [] => true
    | (k1, x) :: r1, (k2, y) :: r2 => val_eqb k1 k2 && val_eqb x y && kv_eqb r1 r2
    | _, _ => false
    end in
  match a, b with
  | VNone, VNone => true
  | VBool x, VBool y => Bool.eqb x y
  | VBool x, VInt y => Z.eqb (if x then 1 else 0) y
  | VInt x, VBool y => Z.eqb x (if y then 1 else 0)
  | VInt x, VInt y => Z.eqb x y
  | VStr x, VStr y => String.eqb x y
  | VList x, VList y => list_eqb x y
  | VTuple x, VTuple y => list_eqb x y
  | VDict x, VDict y => kv_eqb x y          (* same insertion order: enough for the generated cases *)
  | VRec t1 f1, VRec t2 f2 => Z.eqb t1 t2 && fields_eqb f1 f2
  | VFun x, VFun y => String.eqb x y
  | VSlice a1 b1, VSlice a2 b2 => val_eqb a1 a2 && val_eqb b1 b2
  | VGen _, VGen _ => true                  (* generator objects are not compared *)
  | VAllFail _ i1, VAllFail _ i2 => fields_eqb i1 i2   (* the message shows the inputs only *)
  | _, _ => false
  end.

Definition py_truth (v : val) : res bool :=
  Ok (match v with
      | VNone => false
      | VBool b => b
      | VInt z => negb (Z.eqb z 0)
      | VStr s => negb (String.eqb s "")
      | VList l | VTuple l => match l with [] => false | _ => true end
      | VDict l => match l with [] => false | _ => true end
      | VAllFail _ _ => false
      | _ => true
      end).

Definition truth_of (v : val) : bool := match py_truth v with Ok b => b | Err _ => false end.

Definition py_unop (op : uop) (v : val) : res val :=
  match op with
  | UNot => Ok (VBool (negb (truth_of v)))
  | UNeg => match as_int v with Some z => Ok (VInt (- z)) | None => Err TypeErr end
  | UPos => match as_int v with Some z => Ok (VInt z) | None => Err TypeErr end
  | UInv => match as_int v with Some z => Ok (VInt (- z - 1)) | None => Err TypeErr end
  end.

Fixpoint repeat_list {A} (l : list A) (n : nat) : list A :=
  match n with O => [] | S k => l ++ repeat_list l k end.

Definition py_binop (op : bop) (a b : val) : res val :=
  match op, a, b with
  | BAdd, VStr x, VStr y => Ok (VStr (x +++ y))
  | BAdd, VList x, VList y => Ok (VList (x ++ y))
  | BAdd, VTuple x, VTuple y => Ok (VTuple (x ++ y))
  | BMul, VList x, _ => match as_int b with Some n => Ok (VList (repeat_list x (Z.to_nat n))) | None => Err TypeErr end
  | BOr, VBool x, VBool y => Ok (VBool (x || y))
  | BAnd, VBool x, VBool y => Ok (VBool (x && y))
  | BXor, VBool x, VBool y => Ok (VBool (xorb x y))
  | _, _, _ =>
      match as_int a, as_int b with
      | Some x, Some y =>
          match op with
          | BAdd => Ok (VInt (x + y))
          | BSub => Ok (VInt (x - y))
          | BMul => Ok (VInt (x * y))
          | BFloorDiv => if Z.eqb y 0 then Err ZeroDiv else Ok (VInt (x / y))
          | BMod => if Z.eqb y 0 then Err ZeroDiv else Ok (VInt (x mod y))
          | BLShift => if Z.ltb y 0 then Err ValueErr else Ok (VInt (Z.shiftl x y))
          | BRShift => if Z.ltb y 0 then Err ValueErr else Ok (VInt (Z.shiftr x y))
          | BOr => Ok (VInt (Z.lor x y))
          | BXor => Ok (VInt (Z.lxor x y))
          | BAnd => Ok (VInt (Z.land x y))
          | BDiv | BPow | BMatMul => Err Unsupported    (* floats / big powers: outside the mini-domain *)
          end
      | _, _ => Err TypeErr
      end
  end.

Fixpoint str_ltb (a b : string) : bool :=
  match a, b with
  | EmptyString, EmptyString => false
  | EmptyString, String _ _ => true
  | String _ _, EmptyString => false
  | String x r1, String y r2 =>
      if Nat.ltb (nat_of_ascii x) (nat_of_ascii y) then true
      else if Nat.ltb (nat_of_ascii y) (nat_of_ascii x) then false
      else str_ltb r1 r2
  end.

Fixpoint is_prefix (p s : string) : bool :=
  match p, s with
  | EmptyString, _ => true
  | String a r1, String b r2 => Ascii.eqb a b && is_prefix r1 r2
  | String _ _, EmptyString => false
  end.
Fixpoint is_substring (p s : string) : bool :=
  is_prefix p s || match s with EmptyString => false | String _ r => is_substring p r end.

(** [<] on two values; [None] = TypeError *)
Fixpoint val_ltb (fuel : nat) (a b : val) : option bool :=
  match fuel with
  | O => None
  | S f =>
      let fix lex (l1 l2 : list val) : option bool :=
        match l1, l2 with
        | [], [] => Some false
        | [], _ :: _ => Some true
        | _ :: _, [] => Some false
        | x :: r1, y :: r2 => if val_eqb x y then lex r1 r2 else val_ltb f x y
        end in
      match a, b with
      | VStr x, VStr y => Some (str_ltb x y)
      | VList x, VList y => lex x y
      | VTuple x, VTuple y => lex x y
      | _, _ => match as_int a, as_int b with Some x, Some y => Some (Z.ltb x y) | _, _ => None end
      end
  end.

Definition is_identical (a b : val) : bool :=
  match a, b with
  | VNone, VNone => true
  | VBool x, VBool y => Bool.eqb x y
  | VNone, _ | _, VNone | VBool _, _ | _, VBool _ => false
  | _, _ => val_eqb a b       (* identity of other objects: only generated where it coincides with equality *)
  end.

Definition py_contains (x c : val) : res bool :=
  match c with
  | VList l | VTuple l => Ok (existsb (val_eqb x) l)
  | VDict kv => Ok (existsb (fun p => val_eqb x (fst p)) kv)
  | VStr s => match x with VStr p => Ok (is_substring p s) | _ => Err TypeErr end
  | _ => Err TypeErr
  end.

Fixpoint field_get (f : list (string * val)) (a : string) : option val :=
  match f with [] => None | (k, v) :: r => if String.eqb k a then Some v else field_get r a end.

(** records order themselves by their [size] field and answer with 0 / 1 instead of False / True
    (a comparison whose result is falsy without being [False]) *)
Definition rec_size (v : val) : option Z :=
  match v with
  | VRec _ f => match field_get f "size" with Some x => as_int x | None => None end
  | _ => None
  end.

Definition py_cmp (op : cop) (a b : val) : res val :=
  let lt x y := match val_ltb 50 x y with Some r => Ok r | None => Err TypeErr end in
  let as01 (c : bool) : res val := Ok (VInt (if c then 1 else 0)) in
  match rec_size a, rec_size b, op with
  | Some x, Some y, CLt => as01 (Z.ltb x y)
  | Some x, Some y, CLe => as01 (Z.leb x y)
  | Some x, Some y, CGt => as01 (Z.ltb y x)
  | Some x, Some y, CGe => as01 (Z.leb y x)
  | _, _, _ =>
  match op with
  | CEq => Ok (VBool (val_eqb a b))
  | CNe => Ok (VBool (negb (val_eqb a b)))
  | CLt => match lt a b with Ok r => Ok (VBool r) | Err e => Err e end
  | CGt => match lt b a with Ok r => Ok (VBool r) | Err e => Err e end
  | CLe => match lt b a with Ok r => Ok (VBool (negb r)) | Err e => Err e end
  | CGe => match lt a b with Ok r => Ok (VBool (negb r)) | Err e => Err e end
  | CIs => Ok (VBool (is_identical a b))
  | CIsNot => Ok (VBool (negb (is_identical a b)))
  | CIn => match py_contains a b with Ok r => Ok (VBool r) | Err e => Err e end
  | CNotIn => match py_contains a b with Ok r => Ok (VBool (negb r)) | Err e => Err e end
  end
  end.

Definition py_getattr (v : val) (a : string) : res val :=
  match v with
  | VRec _ f => match field_get f a with Some x => Ok x | None => Err AttrErr end
  | _ => Err AttrErr
  end.

Definition chars (s : string) : list val := map (fun c => VStr (String c EmptyString)) (list_ascii_of_string s).

Definition norm_index (i len : Z) : option nat :=
  let j := if Z.ltb i 0 then i + len else i in
  if Z.ltb j 0 || Z.leb len j then None else Some (Z.to_nat j).

Definition slice_bounds (lo hi : val) (len : Z) : option (nat * nat) :=
  let clamp (v : val) (dflt : Z) : option Z :=
    match v with
    | VNone => Some dflt
    | _ => match as_int v with
           | Some i => let j := if Z.ltb i 0 then i + len else i in Some (Z.max 0 (Z.min len j))
           | None => None
           end
    end in
  match clamp lo 0, clamp hi len with
  | Some a, Some b => Some (Z.to_nat a, Z.to_nat (Z.max a b))
  | _, _ => None
  end.

Definition sub_list {A} (l : list A) (a b : nat) : list A := firstn (b - a) (skipn a l).

Fixpoint kv_get (kv : list (val * val)) (k : val) : option val :=
  match kv with [] => None | (k', v) :: r => if val_eqb k' k then Some v else kv_get r k end.

Definition hashable (v : val) : bool :=
  match v with VList _ | VDict _ | VSlice _ _ | VGen _ => false | _ => true end.

Definition py_getitem (c k : val) : res val :=
  let seq (l : list val) (wrap : list val -> val) : res val :=
    match k with
    | VSlice lo hi =>
        match slice_bounds lo hi (Z.of_nat (List.length l)) with
        | Some (a, b) => Ok (wrap (sub_list l a b))
        | None => Err TypeErr
        end
    | _ => match as_int k with
           | Some i => match norm_index i (Z.of_nat (List.length l)) with
                       | Some n => match nth_error l n with Some x => Ok x | None => Err IndexErr end
                       | None => Err IndexErr
                       end
           | None => Err TypeErr
           end
    end in
  match c with
  | VList l => seq l VList
  | VTuple l => seq l VTuple
  | VStr s => seq (chars s) (fun l => VStr (String.concat "" (map (fun v => match v with VStr x => x | _ => "" end) l)))
  | VDict kv => if hashable k then match kv_get kv k with Some v => Ok v | None => Err KeyErr end else Err TypeErr
  | _ => Err TypeErr
  end.

Definition py_iter (v : val) : res (list (val + err)) :=
  match v with
  | VList l | VTuple l => Ok (map inl l)
  | VStr s => Ok (map inl (chars s))
  | VDict kv => Ok (map (fun p => inl (fst p)) kv)
  | VGen items => Ok items
  | _ => Err TypeErr
  end.

Fixpoint kv_set (kv : list (val * val)) (k v : val) : list (val * val) :=
  match kv with
  | [] => [(k, v)]
  | (k', w) :: r => if val_eqb k' k then (k', v) :: r else (k', w) :: kv_set r k v
  end.

Definition py_mkdict (kvs : list (val * val)) : res val :=
  if forallb (fun p => hashable (fst p)) kvs
  then Ok (VDict (fold_left (fun d p => kv_set d (fst p) (snd p)) kvs []))
  else Err TypeErr.

Definition py_kwunpack (v : val) : res (list (string * val)) :=
  match v with
  | VDict kv =>
      if forallb (fun p => match fst p with VStr _ => true | _ => false end) kv
      then Ok (map (fun p => (match fst p with VStr s => s | _ => "" end, snd p)) kv)
      else Err TypeErr
  | _ => Err TypeErr
  end.

Definition py_items (v : val) : res (list (val * val)) :=
  match v with VDict kv => Ok kv | _ => Err TypeErr end.

(** repr / str *)
Definition z_to_string (z : Z) : string := NilZero.string_of_int (Z.to_int z).

Fixpoint join (sep : string) (l : list string) : string :=
  match l with [] => "" | [x] => x | x :: r => x +++ sep +++ join sep r end.

Fixpoint py_repr (fuel : nat) (v : val) : string :=
  match fuel with
  | O => "..."
  | S f =>
      match v with
      | VNone => "None"
      | VBool true => "True"
      | VBool false => "False"
      | VInt z => z_to_string z
      | VStr s => "'" +++ s +++ "'"
      | VList l => "[" +++ join ", " (map (py_repr f) l) +++ "]"
      | VTuple [x] => "(" +++ py_repr f x +++ ",)"
      | VTuple l => "(" +++ join ", " (map (py_repr f) l) +++ ")"
      | VDict kv => "{" +++ join ", " (map (fun p => py_repr f (fst p) +++ ": " +++ py_repr f (snd p)) kv) +++ "}"
      | VRec t _ => "Rec(" +++ z_to_string t +++ ")"
      | VFun n => "<function " +++ n +++ ">"
      | VSlice a b => "slice(" +++ py_repr f a +++ ", " +++ py_repr f b +++ ", None)"
      | VGen _ => "<generator>"
      | VAllFail _ _ => "<FirstExceptionInAll>"
      end
  end.

Definition py_str (v : val) : string := match v with VStr s => s | _ => py_repr 50 v end.

Definition py_format (cv : conv) (v : val) : res string :=
  match v with
  | VFun _ | VGen _ | VSlice _ _ => Err Unsupported
  | _ => Ok (match cv with ConvNone | ConvS => py_str v | ConvR | ConvA => py_repr 50 v end)
  end.

(** builtins and module-level functions *)
Definition builtin_names : list string :=
  ["len"; "abs"; "all"; "any"; "max"; "min"; "sum"; "sorted"; "bool"; "int"; "str"; "list"; "tuple"; "repr"].
Definition py_builtin (n : string) : option val :=
  if existsb (String.eqb n) builtin_names then Some (VFun n) else None.

Definition iter_force (v : val) : res (list val) :=
  match py_iter v with Ok items => force items | Err e => Err e end.

Fixpoint all_lazy (items : list (val + err)) : res bool :=
  match items with
  | [] => Ok true
  | inr e :: _ => Err e
  | inl v :: r => if truth_of v then all_lazy r else Ok false
  end.
Fixpoint any_lazy (items : list (val + err)) : res bool :=
  match items with
  | [] => Ok false
  | inr e :: _ => Err e
  | inl v :: r => if truth_of v then Ok true else any_lazy r
  end.

Fixpoint extremum (want_max : bool) (cur : val) (l : list val) : res val :=
  match l with
  | [] => Ok cur
  | x :: r =>
      match (if want_max then val_ltb 50 cur x else val_ltb 50 x cur) with
      | Some true => extremum want_max x r
      | Some false => extremum want_max cur r
      | None => Err TypeErr
      end
  end.

Fixpoint insert_sorted (x : val) (l : list val) : res (list val) :=
  match l with
  | [] => Ok [x]
  | y :: r => match val_ltb 50 x y with
              | Some true => Ok (x :: y :: r)
              | Some false => match insert_sorted x r with Ok r' => Ok (y :: r') | Err e => Err e end
              | None => Err TypeErr
              end
  end.
Fixpoint sort_vals (l : list val) : res (list val) :=
  match l with
  | [] => Ok []
  | x :: r => match sort_vals r with Ok s => insert_sorted x s | Err e => Err e end
  end.

Fixpoint sum_ints (acc : Z) (l : list val) : res val :=
  match l with
  | [] => Ok (VInt acc)
  | x :: r => match as_int x with Some z => sum_ints (acc + z) r | None => Err TypeErr end
  end.

Definition kw_get (kw : list (string * val)) (n : string) : option val := field_get kw n.
Definition only_kws (kw : list (string * val)) (allowed : list string) : bool :=
  forallb (fun p => existsb (String.eqb (fst p)) allowed) kw.

Definition call_len (args : list val) (kw : list (string * val)) : res val :=
      match args, kw with
      | [VGen _], [] => Err TypeErr
      | [VStr s], [] => Ok (VInt (Z.of_nat (String.length s)))
      | [VDict kv], [] => Ok (VInt (Z.of_nat (List.length kv)))
      | [VList l], [] | [VTuple l], [] => Ok (VInt (Z.of_nat (List.length l)))
      | _, _ => Err TypeErr
      end.

Definition call_abs (args : list val) (kw : list (string * val)) : res val :=
      match args, kw with
      | [x], [] => match as_int x with Some z => Ok (VInt (Z.abs z)) | None => Err TypeErr end
      | _, _ => Err TypeErr
      end.

Definition call_all (args : list val) (kw : list (string * val)) : res val :=
      match args, kw with
      | [x], [] => match py_iter x with Ok items => match all_lazy items with Ok b => Ok (VBool b) | Err e => Err e end | Err e => Err e end
      | _, _ => Err TypeErr
      end.

Definition call_any (args : list val) (kw : list (string * val)) : res val :=
      match args, kw with
      | [x], [] => match py_iter x with Ok items => match any_lazy items with Ok b => Ok (VBool b) | Err e => Err e end | Err e => Err e end
      | _, _ => Err TypeErr
      end.

Definition call_maxmin (want_max : bool) (args : list val) (kw : list (string * val)) : res val :=
      
      if negb (only_kws kw ["default"]) then Err TypeErr else
      match args with
      | [x] =>
          match iter_force x with
          | Ok [] => match kw_get kw "default" with Some d => Ok d | None => Err ValueErr end
          | Ok (y :: r) => extremum want_max y r
          | Err e => Err e
          end
      | y :: r => match kw with [] => extremum want_max y r | _ => Err TypeErr end
      | [] => Err TypeErr
      end.

Definition call_sum (args : list val) (kw : list (string * val)) : res val :=
      match args, kw with
      | [x], [] => match iter_force x with Ok l => sum_ints 0 l | Err e => Err e end
      | [x; s], [] => match as_int s, iter_force x with
                      | Some z, Ok l => sum_ints z l
                      | _, Err e => Err e
                      | None, _ => Err TypeErr
                      end
      | _, _ => Err TypeErr
      end.

Definition call_sorted (args : list val) (kw : list (string * val)) : res val :=
      if negb (only_kws kw ["reverse"]) then Err TypeErr else
      match args with
      | [x] => match iter_force x with
               | Ok l => match sort_vals l with
                         | Ok s => Ok (VList (match kw_get kw "reverse" with
                                              | Some r => if truth_of r then List.rev s else s
                                              | None => s end))
                         | Err e => Err e
                         end
               | Err e => Err e
               end
      | _ => Err TypeErr
      end.

Definition call_bool (args : list val) (kw : list (string * val)) : res val :=
      match args, kw with
      | [], [] => Ok (VBool false)
      | [x], [] => Ok (VBool (truth_of x))
      | _, _ => Err TypeErr
      end.

Definition call_int (args : list val) (kw : list (string * val)) : res val :=
      match args, kw with
      | [], [] => Ok (VInt 0)
      | [x], [] => match as_int x with Some z => Ok (VInt z) | None => Err TypeErr end
      | _, _ => Err TypeErr
      end.

Definition call_str (args : list val) (kw : list (string * val)) : res val :=
      match args, kw with
      | [], [] => Ok (VStr "")
      | [x], [] => match py_format ConvS x with Ok s => Ok (VStr s) | Err e => Err e end
      | _, _ => Err TypeErr
      end.

Definition call_repr (args : list val) (kw : list (string * val)) : res val :=
      match args, kw with
      | [x], [] => match py_format ConvR x with Ok s => Ok (VStr s) | Err e => Err e end
      | _, _ => Err TypeErr
      end.

Definition call_list (args : list val) (kw : list (string * val)) : res val :=
      match args, kw with
      | [], [] => Ok (VList [])
      | [x], [] => match iter_force x with Ok l => Ok (VList l) | Err e => Err e end
      | _, _ => Err TypeErr
      end.

Definition call_tuple (args : list val) (kw : list (string * val)) : res val :=
      match args, kw with
      | [], [] => Ok (VTuple [])
      | [x], [] => match iter_force x with Ok l => Ok (VTuple l) | Err e => Err e end
      | _, _ => Err TypeErr
      end.

Definition call_inv (args : list val) (kw : list (string * val)) : res val :=        (* def inv(n): return 100 // n *)
      match args, kw with
      | [x], [] => py_binop BFloorDiv (VInt 100) x
      | [], [("n", x)] => py_binop BFloorDiv (VInt 100) x
      | _, _ => Err TypeErr
      end.

Definition call_first (args : list val) (kw : list (string * val)) : res val :=      (* def first(xs): return xs[0] *)
      match args, kw with
      | [x], [] => py_getitem x (VInt 0)
      | [], [("xs", x)] => py_getitem x (VInt 0)
      | _, _ => Err TypeErr
      end.

Definition call_clamp (args : list val) (kw : list (string * val)) : res val :=      (* def clamp(x, lo=0, hi=10): return max(lo, min(x, hi)) *)
      if negb (only_kws kw ["x"; "lo"; "hi"]) then Err TypeErr else
      let pos (i : nat) (n : string) (d : option val) : res val :=
        match nth_error args i, kw_get kw n with
        | Some _, Some _ => Err TypeErr
        | Some v, None => Ok v
        | None, Some v => Ok v
        | None, None => match d with Some v => Ok v | None => Err TypeErr end
        end in
      if Nat.ltb 3 (List.length args) then Err TypeErr else
      match pos 0%nat "x" None, pos 1%nat "lo" (Some (VInt 0)), pos 2%nat "hi" (Some (VInt 10)) with
      | Ok x, Ok lo, Ok hi =>
          match extremum false x [hi] with
          | Ok m => extremum true lo [m]
          | Err e => Err e
          end
      | Err e, _, _ | _, Err e, _ | _, _, Err e => Err e
      end.

Definition call_pick (args : list val) (kw : list (string * val)) : res val :=       (* pick takes star-args and star-star-kw and returns (len(args), sorted(kw)) *)
      match sort_vals (map (fun p => VStr (fst p)) kw) with
      | Ok names => Ok (VTuple [VInt (Z.of_nat (List.length args)); VList names])
      | Err e => Err e
      end.

Definition call_table : list (string * (list val -> list (string * val) -> res val)) :=
  [("len", call_len);
   ("abs", call_abs);
   ("all", call_all);
   ("any", call_any);
   ("max", call_maxmin true);
   ("min", call_maxmin false);
   ("sum", call_sum);
   ("sorted", call_sorted);
   ("bool", call_bool);
   ("int", call_int);
   ("str", call_str);
   ("repr", call_repr);
   ("list", call_list);
   ("tuple", call_tuple);
   ("inv", call_inv);
   ("first", call_first);
   ("clamp", call_clamp);
   ("pick", call_pick)].

Fixpoint find_fun (t : list (string * (list val -> list (string * val) -> res val))) (n : string) :=
  match t with [] => None | (k, f) :: r => if String.eqb k n then Some f else find_fun r n end.

Definition py_call (f : val) (args : list val) (kw : list (string * val)) : res val :=
  match f with
  | VFun n => match find_fun call_table n with Some g => g args kw | None => Err TypeErr end
  | _ => Err TypeErr
  end.

Definition py_callable (v : val) : bool := match v with VFun _ => true | _ => false end.
Definition py_is_all (v : val) : bool := match v with VFun n => String.eqb n "all" | _ => false end.

Definition py_prims : prims := {|
  p_unop := py_unop; p_binop := py_binop; p_cmp := py_cmp; p_truth := py_truth;
  p_getattr := py_getattr; p_getitem := py_getitem; p_call := py_call; p_iter := py_iter;
  p_format := py_format; p_mkdict := py_mkdict; p_kwunpack := py_kwunpack; p_items := py_items; p_same_key := val_eqb;
  p_callable := py_callable; p_is_all := py_is_all; p_builtin := py_builtin |}.

(** what [icontract._represent._representable] lets through in this domain *)
Definition representable (v : val) : bool := match v with VFun _ => false | _ => true end.
