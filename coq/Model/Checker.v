(** * Checker: one call through the contract checker (and the invariant wrappers around it).

    Mirrors [icontract._checkers]: [decorate_with_checker.wrapper] (sync and async),
    [_assert_preconditions(_async)], [_capture_old(_async)], [_assert_postconditions(_async)],
    [_create_violation_error], [_assert_invariant], [_decorate_with_invariants.wrapper].
    The in-progress marker (re-entrancy) is the subject of Model/Run.v; here a call is the
    outermost one of its function/instance.

    User code is an oracle [user]; argument and result objects are opaque ([pv]); the mutable
    state of the objects is a [store] that only the body changes. *)
From ICV Require Import Base Bind.
Open Scope string_scope.
Open Scope list_scope.

Inductive mode := Sync | Async.

(** How a condition/capture is written: plain function, coroutine function ([async def]),
    or plain function returning an awaitable. *)
Inductive ckind := CKPlain | CKCoroFn | CKAwaitable.

Definition store := list (Z * Z).

(** What a condition does when evaluated (after awaiting, where applicable). *)
Inductive cond_result :=
| CRet (truth : bool)        (* returns an object with this truth value *)
| CRaise (e : Z)             (* raises exception object e *)
| CBoolRaise (e : Z).        (* returns an object whose truth test raises e *)

Inductive error_form :=
| ENone                      (* default: ViolationError with the generated message *)
| EClass (k : Z)             (* exception class k, instantiated with the message *)
| EInstance (t : Z)          (* exception instance t, raised as is *)
| EFactory (eargs emand : list string).   (* function/method called with the values it names; [emand]: its
                                             parameters without a default value *)

Inductive err_result := ERetExn (t : Z) | ERetOther | ERaise (e : Z).
Inductive cap_result := CapRet (v : pv) | CapRaise (e : Z).
Inductive body_result := BRet (v : pv) | BRaise (e : Z).

Record contract := {
  cid : Z;
  cargs : list string;        (* all parameter names of the condition *)
  cmandatory : list string;   (* those without default *)
  ckind_ : ckind;
  cerror : error_form;
  clambda : bool }.           (* written as a lambda: re-evaluated once when building the message *)

Record snapshot := {
  sid : Z;
  sname : string;
  sargs : list string;
  skind : ckind }.

Record user := {
  u_cond : Z -> dict -> store -> cond_result;
  u_capture : Z -> dict -> store -> cap_result;
  u_error : Z -> dict -> err_result;
  u_body : list pv -> dict -> store -> body_result * store }.

Inductive role := RPre | RPost | RInv.
Definition role_eqb (a b : role) : bool :=
  match a, b with RPre, RPre | RPost, RPost | RInv, RInv => true | _, _ => false end.

Inductive event :=
| EvCond (r : role) (cid : Z) (kw : dict) (st : store)
| EvCapture (sid : Z) (kw : dict) (st : store)
| EvError (cid : Z) (kw : dict)
| EvBody (env : dict) (st : store).    (* what the body received, per parameter *)

Inductive exn :=
| XViolation (cid : Z)                 (* ViolationError carrying the message of contract cid *)
| XClass (k : Z) (cid : Z)             (* user class k instantiated with the message of cid *)
| XObj (t : Z)                         (* this very exception object *)
| XLib (cls : string) (cause : option Z).   (* raised by the library, optionally chained *)

(** Exception objects raised by user code are identified by a tag; by convention the tag's
    residue mod 8 tells the class: 0 = a subclass of [Exception], anything else = a subclass of
    [BaseException] only (KeyboardInterrupt, GeneratorExit, CancelledError ...).  The library's
    [except Exception] clauses see only the former. *)
Definition exc_is_exception (e : Z) : bool := Z.eqb (e mod 8) 0.

Definition bool_raise (e : Z) : exn :=
  if exc_is_exception e then XLib "ValueError" (Some e) else XObj e.

(** ** State-writer-error monad. *)
Definition M (A : Type) := store -> (list event * (A + exn) * store)%type.
Definition ret {A} (a : A) : M A := fun st => ([], inl a, st).
Definition throw {A} (x : exn) : M A := fun st => ([], inr x, st).
Definition emit (e : store -> event) : M unit := fun st => ([e st], inl tt, st).
Definition bindM {A B} (m : M A) (k : A -> M B) : M B :=
  fun st => match m st with
            | (t, inl a, st') => match k a st' with (t', r, st'') => (t ++ t', r, st'') end
            | (t, inr x, st') => (t, inr x, st')
            end.
Notation "x <~ e ;; k" := (bindM e (fun x => k)) (at level 61, e at next level, right associativity).
Notation "e ;;; k" := (bindM e (fun _ => k)) (at level 61, right associativity).

(** ** Selecting the arguments a condition / capture / error factory asks for.
    (clean versions of [select_condition_kwargs], [select_capture_kwargs], [select_error_kwargs]) *)
Definition select (argset mandatory : list string) (resolved : dict) : option dict :=
  if forallb (dict_has resolved) mandatory
  then Some (filter (fun kv => str_in (fst kv) argset) resolved)
  else None.

(** ** Evaluating one condition: returns its truth value. [corofn_first] reproduces the order of
    the two checks in the sync postcondition loop. *)
Definition eval_condition (m : mode) (U : user) (r : role) (corofn_first : bool) (c : contract)
           (resolved : dict) : M bool :=
  let reject_corofn := match m, ckind_ c with Sync, CKCoroFn => true | _, _ => false end in
  if corofn_first && reject_corofn then throw (XLib "ValueError" None) else
  match select (cargs c) (cmandatory c) resolved with
  | None => throw (XLib "TypeError" None)
  | Some kw =>
      if reject_corofn then throw (XLib "ValueError" None) else
      emit (EvCond r (cid c) kw) ;;;
      (fun st =>
         match m, ckind_ c with
         | Sync, CKAwaitable => throw (XLib "ValueError" None) st
         | _, _ =>
             match u_cond U (cid c) kw st with
             | CRet b => ret b st
             | CRaise e => throw (XObj e) st
             | CBoolRaise e => throw (bool_raise e) st
             end
         end)
  end.

(** ** [_create_violation_error] *)
Definition create_violation_error (U : user) (r : role) (c : contract) (resolved : dict) : M exn :=
  let reeval : M unit :=
      (* the violated lambda is re-evaluated to build the message (a parameter the call does not
         provide has a default value - the call would have failed otherwise - and the re-evaluator
         knows the defaults) *)
      if clambda c
      then match select (cargs c) (cmandatory c) resolved with
           | Some kw => emit (EvCond r (cid c) kw)
           | None => ret tt
           end
      else ret tt in
  match cerror c with
  | ENone => reeval ;;; ret (XViolation (cid c))
  | EClass k => reeval ;;; ret (XClass k (cid c))
  | EInstance t => ret (XObj t)
  | EFactory eargs emand =>
      match select eargs emand resolved with
      | None => throw (XLib "TypeError" None)
      | Some kw =>
          emit (fun _ => EvError (cid c) kw) ;;;
          match u_error U (cid c) kw with
          | ERetExn t => ret (XObj t)
          | ERetOther => throw (XLib "TypeError" None)
          | ERaise e => throw (XObj e)
          end
      end
  end.

(** ** [_assert_preconditions]: groups are alternatives, a group is a conjunction. *)
Fixpoint eval_group (m : mode) (U : user) (g : list contract) (resolved : dict) : M (option exn) :=
  match g with
  | [] => ret None
  | c :: rest =>
      b <~ eval_condition m U RPre false c resolved ;;
      if b then eval_group m U rest resolved
      else x <~ create_violation_error U RPre c resolved ;; ret (Some x)
  end.

Fixpoint eval_groups (m : mode) (U : user) (gs : list (list contract)) (resolved : dict) : M (option exn) :=
  match gs with
  | [] => ret None
  | g :: rest =>
      v <~ eval_group m U g resolved ;;
      match v with
      | None => ret None
      | Some x => match rest with [] => ret (Some x) | _ :: _ => eval_groups m U rest resolved end
      end
  end.

(** ** [_capture_old] *)
Definition capture_one (m : mode) (U : user) (s : snapshot) (resolved : dict) : M pv :=
  let reject_corofn := match m, skind s with Sync, CKCoroFn => true | _, _ => false end in
  if reject_corofn then throw (XLib "ValueError" None) else
  match select (sargs s) (sargs s) resolved with
  | None => throw (XLib "TypeError" None)
  | Some kw =>
      emit (EvCapture (sid s) kw) ;;;
      (fun st =>
         match m, skind s with
         | Sync, CKAwaitable => throw (XLib "ValueError" None) st
         | _, _ =>
             match u_capture U (sid s) kw st with
             | CapRet v => ret v st
             | CapRaise e => throw (XObj e) st
             end
         end)
  end.

Fixpoint capture_old (m : mode) (U : user) (snaps : list snapshot) (resolved : dict) (old : dict) : M dict :=
  match snaps with
  | [] => ret old
  | s :: rest =>
      v <~ capture_one m U s resolved ;;
      capture_old m U rest resolved (dict_set old (sname s) v)
  end.

(** ** [_assert_postconditions] *)
Fixpoint eval_posts (m : mode) (U : user) (posts : list contract) (resolved : dict) : M (option exn) :=
  match posts with
  | [] => ret None
  | c :: rest =>
      b <~ eval_condition m U RPost true c resolved ;;
      if b then eval_posts m U rest resolved
      else x <~ create_violation_error U RPost c resolved ;; ret (Some x)
  end.

(** The call of the decorated function itself: CPython binds the arguments (TypeError if it
    cannot), then the body runs. *)
Definition run_body (U : user) (s : sig) (args : list pv) (kwargs : dict) : M pv :=
  fun st =>
    match pybind s args kwargs with
    | None => ([], inr (XLib "TypeError" None), st)
    | Some env =>
        match u_body U args kwargs st with
        | (BRet v, st') => ([EvBody env st], inl v, st')
        | (BRaise e, st') => ([EvBody env st], inr (XObj e), st')
        end
    end.

Definition is_nil {A} (l : list A) : bool := match l with [] => true | _ => false end.

(** ** The checker wrapper. [s] is the signature of the decorated function
    ([decorate_with_checker] reads parameter names and defaults off it). *)
Definition checker_call (m : mode) (U : user) (s : sig)
           (pre : list (list contract)) (snaps : list snapshot) (post : list contract)
           (args : list pv) (kwargs : dict) : M pv :=
  if dict_has kwargs "_ARGS" || dict_has kwargs "_KWARGS" then throw (XLib "TypeError" None) else
  let resolved := resolve_sig s args kwargs in
  if negb (is_nil post) && (dict_has resolved "result" || dict_has resolved "OLD")
  then throw (XLib "TypeError" None) else
  v <~ eval_groups m U pre resolved ;;
  match v with
  | Some x => throw x
  | None =>
      resolved1 <~ (if negb (is_nil post) && negb (is_nil snaps)
                    then old <~ capture_old m U snaps resolved [] ;;
                         ret (dict_set resolved "OLD" (PDict old))
                    else ret resolved) ;;
      result <~ run_body U s args kwargs ;;
      if is_nil post then ret result
      else
        w <~ eval_posts m U post (dict_set resolved1 "result" result) ;;
        match w with
        | Some x => throw x
        | None => ret result
        end
  end.

(** ** Invariants: [_assert_invariant] over a list, and the two wrappers. *)
Definition inv_kwargs (c : contract) (self : pv) : dict :=
  if str_in "self" (cargs c) then [("self", self)] else [].

Definition eval_invariant (U : user) (c : contract) (self : pv) : M bool :=
  emit (EvCond RInv (cid c) (inv_kwargs c self)) ;;;
  (fun st =>
     match u_cond U (cid c) (inv_kwargs c self) st with
     | CRaise e => throw (XObj e) st
     | CBoolRaise e => throw (bool_raise e) st
     | CRet b => ret b st
     end).

Fixpoint check_invariants (U : user) (invs : list contract) (self : pv) : M unit :=
  match invs with
  | [] => ret tt
  | c :: rest =>
      b <~ eval_invariant U c self ;;
      if b then check_invariants U rest self
      else x <~ create_violation_error U RInv c [("self", self)] ;; throw x
  end.

(** public method / property accessor / dunder: invariants before and after *)
Definition method_call (U : user) (invs : list contract) (self : pv) (inner : M pv) : M pv :=
  check_invariants U invs self ;;;
  result <~ inner ;;
  check_invariants U invs self ;;;
  ret result.

(** [__init__] (and the [__new__] variant): all invariants after the body only *)
Definition init_call (U : user) (invs : list contract) (self : pv) (inner : M pv) : M pv :=
  result <~ inner ;;
  check_invariants U invs self ;;;
  ret result.

Definition run_M {A} (m : M A) (st : store) : list event * (A + exn) :=
  match m st with (t, r, _) => (t, r) end.
