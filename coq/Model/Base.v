(** * Base: universal Python values, the error monad and the small library of
    Python operations that the generated leaf functions ([Gen/Generated.v]) and the
    hand-written models use.  No proofs about the library's code live here. *)
From Coq Require Export List String ZArith Bool Arith Lia.
Export ListNotations.
Open Scope string_scope.
Open Scope list_scope.

(** ** Python values.  User objects are opaque identity tags ([PObj]). *)
Inductive pv : Type :=
| PNone
| PBool (b : bool)
| PInt (z : Z)
| PStr (s : string)
| PTuple (l : list pv)
| PList (l : list pv)
| PDict (d : list (string * pv))   (* insertion-ordered, string keys (kwargs, namespaces, records) *)
| PObj (tag : Z)
| PExn (cls : string).               (* an exception instance created by the library *)

(** ** Result of a leaf function: a value or the class name of the exception raised. *)
Inductive res (A : Type) : Type :=
| Ok (a : A)
| Err (e : string).
Arguments Ok {A} a.
Arguments Err {A} e.

Definition bind {A B} (r : res A) (k : A -> res B) : res B :=
  match r with Ok a => k a | Err e => Err e end.
Notation "x <- e ;; k" := (bind e (fun x => k)) (at level 61, e at next level, right associativity).

Fixpoint fold_res {S X : Type} (f : S -> X -> res S) (l : list X) (s : S) : res S :=
  match l with
  | [] => Ok s
  | x :: r => match f s x with Ok s' => fold_res f r s' | Err e => Err e end
  end.

(** ** Equality on values (structural; identity for [PObj]). *)
Fixpoint pv_eqb (a b : pv) {struct a} : bool :=
  let fix list_eqb (l1 l2 : list pv) {struct l1} : bool :=
      match l1, l2 with
      | [], [] => true
      | x :: r1, y :: r2 => pv_eqb x y && list_eqb r1 r2
      | _, _ => false
      end in
  let fix dict_eqb (l1 l2 : list (string * pv)) {struct l1} : bool :=
      match l1, l2 with
      | [], [] => true
      | (k1, x) :: r1, (k2, y) :: r2 => String.eqb k1 k2 && pv_eqb x y && dict_eqb r1 r2
      | _, _ => false
      end in
  match a, b with
  | PNone, PNone => true
  | PBool x, PBool y => Bool.eqb x y
  | PInt x, PInt y => Z.eqb x y
  | PStr x, PStr y => String.eqb x y
  | PTuple x, PTuple y => list_eqb x y
  | PList x, PList y => list_eqb x y
  | PDict x, PDict y => dict_eqb x y
  | PObj x, PObj y => Z.eqb x y
  | PExn x, PExn y => String.eqb x y
  | _, _ => false
  end.

(** ** Association lists keyed by strings (Python dicts with string keys). *)
Definition dict := list (string * pv).

Fixpoint dict_get (d : dict) (k : string) : option pv :=
  match d with
  | [] => None
  | (k', v) :: r => if String.eqb k' k then Some v else dict_get r k
  end.

Definition dict_has (d : dict) (k : string) : bool :=
  match dict_get d k with Some _ => true | None => false end.

(** [d[k] = v]: an existing key keeps its position, a new key goes last (CPython >= 3.7). *)
Fixpoint dict_set (d : dict) (k : string) (v : pv) : dict :=
  match d with
  | [] => [(k, v)]
  | (k', v') :: r => if String.eqb k' k then (k', v) :: r else (k', v') :: dict_set r k v
  end.

Definition dict_keys (d : dict) : list string := map fst d.

Fixpoint str_in (s : string) (l : list string) : bool :=
  match l with [] => false | x :: r => String.eqb x s || str_in s r end.

(** ** The operations the translator emits (total; ill-typed uses give [PNone]/[false];
    the translator's self-test runs every generated function against its Python original). *)
Definition py_truth (v : pv) : bool :=
  match v with
  | PNone => false
  | PBool b => b
  | PInt z => negb (Z.eqb z 0)
  | PStr s => negb (String.eqb s "")
  | PTuple l | PList l => match l with [] => false | _ => true end
  | PDict d => match d with [] => false | _ => true end
  | PObj _ => true
  | PExn _ => true
  end.

Definition py_len (v : pv) : pv :=
  match v with
  | PTuple l | PList l => PInt (Z.of_nat (List.length l))
  | PDict d => PInt (Z.of_nat (List.length d))
  | PStr s => PInt (Z.of_nat (String.length s))
  | _ => PNone
  end.

Definition py_lt (a b : pv) : pv :=
  match a, b with PInt x, PInt y => PBool (Z.ltb x y) | _, _ => PNone end.

Definition py_eq (a b : pv) : pv := PBool (pv_eqb a b).
Definition py_ne (a b : pv) : pv := PBool (negb (pv_eqb a b)).
Definition py_not (a : pv) : pv := PBool (negb (py_truth a)).
Definition py_is_none (a : pv) : pv := match a with PNone => PBool true | _ => PBool false end.
Definition py_is_not_none (a : pv) : pv := match a with PNone => PBool false | _ => PBool true end.

Fixpoint pv_in (x : pv) (l : list pv) : bool :=
  match l with [] => false | y :: r => pv_eqb y x || pv_in x r end.

(** [x in c] for lists, tuples, sets (modelled as lists) and dicts (keys). *)
Definition py_in (x c : pv) : pv :=
  match c with
  | PTuple l | PList l => PBool (pv_in x l)
  | PDict d => match x with PStr s => PBool (dict_has d s) | _ => PBool false end
  | _ => PNone
  end.
Definition py_not_in (x c : pv) : pv := py_not (py_in x c).

Definition py_getitem (c k : pv) : pv :=
  match c, k with
  | PTuple l, PInt i | PList l, PInt i =>
      if Z.ltb i 0 then PNone else nth (Z.to_nat i) l PNone
  | PDict d, PStr s => match dict_get d s with Some v => v | None => PNone end
  | _, _ => PNone
  end.

Definition py_setitem (c k v : pv) : pv :=
  match c, k with
  | PDict d, PStr s => PDict (dict_set d s v)
  | _, _ => PNone
  end.

(** Iteration: the list of elements a [for] loop sees. *)
Definition py_iter (c : pv) : list pv :=
  match c with
  | PTuple l | PList l => l
  | PDict d => map (fun kv => PStr (fst kv)) d
  | _ => []
  end.

Definition py_items (c : pv) : pv :=
  match c with
  | PDict d => PList (map (fun kv => PTuple [PStr (fst kv); snd kv]) d)
  | _ => PNone
  end.

Fixpoint enumerate_from (i : Z) (l : list pv) : list pv :=
  match l with [] => [] | x :: r => PTuple [PInt i; x] :: enumerate_from (i + 1) r end.
Definition py_enumerate (c : pv) : pv := PList (enumerate_from 0 (py_iter c)).

Definition py_add (a b : pv) : pv :=
  match a, b with
  | PList x, PList y => PList (x ++ y)
  | PTuple x, PTuple y => PTuple (x ++ y)
  | PInt x, PInt y => PInt (x + y)
  | _, _ => PNone
  end.

Definition py_append (l x : pv) : pv :=
  match l with PList xs => PList (xs ++ [x]) | _ => PNone end.
Definition py_extend (l ys : pv) : pv :=
  match l with PList xs => PList (xs ++ py_iter ys) | _ => PNone end.
(** [s.add(x)] on a set modelled as a duplicate-free list. *)
Definition py_set_add (s x : pv) : pv :=
  match s with PList xs => if pv_in x xs then s else PList (xs ++ [x]) | _ => PNone end.

(** Attribute access on records (objects modelled as dicts of their attributes). *)
Definition py_attr (o : pv) (a : string) : pv := py_getitem o (PStr a).
Definition py_hasattr (o : pv) (a : string) : pv :=
  match o with PDict d => PBool (dict_has d a) | _ => PBool false end.

Definition py_and (a : pv) (b : pv) : pv := if py_truth a then b else a.
Definition py_or (a : pv) (b : pv) : pv := if py_truth a then a else b.

(** Monadic list comprehension helpers. *)
Definition filter_map_pv (f : pv -> option pv) (l : list pv) : list pv :=
  fold_right (fun x acc => match f x with Some y => y :: acc | None => acc end) [] l.

Definition py_dict_of_pairs (l : list pv) : pv :=
  PDict (fold_left (fun d kv =>
                      match kv with
                      | PTuple [PStr k; v] => dict_set d k v
                      | _ => d
                      end) l []).
