(** * Message: which re-computed values are shown ([icontract._represent.Visitor]), the argument
    lines, sorting and assembly ([repr_values], [generate_message]). *)
From Coq Require Import List String ZArith Bool Ascii.
From ICV Require Import Expr PyPrims.
Import ListNotations.
Open Scope string_scope.
Open Scope list_scope.

(** ** Syntactic equality of expressions (constants compared as values) *)
Definition uop_eqb (a b : uop) : bool :=
  match a, b with UNot, UNot | UNeg, UNeg | UPos, UPos | UInv, UInv => true | _, _ => false end.
Definition bop_tag (o : bop) : nat :=
  match o with BAdd => 0 | BSub => 1 | BMul => 2 | BDiv => 3 | BFloorDiv => 4 | BMod => 5 | BPow => 6 | BLShift => 7
             | BRShift => 8 | BOr => 9 | BXor => 10 | BAnd => 11 | BMatMul => 12 end.
Definition cop_tag (o : cop) : nat :=
  match o with CEq => 0 | CNe => 1 | CLt => 2 | CLe => 3 | CGt => 4 | CGe => 5 | CIs => 6 | CIsNot => 7 | CIn => 8 | CNotIn => 9 end.
Definition conv_tag (o : conv) : nat := match o with ConvNone => 0 | ConvS => 1 | ConvR => 2 | ConvA => 3 end.
Definition ckind_tag (o : ckind) : nat := match o with KList => 0 | KGen => 1 | KDict => 2 end.

Fixpoint strs_eqb (a b : list string) : bool :=
  match a, b with
  | [], [] => true
  | x :: r1, y :: r2 => String.eqb x y && strs_eqb r1 r2
  | _, _ => false
  end.

(** constants: same value and same kind (True and 1 are different texts) *)
Definition const_eqb (a b : val) : bool :=
  match a, b with
  | VBool x, VBool y => Bool.eqb x y
  | VBool _, _ | _, VBool _ => false
  | _, _ => val_eqb a b
  end.

Fixpoint expr_eqb (a b : expr) {struct a} : bool :=
  match a, b with
  | EConst x, EConst y => const_eqb x y
  | EName x, EName y => String.eqb x y
  | EAttr e1 x, EAttr e2 y => expr_eqb e1 e2 && String.eqb x y
  | ESub a1 a2, ESub b1 b2 => expr_eqb a1 b1 && expr_eqb a2 b2
  | ESlice a1 a2, ESlice b1 b2 => expr_eqb a1 b1 && expr_eqb a2 b2
  | EOmit, EOmit => true
  | ECall f1 x1 k1, ECall f2 x2 k2 => expr_eqb f1 f2 && exprs_eqb x1 x2 && kwds_eqb k1 k2
  | EStar x, EStar y => expr_eqb x y
  | EUn o1 x, EUn o2 y => uop_eqb o1 o2 && expr_eqb x y
  | EBin o1 a1 a2, EBin o2 b1 b2 => Nat.eqb (bop_tag o1) (bop_tag o2) && expr_eqb a1 b1 && expr_eqb a2 b2
  | EBool x1 es1, EBool x2 es2 => Bool.eqb x1 x2 && exprs_eqb es1 es2
  | ECmp l1 c1, ECmp l2 c2 => expr_eqb l1 l2 && cmps_eqb c1 c2
  | EIf a1 a2 a3, EIf b1 b2 b3 => expr_eqb a1 b1 && expr_eqb a2 b2 && expr_eqb a3 b3
  | ENamed t1 x, ENamed t2 y => String.eqb t1 t2 && expr_eqb x y
  | EFStr p1, EFStr p2 => parts_eqb p1 p2
  | EList x, EList y => exprs_eqb x y
  | ETuple x, ETuple y => exprs_eqb x y
  | EDict x, EDict y => dpairs_eqb x y
  | EComp k1 a1 a2 g1, EComp k2 b1 b2 g2 =>
      Nat.eqb (ckind_tag k1) (ckind_tag k2) && expr_eqb a1 b1 && expr_eqb a2 b2 && gens_eqb g1 g2
  | _, _ => false
  end
with exprs_eqb (a b : exprs) {struct a} : bool :=
  match a, b with
  | ENil, ENil => true
  | ECons x r1, ECons y r2 => expr_eqb x y && exprs_eqb r1 r2
  | _, _ => false
  end
with kwds_eqb (a b : kwds) {struct a} : bool :=
  match a, b with
  | KNil, KNil => true
  | KCons n1 x r1, KCons n2 y r2 =>
      match n1, n2 with Some s1, Some s2 => String.eqb s1 s2 | None, None => true | _, _ => false end
      && expr_eqb x y && kwds_eqb r1 r2
  | _, _ => false
  end
with cmps_eqb (a b : cmps) {struct a} : bool :=
  match a, b with
  | CNil, CNil => true
  | CCons o1 x r1, CCons o2 y r2 => Nat.eqb (cop_tag o1) (cop_tag o2) && expr_eqb x y && cmps_eqb r1 r2
  | _, _ => false
  end
with parts_eqb (a b : parts) {struct a} : bool :=
  match a, b with
  | PNil, PNil => true
  | PLit s1 r1, PLit s2 r2 => String.eqb s1 s2 && parts_eqb r1 r2
  | PFmt x c1 r1, PFmt y c2 r2 => expr_eqb x y && Nat.eqb (conv_tag c1) (conv_tag c2) && parts_eqb r1 r2
  | _, _ => false
  end
with dpairs_eqb (a b : dpairs) {struct a} : bool :=
  match a, b with
  | DNil, DNil => true
  | DCons k1 v1 r1, DCons k2 v2 r2 => expr_eqb k1 k2 && expr_eqb v1 v2 && dpairs_eqb r1 r2
  | _, _ => false
  end
with gens_eqb (a b : gens) {struct a} : bool :=
  match a, b with
  | GNil, GNil => true
  | GCons n1 t1 i1 f1 r1, GCons n2 t2 i2 f2 r2 =>
      strs_eqb n1 n2 && Bool.eqb t1 t2 && expr_eqb i1 i2 && exprs_eqb f1 f2 && gens_eqb r1 r2
  | _, _ => false
  end.

(** ** Sub-expressions in pre-order (the harness lists the source text of each in the same order) *)
Fixpoint subexprs (e : expr) : list expr :=
  e :: match e with
       | EConst _ | EName _ | EOmit => []
       | EAttr e1 _ => subexprs e1
       | ESub a b => subexprs a ++ subexprs b
       | ESlice a b => subexprs a ++ subexprs b
       | ECall f xs ks => subexprs f ++ subexprs_l xs ++ subexprs_k ks
       | EStar e1 => subexprs e1
       | EUn _ e1 => subexprs e1
       | EBin _ a b => subexprs a ++ subexprs b
       | EBool _ es => subexprs_l es
       | ECmp l cs => subexprs l ++ subexprs_c cs
       | EIf a b c => subexprs a ++ subexprs b ++ subexprs c
       | ENamed _ e1 => subexprs e1
       | EFStr ps => subexprs_p ps
       | EList es | ETuple es => subexprs_l es
       | EDict ds => subexprs_d ds
       | EComp _ a b gs => subexprs a ++ subexprs b ++ subexprs_g gs
       end
with subexprs_l (es : exprs) : list expr :=
  match es with ENil => [] | ECons e r => subexprs e ++ subexprs_l r end
with subexprs_k (ks : kwds) : list expr :=
  match ks with KNil => [] | KCons _ e r => subexprs e ++ subexprs_k r end
with subexprs_c (cs : cmps) : list expr :=
  match cs with CNil => [] | CCons _ e r => subexprs e ++ subexprs_c r end
with subexprs_p (ps : parts) : list expr :=
  match ps with PNil => [] | PLit _ r => subexprs_p r | PFmt e _ r => subexprs e ++ subexprs_p r end
with subexprs_d (ds : dpairs) : list expr :=
  match ds with DNil => [] | DCons k v r => subexprs k ++ subexprs v ++ subexprs_d r end
with subexprs_g (gs : gens) : list expr :=
  match gs with GNil => [] | GCons _ _ it ifs r => subexprs it ++ subexprs_l ifs ++ subexprs_g r end.

(** the part of the tree that lies inside some comprehension (its own scope) *)
Fixpoint inner_exprs (e : expr) : list expr :=
  match e with
  | EConst _ | EName _ | EOmit => []
  | EAttr e1 _ => inner_exprs e1
  | ESub a b => inner_exprs a ++ inner_exprs b
  | ESlice a b => inner_exprs a ++ inner_exprs b
  | ECall f xs ks => inner_exprs f ++ inner_l xs ++ inner_k ks
  | EStar e1 => inner_exprs e1
  | EUn _ e1 => inner_exprs e1
  | EBin _ a b => inner_exprs a ++ inner_exprs b
  | EBool _ es => inner_l es
  | ECmp l cs => inner_exprs l ++ inner_c cs
  | EIf a b c => inner_exprs a ++ inner_exprs b ++ inner_exprs c
  | ENamed _ e1 => inner_exprs e1
  | EFStr ps => inner_p ps
  | EList es | ETuple es => inner_l es
  | EDict ds => inner_d ds
  | EComp _ a b gs => subexprs a ++ subexprs b ++ subexprs_g gs
  end
with inner_l (es : exprs) : list expr :=
  match es with ENil => [] | ECons e r => inner_exprs e ++ inner_l r end
with inner_k (ks : kwds) : list expr :=
  match ks with KNil => [] | KCons _ e r => inner_exprs e ++ inner_k r end
with inner_c (cs : cmps) : list expr :=
  match cs with CNil => [] | CCons _ e r => inner_exprs e ++ inner_c r end
with inner_p (ps : parts) : list expr :=
  match ps with PNil => [] | PLit _ r => inner_p r | PFmt e _ r => inner_exprs e ++ inner_p r end
with inner_d (ds : dpairs) : list expr :=
  match ds with DNil => [] | DCons k v r => inner_exprs k ++ inner_exprs v ++ inner_d r end.

(** ** The recorded map and the selection of lines *)
Fixpoint rec_lookup (l : log) (e : expr) : option val :=
  match l with
  | [] => None
  | (e', v) :: r => match rec_lookup r e with
                    | Some w => Some w                      (* a later entry overwrites *)
                    | None => if expr_eqb e' e then Some v else None
                    end
  end.

Definition lines := list (string * val).

Fixpoint line_set (l : lines) (k : string) (v : val) : lines :=
  match l with
  | [] => [(k, v)]
  | (k', w) :: r => if String.eqb k' k then (k', v) :: r else (k', w) :: line_set r k v
  end.
Definition line_has (l : lines) (k : string) : bool := existsb (fun p => String.eqb (fst p) k) l.

Section Message.
Variable text : expr -> string.          (* asttokens' source text of a node *)
Variable recorded : log.                 (* [Visitor.recomputed_values] *)
Variable tables : list env.              (* the variable look-up tables *)

Definition in_tables (id : string) : bool :=
  existsb (fun t => match lookup t id with Some _ => true | None => false end) tables.

Definition show (e : expr) (check_representable : bool) (key : string) (acc : lines) : lines :=
  match rec_lookup recorded e with
  | Some v => if negb check_representable || representable v then line_set acc key v else acc
  | None => acc
  end.

Fixpoint reprs (e : expr) (acc : lines) : lines :=
  match e with
  | EConst _ | EOmit => acc
  | EName id => if in_tables id then show e true (text e) acc else acc
  | EFStr _ => show e true (text e) acc                       (* no descent into an f-string *)
  | EAttr e1 _ => reprs e1 (show e true (text e) acc)
  | ENamed tg e1 => reprs e1 (show e true tg acc)
  | ECall f xs ks => reprs_k ks (reprs_l xs (reprs f (show e false (text e) acc)))
  | ESub a b => reprs b (reprs a (show e false (text e) acc))
  | EComp k a b gs =>
      let acc' := match k with KGen => acc | _ => show e false (text e) acc end in
      reprs_g gs (reprs b (reprs a acc'))
  | ESlice a b => reprs b (reprs a acc)
  | EStar e1 => reprs e1 acc
  | EUn _ e1 => reprs e1 acc
  | EBin _ a b => reprs b (reprs a acc)
  | EBool _ es => reprs_l es acc
  | ECmp l cs => reprs_c cs (reprs l acc)
  | EIf a b c => reprs c (reprs b (reprs a acc))
  | EList es | ETuple es => reprs_l es acc
  | EDict ds => reprs_d ds acc
  end
with reprs_l (es : exprs) (acc : lines) : lines :=
  match es with ENil => acc | ECons e r => reprs_l r (reprs e acc) end
with reprs_k (ks : kwds) (acc : lines) : lines :=
  match ks with KNil => acc | KCons _ e r => reprs_k r (reprs e acc) end
with reprs_c (cs : cmps) (acc : lines) : lines :=
  match cs with CNil => acc | CCons _ e r => reprs_c r (reprs e acc) end
with reprs_d (ds : dpairs) (acc : lines) : lines :=
  match ds with DNil => acc | DCons k v r => reprs_d r (reprs v (reprs k acc)) end
with reprs_g (gs : gens) (acc : lines) : lines :=
  match gs with GNil => acc | GCons _ _ it ifs r => reprs_g r (reprs_l ifs (reprs it acc)) end.

End Message.

(** ** Arguments of the call, sorting, assembly *)
Fixpoint insert_line (p : string * val) (l : lines) : lines :=
  match l with
  | [] => [p]
  | q :: r => if str_ltb (fst q) (fst p) then q :: insert_line p r else p :: q :: r
  end.
Fixpoint sort_lines (l : lines) : lines :=
  match l with [] => [] | p :: r => insert_line p (sort_lines r) end.

(** [_ARGS] / [_KWARGS] are shown only if the condition names them as parameters *)
Definition selected_kwargs (kwargs : env) (cond_params : list string) : env :=
  filter (fun p => negb ((String.eqb (fst p) "_ARGS" || String.eqb (fst p) "_KWARGS")
                         && negb (existsb (String.eqb (fst p)) cond_params))) kwargs.

Definition add_arguments (acc : lines) (selected : env) : lines :=
  fold_left (fun a p => if negb (line_has a (fst p)) && representable (snd p) then a ++ [p] else a)
            (sort_lines selected) acc.

Definition value_lines (text : expr -> string) (recorded : log) (tables : list env) (body : option expr)
           (kwargs : env) (cond_params : list string) : lines :=
  let sel := selected_kwargs kwargs cond_params in
  let r := match body with Some e => reprs text recorded tables e [] | None => [] end in
  sort_lines (add_arguments r sel).

(** the tables handed to both visitors: the condition's own parameters, its closure, its globals *)
Definition lookup_tables (kwargs : env) (cond_params : list string) (closure globals : env) : list env :=
  [filter (fun p => existsb (String.eqb (fst p)) cond_params) (selected_kwargs kwargs cond_params); closure; globals].

Open Scope string_scope.
Section Render.
Variable R : val -> string.      (* the violated contract's own [a_repr.repr] *)

Definition render_line (p : string * val) : string :=
  match snd p with
  | VAllFail _ inputs =>
      fst p ++ " was False, e.g., with" ++
      String.concat "" (map (fun i => String (ascii_of_nat 10) "  " ++ fst i ++ " = " ++ R (snd i)) inputs)
  | v => fst p ++ " was " ++ R v
  end.

Definition nl : string := String (ascii_of_nat 10) "".

Definition generate_message (location description : option string) (cond_text : string) (ls : lines) : string :=
  (match location with Some l => l ++ ":" ++ nl | None => "" end) ++
  (match description with Some d => d ++ ": " | None => "" end) ++
  cond_text ++
  match ls with
  | [] => ""
  | [p] => ": " ++ render_line p
  | _ => ":" ++ nl ++ String.concat nl (map render_line ls)
  end.
End Render.
