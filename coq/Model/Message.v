(** * Message: which re-computed values are shown ([icontract._represent.Visitor]), the argument
    lines, sorting and assembly ([repr_values], [generate_message]). *)
From Coq Require Import List String ZArith Bool Ascii.
From ICV Require Import Expr PyPrims.
Import ListNotations.
Open Scope string_scope.
Open Scope list_scope.

(** ** Sub-expressions in pre-order: node [i] of the condition is [nth i (subexprs body)] *)
Fixpoint subexprs (e : expr) : list expr :=
  e :: match e with
       | EConst _ | EName _ | EOmit => []
       | EAttr e1 _ => subexprs e1
       | ESub a b => subexprs a ++ subexprs b
       | ESlice a b => subexprs a ++ subexprs b
       | ECall f xs ks => subexprs f ++ subexprs_l xs ++ subexprs_k ks
       | EStar e1 => subexprs e1
       | EUn _ e1 => subexprs e1
       | EBin _ a b => subexprs a ++ subexprs b
       | EBool _ es => subexprs_l es
       | ECmp l cs => subexprs l ++ subexprs_c cs
       | EIf a b c => subexprs a ++ subexprs b ++ subexprs c
       | ENamed _ e1 => subexprs e1
       | EFStr ps => subexprs_p ps
       | EList es | ETuple es => subexprs_l es
       | EDict ds => subexprs_d ds
       | EComp _ a b gs => subexprs a ++ subexprs b ++ subexprs_g gs
       end
with subexprs_l (es : exprs) : list expr :=
  match es with ENil => [] | ECons e r => subexprs e ++ subexprs_l r end
with subexprs_k (ks : kwds) : list expr :=
  match ks with KNil => [] | KCons _ e r => subexprs e ++ subexprs_k r end
with subexprs_c (cs : cmps) : list expr :=
  match cs with CNil => [] | CCons _ e r => subexprs e ++ subexprs_c r end
with subexprs_p (ps : parts) : list expr :=
  match ps with PNil => [] | PLit _ r => subexprs_p r | PFmt e _ r => subexprs e ++ subexprs_p r end
with subexprs_d (ds : dpairs) : list expr :=
  match ds with DNil => [] | DCons k v r => subexprs k ++ subexprs v ++ subexprs_d r | DStar e r => subexprs e ++ subexprs_d r end
with subexprs_g (gs : gens) : list expr :=
  match gs with GNil => [] | GCons _ _ it ifs r => subexprs it ++ subexprs_l ifs ++ subexprs_g r end.

(** numbers of the nodes in a range *)
Definition range (i n : nat) : list nat := seq i n.

(** nodes that lie inside some comprehension (a scope of its own), and inside some f-string *)
Fixpoint inner_nodes (i : nat) (e : expr) : list nat :=
  match e with
  | EConst _ | EName _ | EOmit => []
  | EAttr e1 _ | EStar e1 | EUn _ e1 | ENamed _ e1 => inner_nodes (S i) e1
  | ESub a b | ESlice a b | EBin _ a b => inner_nodes (S i) a ++ inner_nodes (S i + size a) b
  | ECall f xs ks => inner_nodes (S i) f ++ inner_l (S i + size f) xs ++ inner_k (S i + size f + size_l xs) ks
  | EBool _ es | EList es | ETuple es => inner_l (S i) es
  | ECmp l cs => inner_nodes (S i) l ++ inner_c (S i + size l) cs
  | EIf a b c => inner_nodes (S i) a ++ inner_nodes (S i + size a) b ++ inner_nodes (S i + size a + size b) c
  | EFStr ps => inner_p (S i) ps
  | EDict ds => inner_d (S i) ds
  | EComp _ a b gs => range (S i) (size a + size b + size_g gs)
  end
with inner_l (i : nat) (es : exprs) : list nat :=
  match es with ENil => [] | ECons e r => inner_nodes i e ++ inner_l (i + size e) r end
with inner_k (i : nat) (ks : kwds) : list nat :=
  match ks with KNil => [] | KCons _ e r => inner_nodes i e ++ inner_k (i + size e) r end
with inner_c (i : nat) (cs : cmps) : list nat :=
  match cs with CNil => [] | CCons _ e r => inner_nodes i e ++ inner_c (i + size e) r end
with inner_p (i : nat) (ps : parts) : list nat :=
  match ps with PNil => [] | PLit _ r => inner_p i r | PFmt e _ r => inner_nodes i e ++ inner_p (i + size e) r end
with inner_d (i : nat) (ds : dpairs) : list nat :=
  match ds with
  | DNil => []
  | DCons k v r => inner_nodes i k ++ inner_nodes (i + size k) v ++ inner_d (i + size k + size v) r
  | DStar e r => inner_nodes i e ++ inner_d (i + size e) r
  end.

Definition fstring_nodes (body : expr) : list nat :=
  flat_map (fun p => match snd p with EFStr ps => range (S (fst p)) (size_p ps) | _ => [] end)
           (combine (seq 0 (size body)) (subexprs body)).

(** ** The recorded map and the selection of lines *)
Fixpoint rec_lookup (l : log) (i : nat) : option val :=
  match l with
  | [] => None
  | (j, v) :: r => match rec_lookup r i with
                   | Some w => Some w                      (* a later entry overwrites *)
                   | None => if Nat.eqb j i then Some v else None
                   end
  end.

Definition lines := list (string * val).

Fixpoint line_set (l : lines) (k : string) (v : val) : lines :=
  match l with
  | [] => [(k, v)]
  | (k', w) :: r => if String.eqb k' k then (k', v) :: r else (k', w) :: line_set r k v
  end.
Definition line_has (l : lines) (k : string) : bool := existsb (fun p => String.eqb (fst p) k) l.

Section Message.
Variable text : nat -> string.           (* asttokens' source text of a node *)
Variable recorded : log.                 (* [Visitor.recomputed_values] *)
Variable tables : list env.              (* the variable look-up tables *)

Definition in_tables (id : string) : bool :=
  existsb (fun t => match lookup t id with Some _ => true | None => false end) tables.

Definition show (i : nat) (check_representable : bool) (key : string) (acc : lines) : lines :=
  match rec_lookup recorded i with
  | Some v => if negb check_representable || representable v then line_set acc key v else acc
  | None => acc
  end.

Fixpoint reprs (i : nat) (e : expr) (acc : lines) : lines :=
  match e with
  | EConst _ | EOmit => acc
  | EName id => if in_tables id then show i true (text i) acc else acc
  | EFStr _ => show i true (text i) acc                       (* no descent into an f-string *)
  | EAttr e1 _ => reprs (S i) e1 (show i true (text i) acc)
  | ENamed tg e1 => reprs (S i) e1 (show i true tg acc)
  | ECall f xs ks =>
      reprs_k (S i + size f + size_l xs) ks (reprs_l (S i + size f) xs (reprs (S i) f (show i false (text i) acc)))
  | ESub a b => reprs (S i + size a) b (reprs (S i) a (show i false (text i) acc))
  | EComp k a b gs =>
      let acc' := match k with KGen => acc | _ => show i false (text i) acc end in
      reprs_g (S i + size a + size b) gs (reprs (S i + size a) b (reprs (S i) a acc'))
  | ESlice a b => reprs (S i + size a) b (reprs (S i) a acc)
  | EStar e1 => reprs (S i) e1 acc
  | EUn _ e1 => reprs (S i) e1 acc
  | EBin _ a b => reprs (S i + size a) b (reprs (S i) a acc)
  | EBool _ es => reprs_l (S i) es acc
  | ECmp l cs => reprs_c (S i + size l) cs (reprs (S i) l acc)
  | EIf a b c => reprs (S i + size a + size b) c (reprs (S i + size a) b (reprs (S i) a acc))
  | EList es | ETuple es => reprs_l (S i) es acc
  | EDict ds => reprs_d (S i) ds acc
  end
with reprs_l (i : nat) (es : exprs) (acc : lines) : lines :=
  match es with ENil => acc | ECons e r => reprs_l (i + size e) r (reprs i e acc) end
with reprs_k (i : nat) (ks : kwds) (acc : lines) : lines :=
  match ks with KNil => acc | KCons _ e r => reprs_k (i + size e) r (reprs i e acc) end
with reprs_c (i : nat) (cs : cmps) (acc : lines) : lines :=
  match cs with CNil => acc | CCons _ e r => reprs_c (i + size e) r (reprs i e acc) end
with reprs_d (i : nat) (ds : dpairs) (acc : lines) : lines :=
  match ds with
  | DNil => acc
  | DCons k v r => reprs_d (i + size k + size v) r (reprs (i + size k) v (reprs i k acc))
  | DStar e r => reprs_d (i + size e) r (reprs i e acc)
  end
with reprs_g (i : nat) (gs : gens) (acc : lines) : lines :=
  match gs with
  | GNil => acc
  | GCons _ _ it ifs r => reprs_g (i + size it + size_l ifs) r (reprs_l (i + size it) ifs (reprs i it acc))
  end.

End Message.

(** ** Arguments of the call, sorting, assembly *)
Fixpoint insert_line (p : string * val) (l : lines) : lines :=
  match l with
  | [] => [p]
  | q :: r => if str_ltb (fst q) (fst p) then q :: insert_line p r else p :: q :: r
  end.
Fixpoint sort_lines (l : lines) : lines :=
  match l with [] => [] | p :: r => insert_line p (sort_lines r) end.

(** [_ARGS] / [_KWARGS] are shown only if the condition names them as parameters *)
Definition selected_kwargs (kwargs : env) (cond_params : list string) : env :=
  filter (fun p => negb ((String.eqb (fst p) "_ARGS" || String.eqb (fst p) "_KWARGS")
                         && negb (existsb (String.eqb (fst p)) cond_params))) kwargs.

Definition add_arguments (acc : lines) (selected : env) : lines :=
  fold_left (fun a p => if negb (line_has a (fst p)) && representable (snd p) then a ++ [p] else a)
            (sort_lines selected) acc.

Definition value_lines (text : nat -> string) (recorded : log) (tables : list env) (body : option expr)
           (kwargs : env) (cond_params : list string) : lines :=
  let sel := selected_kwargs kwargs cond_params in
  let r := match body with Some e => reprs text recorded tables 0 e [] | None => [] end in
  sort_lines (add_arguments r sel).

(** the tables handed to both visitors: the condition's own parameters, its closure, its globals *)
Definition lookup_tables (kwargs : env) (cond_params : list string) (closure globals : env) : list env :=
  [filter (fun p => existsb (String.eqb (fst p)) cond_params) (selected_kwargs kwargs cond_params); closure; globals].

Open Scope string_scope.
Section Render.
Variable R : val -> string.      (* the violated contract's own [a_repr.repr] *)

Definition render_line (p : string * val) : string :=
  match snd p with
  | VAllFail _ inputs =>
      fst p ++ " was False, e.g., with" ++
      String.concat "" (map (fun i => String (ascii_of_nat 10) "  " ++ fst i ++ " = " ++ R (snd i)) inputs)
  | v => fst p ++ " was " ++ R v
  end.

Definition nl : string := String (ascii_of_nat 10) "".

Definition generate_message (location description : option string) (cond_text : string) (ls : lines) : string :=
  (match location with Some l => l ++ ":" ++ nl | None => "" end) ++
  (match description with Some d => d ++ ": " | None => "" end) ++
  cond_text ++
  match ls with
  | [] => ""
  | [p] => ": " ++ render_line p
  | _ => ":" ++ nl ++ String.concat nl (map render_line ls)
  end.
End Render.
