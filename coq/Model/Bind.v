(** * Bind: Python's argument binding (reference semantics, written from the language
    reference and validated against CPython by the correspondence) and the library's own
    index-based argument resolution ([icontract._checkers.kwargs_from_call]). *)
From ICV Require Import Base.
Open Scope string_scope.
Open Scope list_scope.

(** A non-variadic parameter: its name and its default (if any). *)
Record nparam := { pname : string; pdefault : option pv }.

(** A signature in Python's canonical order:
    positional-only, positional-or-keyword, [*args], keyword-only, [**kwargs]. *)
Record sig := {
  posonly : list nparam;
  poskw   : list nparam;
  varpos  : option string;
  kwonly  : list nparam;
  varkw   : option string }.

Definition opt_list {A} (o : option A) : list A := match o with Some x => [x] | None => [] end.

(** [list(inspect.signature(f).parameters.keys())] *)
Definition sig_names (s : sig) : list string :=
  map pname (posonly s) ++ map pname (poskw s) ++ opt_list (varpos s)
  ++ map pname (kwonly s) ++ opt_list (varkw s).

Definition named_params (s : sig) : list nparam := posonly s ++ poskw s ++ kwonly s.

(** [resolve_kwdefaults]: the parameters with a default, in signature order. *)
Fixpoint defaults_of (l : list nparam) : dict :=
  match l with
  | [] => []
  | p :: r => match pdefault p with Some v => (pname p, v) :: defaults_of r | None => defaults_of r end
  end.
Definition sig_defaults (s : sig) : dict := defaults_of (named_params s).

(** ** Reference: what the body receives. [None] = CPython raises TypeError for the call. *)

(** A positional parameter at index [i]. [kwable] is false for positional-only ones. *)
Definition bind_positional (kwable : bool) (args : list pv) (kwargs : dict) (i : nat) (p : nparam)
  : option pv :=
  match nth_error args i with
  | Some a => if kwable && dict_has kwargs (pname p) then None (* multiple values *) else Some a
  | None =>
      match (if kwable then dict_get kwargs (pname p) else None) with
      | Some v => Some v
      | None => pdefault p                 (* None: missing required argument *)
      end
  end.

Definition bind_kwonly (kwargs : dict) (p : nparam) : option pv :=
  match dict_get kwargs (pname p) with
  | Some v => Some v
  | None => pdefault p
  end.

Fixpoint bind_positionals (kwable : bool) (args : list pv) (kwargs : dict) (i : nat) (ps : list nparam)
  : option dict :=
  match ps with
  | [] => Some []
  | p :: r =>
      match bind_positional kwable args kwargs i p, bind_positionals kwable args kwargs (S i) r with
      | Some v, Some d => Some ((pname p, v) :: d)
      | _, _ => None
      end
  end.

Fixpoint bind_kwonlys (kwargs : dict) (ps : list nparam) : option dict :=
  match ps with
  | [] => Some []
  | p :: r =>
      match bind_kwonly kwargs p, bind_kwonlys kwargs r with
      | Some v, Some d => Some ((pname p, v) :: d)
      | _, _ => None
      end
  end.

(** Keywords that match no keyword-capable parameter go to [**kwargs]. *)
Definition kw_capable (s : sig) : list string := map pname (poskw s) ++ map pname (kwonly s).
Definition extra_kwargs (s : sig) (kwargs : dict) : dict :=
  filter (fun kv => negb (str_in (fst kv) (kw_capable s))) kwargs.

Definition n_positional (s : sig) : nat := List.length (posonly s) + List.length (poskw s).

Definition pybind (s : sig) (args : list pv) (kwargs : dict) : option dict :=
  let np := n_positional s in
  let surplus := skipn np args in
  let extra := extra_kwargs s kwargs in
  match surplus, varpos s with
  | _ :: _, None => None                                   (* too many positional arguments *)
  | _, _ =>
    match extra, varkw s with
    | _ :: _, None => None                                 (* unexpected keyword argument *)
    | _, _ =>
      match bind_positionals false args kwargs 0 (posonly s),
            bind_positionals true args kwargs (List.length (posonly s)) (poskw s),
            bind_kwonlys kwargs (kwonly s) with
      | Some d1, Some d2, Some d3 =>
          Some (d1 ++ d2
                ++ map (fun n => (n, PTuple surplus)) (opt_list (varpos s))
                ++ d3
                ++ map (fun n => (n, PDict extra)) (opt_list (varkw s)))
      | _, _, _ => None
      end
    end
  end.

(** ** The library's resolution, written cleanly (refined by [Generated.kwargs_from_call]). *)
Fixpoint set_positional (names : list string) (args : list pv) (r : dict) : dict :=
  match names, args with
  | n :: names', a :: args' => set_positional names' args' (dict_set r n a)
  | _, _ => r
  end.

Definition set_all (kvs : dict) (r : dict) : dict :=
  fold_left (fun r kv => dict_set r (fst kv) (snd kv)) kvs r.

Definition resolve (names : list string) (defaults : dict) (args : list pv) (kwargs : dict) : dict :=
  set_all kwargs
    (set_positional names args
       (set_all defaults [("_ARGS", PTuple args); ("_KWARGS", PDict kwargs)])).

Definition resolve_sig (s : sig) (args : list pv) (kwargs : dict) : dict :=
  resolve (sig_names s) (sig_defaults s) args kwargs.

(** ** Known-finding classes (D8), as executable predicates on signature and call. *)

(** Some surplus positional lands, by index, on a keyword-only name that the call does not
    also pass by keyword. *)
Fixpoint kwonly_hit (i : nat) (nargs : nat) (kwargs : dict) (ps : list nparam) : bool :=
  match ps with
  | [] => false
  | p :: r => (Nat.ltb i nargs && negb (dict_has kwargs (pname p))) || kwonly_hit (S i) nargs kwargs r
  end.
Definition kf_C05_surplus (s : sig) (args : list pv) (kwargs : dict) : bool :=
  kwonly_hit (n_positional s + List.length (opt_list (varpos s))) (List.length args) kwargs (kwonly s).

(** A keyword of the call (captured by [**kwargs]) has the name of a positional-only parameter. *)
Definition kf_C05_posonly (s : sig) (kwargs : dict) : bool :=
  existsb (fun p => dict_has kwargs (pname p)) (posonly s).

(** ** Executable statement of C05 on an observation:
    [seen] is what a contract asking for every name received, [env] what the body received. *)
Definition agree_on (names : list string) (seen env : dict) : bool :=
  forallb (fun n => match dict_get seen n, dict_get env n with
                    | Some a, Some b => pv_eqb a b
                    | _, _ => false
                    end) names.

Definition spec_C05 (s : sig) (args : list pv) (kwargs : dict) (seen env : dict) : bool :=
  agree_on (map pname (named_params s)) seen env
  && match dict_get seen "_ARGS" with Some v => pv_eqb v (PTuple args) | None => false end
  && match dict_get seen "_KWARGS" with Some v => pv_eqb v (PDict kwargs) | None => false end.

(** Well-formedness the decorators and CPython guarantee. *)
Definition reserved (n : string) : bool := String.eqb n "_ARGS" || String.eqb n "_KWARGS".
