(** * Toggle: when is a contract decorator enabled?
    Interpreter mode (normal, -O, -OO: [__debug__] is false under the latter two), the environment
    variable ICONTRACT_SLOW (unset / empty / non-empty) and the [enabled] argument. *)
From Coq Require Import List String Bool.
Import ListNotations.
Open Scope string_scope.

Inductive pymode := Normal | Opt1 | Opt2.
Definition debug_of (m : pymode) : bool := match m with Normal => true | _ => false end.

Inductive slow_env := Unset | Empty | NonEmpty (s : string).
Definition env_of (e : slow_env) : option string :=
  match e with Unset => None | Empty => Some "" | NonEmpty s => Some s end.

Inductive enabled_arg := EDefault | ETrue | EFalse | ESlow.

(** the documented rule *)
Definition slow_spec (m : pymode) (e : slow_env) : bool :=
  match m, e with
  | Normal, NonEmpty s => negb (String.eqb s "")
  | _, _ => false
  end.

Definition enabled_spec (m : pymode) (e : slow_env) (a : enabled_arg) : bool :=
  match a with
  | EDefault => debug_of m
  | ETrue => true
  | EFalse => false
  | ESlow => slow_spec m e
  end.
