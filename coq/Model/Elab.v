(** * Elab: what decorators and the DBC metaclass build.

    A world is a heap of list cells (Python list objects - identity matters: attributes hold
    references), function objects (each with its [__wrapped__] link and, if present in its
    [__dict__], references to its three contract lists) and classes (bases, namespace, the three
    invariant-list attributes if the class owns them).  Definitions are elaborated in order, as
    Python executes a module: decorator stacks bottom-up, then - for classes created through
    [DBCMeta] - the merging of inherited contracts, then class decorators.

    Mirrors [icontract._decorators] (require / ensure / snapshot / invariant [__call__]),
    [icontract._checkers] (find_checker, decorate_with_checker, add_*_to_checker,
    add_invariant_checks) and [icontract._metaclass]. *)
From ICV Require Import Base Bind Checker.
Open Scope string_scope.
Open Scope list_scope.

Definition ref := nat.

Inductive item :=
| IContract (c : contract)
| ISnapshot (s : snapshot)
| IGroup (r : ref).            (* a precondition list holds references to its group lists *)

Inductive frole :=
| FOrig                        (* the user's function *)
| FChecker                     (* [decorate_with_checker.wrapper] *)
| FForeign (mark : nat)        (* some other decorator that used functools.wraps *)
| FInvWrap (is_init : bool)    (* [_decorate_with_invariants.wrapper] *)
| FNewWrap                     (* [_decorate_new_with_invariants.wrapper] *)
| FPassOn.                     (* a special method the library gives a class that lacks it: it calls the next
                                  definition along the resolution order of the instance's class *)

Record fobj := {
  fo_role : frole;
  fo_wrapped : option nat;     (* [__wrapped__] *)
  fo_pre : option ref;         (* [__preconditions__], [__postcondition_snapshots__], [__postconditions__] *)
  fo_snaps : option ref;       (*   - present also on wrappers that copied the checker's [__dict__] *)
  fo_post : option ref;
  fo_sig : sig;
  fo_async : bool;
  fo_owner : nat }.            (* identity of the user's function at the bottom of the chain *)

Inductive mkind := MPlain | MStatic | MClassM | MGet | MSet | MDel.

Inductive member :=
| MemFunc (k : mkind) (f : nat)                    (* function / staticmethod / classmethod object *)
| MemProp (g s d : option nat)                     (* a property object *)
| MemSlot (name : string).                         (* a slot wrapper inherited from [object] *)

Inductive check_on := OnCall | OnSetattr | OnAll.
Definition on_call (c : check_on) : bool := match c with OnSetattr => false | _ => true end.
Definition on_setattr (c : check_on) : bool := match c with OnCall => false | _ => true end.

Record cobj := {
  co_name : nat;
  co_bases : list nat;
  co_mro : list nat;                         (* including itself, [object] left implicit *)
  co_meta : bool;                            (* created through DBCMeta *)
  co_ns : list (string * member);            (* own namespace, in definition order *)
  co_inv : option ref;                       (* own [__invariants__] *)
  co_inv_call : option ref;
  co_inv_set : option ref;
  co_last_check_on : option check_on }.      (* [check_on] of the last invariant of [__invariants__] as seen by the class *)

Record world := {
  w_heap : list (list item);
  w_funcs : list fobj;
  w_classes : list cobj;
  w_registered : list nat;                   (* classes announced to the integrator hook, in order *)
  w_module : list nat }.                     (* function objects bound by the module-level defs, in order *)

Definition empty_world : world :=
  {| w_heap := []; w_funcs := []; w_classes := []; w_registered := []; w_module := [] |}.

(** ** Heap *)
Definition alloc (w : world) (c : list item) : world * ref :=
  ({| w_heap := w_heap w ++ [c]; w_funcs := w_funcs w; w_classes := w_classes w; w_registered := w_registered w; w_module := w_module w |},
   List.length (w_heap w)).

Definition deref (w : world) (r : ref) : list item := nth r (w_heap w) [].

Fixpoint set_nth {A} (l : list A) (i : nat) (x : A) : list A :=
  match l, i with
  | [], _ => []
  | _ :: r, 0 => x :: r
  | y :: r, S i' => y :: set_nth r i' x
  end.

Definition heap_append (w : world) (r : ref) (x : item) : world :=
  {| w_heap := set_nth (w_heap w) r (deref w r ++ [x]); w_funcs := w_funcs w; w_classes := w_classes w;
     w_registered := w_registered w; w_module := w_module w |}.

Definition add_func (w : world) (f : fobj) : world * nat :=
  ({| w_heap := w_heap w; w_funcs := w_funcs w ++ [f]; w_classes := w_classes w; w_registered := w_registered w; w_module := w_module w |},
   List.length (w_funcs w)).

Definition get_func (w : world) (f : nat) : option fobj := nth_error (w_funcs w) f.

Definition set_func (w : world) (i : nat) (f : fobj) : world :=
  {| w_heap := w_heap w; w_funcs := set_nth (w_funcs w) i f; w_classes := w_classes w; w_registered := w_registered w; w_module := w_module w |}.

(** ** [find_checker]: walk the [__wrapped__] chain; the *last* wrapper that has the attributes *)
Definition has_lists (f : fobj) : bool :=
  match fo_pre f, fo_post f with None, None => false | _, _ => true end.

Fixpoint find_checker_from (w : world) (fuel : nat) (cur : nat) (found : option nat) : option nat :=
  match fuel with
  | 0 => found
  | S fuel' =>
      match get_func w cur with
      | None => found
      | Some f =>
          let found' := if has_lists f then Some cur else found in
          match fo_wrapped f with
          | Some nxt => find_checker_from w fuel' nxt found'
          | None => found'
          end
      end
  end.

Definition find_checker (w : world) (cur : nat) : option nat :=
  find_checker_from w (S (List.length (w_funcs w))) cur None.

(** ** Decorators *)
Inductive deco :=
| DRequire (c : contract) (enabled : bool)
| DEnsure (c : contract) (enabled : bool)
| DSnapshot (s : snapshot) (enabled : bool)
| DForeign (mark : nat)
| DInvalid (exn : string) (enabled : bool).   (* a decorator whose *construction* raises (bad [error], bad snapshot name ...) *)

(** Python evaluates all decorator expressions of a definition, top-most first, before applying
    any of them: the first enabled invalid one (from the top) aborts the definition. *)
Fixpoint construction_error (ds_top_first : list deco) : option string :=
  match ds_top_first with
  | [] => None
  | DInvalid e true :: _ => Some e
  | _ :: r => construction_error r
  end.

Definition sig_reserved (s : sig) : bool :=
  existsb (fun n => String.eqb n "_ARGS" || String.eqb n "_KWARGS") (sig_names s).

(** [functools.update_wrapper]: the new wrapper copies the wrapped function's [__dict__] *)
Definition wrap (w : world) (role : frole) (cur : nat) : option (world * nat) :=
  match get_func w cur with
  | None => None
  | Some f =>
      Some (add_func w {| fo_role := role; fo_wrapped := Some cur; fo_pre := fo_pre f; fo_snaps := fo_snaps f;
                          fo_post := fo_post f; fo_sig := fo_sig f; fo_async := fo_async f;
                          fo_owner := fo_owner f |})
  end.

(** [decorate_with_checker] *)
Definition decorate_with_checker (w : world) (cur : nat) : res (world * nat) :=
  match get_func w cur with
  | None => Err "KeyError"
  | Some f =>
      if sig_reserved (fo_sig f) then Err "TypeError" else
      let '(w1, rp) := alloc w [] in
      let '(w2, rs) := alloc w1 [] in
      let '(w3, rq) := alloc w2 [] in
      Ok (add_func w3 {| fo_role := FChecker; fo_wrapped := Some cur; fo_pre := Some rp; fo_snaps := Some rs;
                         fo_post := Some rq; fo_sig := fo_sig f; fo_async := fo_async f;
                         fo_owner := fo_owner f |})
  end.

Definition snap_names (w : world) (r : ref) : list string :=
  flat_map (fun it => match it with ISnapshot s => [sname s] | _ => [] end) (deref w r).

Definition contracts_of (w : world) (r : ref) : list contract :=
  flat_map (fun it => match it with IContract c => [c] | _ => [] end) (deref w r).
Definition snapshots_of (w : world) (r : ref) : list snapshot :=
  flat_map (fun it => match it with ISnapshot s => [s] | _ => [] end) (deref w r).
Definition group_refs (w : world) (r : ref) : list ref :=
  flat_map (fun it => match it with IGroup g => [g] | _ => [] end) (deref w r).
Definition groups_of (w : world) (r : ref) : list (list contract) :=
  map (contracts_of w) (group_refs w r).

(** applying one decorator to the function object [cur]; returns the object the decorator returns *)
Definition apply_deco (w : world) (cur : nat) (d : deco) : res (world * nat) :=
  match d with
  | DForeign k => match wrap w (FForeign k) cur with Some r => Ok r | None => Err "KeyError" end
  | DInvalid _ _ => Ok (w, cur)                          (* disabled: the decorator returns its argument *)
  | DRequire c en =>
      if negb en then Ok (w, cur) else
      r <- (match find_checker w cur with
            | Some ch => Ok (w, ch, cur)                 (* the checker exists: the decorated object stays *)
            | None => x <- decorate_with_checker w cur ;; Ok (fst x, snd x, snd x)
            end) ;;
      let '(w1, ch, result) := r in
      match get_func w1 ch with
      | Some chf =>
          match fo_pre chf with
          | Some rp =>
              (* add_precondition_to_checker: at most one group (groups are merged by the meta-class only);
                 create group 0 if there is none, append to it *)
              match group_refs w1 rp with
              | _ :: _ :: _ => Err "AssertionError"
              | gs =>
                  let '(w2, g) := match gs with
                                  | g :: _ => (w1, g)
                                  | [] => let '(wa, g) := alloc w1 [] in (heap_append wa rp (IGroup g), g)
                                  end in
                  Ok (heap_append w2 g (IContract c), result)
              end
          | None => Err "AssertionError"
          end
      | None => Err "KeyError"
      end
  | DEnsure c en =>
      if negb en then Ok (w, cur) else
      r <- (match find_checker w cur with
            | Some ch => Ok (w, ch, cur)
            | None => x <- decorate_with_checker w cur ;; Ok (fst x, snd x, snd x)
            end) ;;
      let '(w1, ch, result) := r in
      match get_func w1 ch with
      | Some chf =>
          match fo_post chf with
          | Some rq => Ok (heap_append w1 rq (IContract c), result)
          | None => Err "AssertionError"
          end
      | None => Err "KeyError"
      end
  | DSnapshot s en =>
      if negb en then Ok (w, cur) else
      match find_checker w cur with
      | None => Err "ValueError"                          (* no postcondition defined before *)
      | Some ch =>
          match get_func w ch with
          | Some chf =>
              match fo_snaps chf, fo_post chf with
              | Some rs, Some rq =>
                  if is_nil (contracts_of w rq) then Err "ValueError" else
                  if str_in (sname s) (snap_names w rs) then Err "ValueError" else
                  Ok (heap_append w rs (ISnapshot s), cur)
              | _, _ => Err "AssertionError"
              end
          | None => Err "KeyError"
          end
      end
  end.

Fixpoint apply_decos (w : world) (cur : nat) (ds : list deco) : res (world * nat) :=
  match ds with
  | [] => Ok (w, cur)
  | d :: rest => r <- apply_deco w cur d ;; apply_decos (fst r) (snd r) rest
  end.

(** a [def] with its decorator stack (in application order: the first is nearest the function) *)
Definition define_function (w : world) (s : sig) (is_async : bool) (ds : list deco) : res (world * nat) :=
  match construction_error (rev ds) with Some e => Err e | None =>
  let '(w1, f) := add_func w {| fo_role := FOrig; fo_wrapped := None; fo_pre := None; fo_snaps := None;
                                fo_post := None; fo_sig := s; fo_async := is_async;
                                fo_owner := List.length (w_funcs w) |} in
  apply_decos w1 f ds
  end.

(** ** Introspection: the chain of a function object, outermost first *)
Fixpoint chain_from (w : world) (fuel : nat) (cur : nat) : list nat :=
  match fuel with
  | 0 => []
  | S fuel' =>
      cur :: match get_func w cur with
             | Some f => match fo_wrapped f with Some nxt => chain_from w fuel' nxt | None => [] end
             | None => []
             end
  end.
Definition chain (w : world) (cur : nat) : list nat := chain_from w (S (List.length (w_funcs w))) cur.

(** ** Classes *)
Definition get_class (w : world) (k : nat) : option cobj := nth_error (w_classes w) k.

Definition set_class (w : world) (i : nat) (c : cobj) : world :=
  {| w_heap := w_heap w; w_funcs := w_funcs w; w_classes := set_nth (w_classes w) i c; w_registered := w_registered w; w_module := w_module w |}.

(** *** C3 linearisation ([object] is implicit) *)
Fixpoint nat_in (x : nat) (l : list nat) : bool :=
  match l with [] => false | y :: r => Nat.eqb x y || nat_in x r end.

Definition in_some_tail (x : nat) (seqs : list (list nat)) : bool :=
  existsb (fun s => match s with [] => false | _ :: t => nat_in x t end) seqs.

Fixpoint pick_head (cands seqs : list (list nat)) : option nat :=
  match cands with
  | [] => None
  | [] :: r => pick_head r seqs
  | (h :: _) :: r => if in_some_tail h seqs then pick_head r seqs else Some h
  end.

Definition drop_head (x : nat) (seqs : list (list nat)) : list (list nat) :=
  map (fun s => match s with h :: t => if Nat.eqb h x then t else s | [] => [] end) seqs.

Fixpoint c3_merge (fuel : nat) (seqs : list (list nat)) : option (list nat) :=
  match fuel with
  | 0 => None
  | S fuel' =>
      let seqs := filter (fun s => negb (is_nil s)) seqs in
      match seqs with
      | [] => Some []
      | _ =>
          match pick_head seqs seqs with
          | None => None                       (* inconsistent hierarchy: TypeError in Python *)
          | Some h => option_map (cons h) (c3_merge fuel' (drop_head h seqs))
          end
      end
  end.

Definition mro_of (w : world) (k : nat) : list nat :=
  match get_class w k with Some c => co_mro c | None => [] end.

Definition compute_mro (w : world) (self : nat) (bases : list nat) : option (list nat) :=
  option_map (cons self)
             (c3_merge (S (List.length (w_classes w)) * S (List.length bases) + 1)
                       (map (mro_of w) bases ++ [bases])).

(** *** attribute lookup along the MRO *)
Fixpoint ns_get (ns : list (string * member)) (name : string) : option member :=
  match ns with
  | [] => None
  | (n, m) :: r => if String.eqb n name then Some m else ns_get r name
  end.

Fixpoint ns_set (ns : list (string * member)) (name : string) (m : member) : list (string * member) :=
  match ns with
  | [] => [(name, m)]
  | (n, m') :: r => if String.eqb n name then (n, m) :: r else (n, m') :: ns_set r name m
  end.

Definition object_slots : list string := ["__init__"; "__new__"; "__setattr__"; "__repr__"; "__getattribute__"; "__eq__"].

Fixpoint lookup_in (w : world) (ks : list nat) (name : string) : option member :=
  match ks with
  | [] => if str_in name object_slots then Some (MemSlot name) else None
  | k :: r => match get_class w k with
              | Some c => match ns_get (co_ns c) name with
                          | Some m => Some m
                          | None => lookup_in w r name
                          end
              | None => lookup_in w r name
              end
  end.

(** [getattr(cls, name)] *)
Definition class_getattr (w : world) (k : nat) (name : string) : option member := lookup_in w (mro_of w k) name.

Inductive inv_list := LInv | LCall | LSet.
Definition own_inv (c : cobj) (which : inv_list) : option ref :=
  match which with LInv => co_inv c | LCall => co_inv_call c | LSet => co_inv_set c end.

Fixpoint lookup_inv_in (w : world) (ks : list nat) (which : inv_list) : option ref :=
  match ks with
  | [] => None
  | k :: r => match get_class w k with
              | Some c => match own_inv c which with Some x => Some x | None => lookup_inv_in w r which end
              | None => lookup_inv_in w r which
              end
  end.
(** [getattr(cls, "__invariants__")] etc.: the list object found first along the MRO *)
Definition class_inv (w : world) (k : nat) (which : inv_list) : option ref := lookup_inv_in w (mro_of w k) which.
Definition class_invs (w : world) (k : nat) (which : inv_list) : list contract :=
  match class_inv w k which with Some r => contracts_of w r | None => [] end.

(** ** Declarations *)
Record mdecl := { md_name : string; md_kind : mkind; md_async : bool; md_sig : sig; md_decos : list deco;
                  md_inherit : option nat }.   (* an accessor added to the property of the n-th direct base:
                                                  @Base.p.setter *)
Record idecl := { id_contract : contract; id_check_on : check_on; id_enabled : bool; id_invalid : option string }.
Record cdecl := {
  cd_bases : list nat;
  cd_dbc : bool;                 (* DBC / metaclass=DBCMeta named explicitly *)
  cd_members : list mdecl;
  cd_invs : list idecl }.        (* class decorators, in application order *)

Inductive defop :=
| DefFunction (m : mdecl)
| DefClass (c : cdecl)
| DefRedecorate (k : nat) (name : string) (d : deco).   (* [K.name = decorator(K.name)] after the class was created *)

(** building the namespace: accessors of one property are combined into one property object *)
(** the property an accessor is attached to: the one being built in this class body, or - for
    [@Base.p.setter] - the one that base shows under that name.  The decorator expression is
    evaluated before the contract decorators below it are constructed. *)
Definition prop_start (w : world) (bases : list nat) (inherit : option nat) (ns : list (string * member)) (name : string)
           (k : mkind) : res (option member) :=
  match k with
  | MPlain | MStatic | MClassM => Ok None
  | _ =>
    match ns_get ns name with
    | Some m => Ok (Some m)
    | None =>
        match inherit with
        | Some j =>
            match nth_error bases j with
            | Some b => match class_getattr w b name with
                        | Some (MemProp g s d) => Ok (Some (MemProp g s d))
                        | _ => Err "AttributeError"
                        end
            | None => Err "NameError"
            end
        | None => Ok None
        end
    end
  end.

Definition ns_add (start : option member) (ns : list (string * member)) (name : string) (k : mkind) (f : nat)
  : list (string * member) :=
  match k with
  | MPlain | MStatic | MClassM => ns_set ns name (MemFunc k f)
  | MGet => ns_set ns name (match start with
                            | Some (MemProp _ s d) => MemProp (Some f) s d
                            | _ => MemProp (Some f) None None end)
  | MSet => ns_set ns name (match start with
                            | Some (MemProp g _ d) => MemProp g (Some f) d
                            | _ => MemProp None (Some f) None end)
  | MDel => ns_set ns name (match start with
                            | Some (MemProp g s _) => MemProp g s (Some f)
                            | _ => MemProp None None (Some f) end)
  end.

Fixpoint define_members (w : world) (bases : list nat) (ms : list mdecl) (ns : list (string * member))
  : res (world * list (string * member)) :=
  match ms with
  | [] => Ok (w, ns)
  | m :: rest =>
      start <- prop_start w bases (md_inherit m) ns (md_name m) (md_kind m) ;;
      r <- define_function w (md_sig m) (md_async m) (md_decos m) ;;
      define_members (fst r) bases rest (ns_add start ns (md_name m) (md_kind m) (snd r))
  end.

(** *** [_decorate_namespace_function] / [_decorate_namespace_property] for one function *)
Definition lists_of_checker (w : world) (ch : option nat) : list ref * list snapshot * list contract :=
  match ch with
  | Some c => match get_func w c with
              | Some f => (match fo_pre f with Some r => group_refs w r | None => [] end,
                           match fo_snaps f with Some r => snapshots_of w r | None => [] end,
                           match fo_post f with Some r => contracts_of w r | None => [] end)
              | None => ([], [], [])
              end
  | None => ([], [], [])
  end.

(** what one base contributes for accessor [acc] of member [key]: None if the base does not have it *)
Definition base_function (w : world) (base : nat) (key : string) (acc : mkind) : option (option nat) :=
  match class_getattr w base key with
  | None => None
  | Some (MemFunc _ f) => match acc with MGet | MSet | MDel => None | _ => Some (Some f) end
  | Some (MemProp g s d) =>
      match acc with
      | MGet => option_map Some g | MSet => option_map Some s | MDel => option_map Some d
      | _ => Some None                       (* a property where a function is defined: no checker is found *)
      end
  | Some (MemSlot _) => Some None            (* inherited from object: the base "has" it, no contracts *)
  end.

Fixpoint collect_bases (w : world) (bases : list nat) (key : string) (acc : mkind)
  : bool * list ref * list snapshot * list contract :=
  match bases with
  | [] => (false, [], [], [])
  | b :: rest =>
      let '(have, gs, ss, ps) := collect_bases w rest key acc in
      match base_function w b key acc with
      | None => (have, gs, ss, ps)
      | Some bf =>
          let '(g1, s1, p1) := lists_of_checker w (match bf with Some f => find_checker w f | None => None end) in
          (true, g1 ++ gs, s1 ++ ss, p1 ++ ps)
      end
  end.

Fixpoint dedupe_snaps (l : list snapshot) (seen : list Z) : list snapshot :=
  match l with
  | [] => []
  | s :: r => if existsb (Z.eqb (sid s)) seen then dedupe_snaps r seen else s :: dedupe_snaps r (sid s :: seen)
  end.

Fixpoint has_dup (l : list string) : bool :=
  match l with [] => false | x :: r => str_in x r || has_dup r end.

Definition is_ctor (key : string) : bool := String.eqb key "__init__" || String.eqb key "__new__".

(** the groups inherited from the bases are copied into list objects of their own ([_collapse_preconditions]): a
    precondition appended later to a group of this function does not reach the bases *)
Fixpoint copy_groups (w : world) (gs : list ref) : world * list ref :=
  match gs with
  | [] => (w, [])
  | g :: r =>
      let '(w1, g') := alloc w (deref w g) in
      let '(w2, r') := copy_groups w1 r in
      (w2, g' :: r')
  end.

(** returns the (possibly new) function object to store in the namespace *)
Definition decorate_namespace_fn (w : world) (bases : list nat) (dbc_base : bool) (key : string) (acc : mkind) (f : nat)
  : res (world * nat) :=
  let own_checker := find_checker w f in
  let '(own_g, own_s, own_p) := lists_of_checker w own_checker in
  r <- (if is_ctor key then Ok ([], own_g, own_s, own_p)
        else
          let '(have0, bg, bs, bp) := collect_bases w bases key acc in
          (* [icontract.DBC] named as a base: it "has" every attribute of [object], without contracts *)
          let have := have0 || (dbc_base && str_in key object_slots
                                && match acc with MGet | MSet | MDel => false | _ => true end) in
          if is_nil bg && have && negb (is_nil own_g) then Err "TypeError"      (* cannot weaken *)
          else
            let snaps := dedupe_snaps (bs ++ own_s) [] in
            if has_dup (map sname snaps) then Err "ValueError"
            else Ok (bg, own_g, snaps, bp ++ own_p)) ;;
  let '(bgs, ogs, ss, ps) := r in
  if is_nil (bgs ++ ogs) && is_nil ps then Ok (w, f)
  else
    c <- (match own_checker with
          | Some ch => Ok (w, ch, f)
          | None => x <- decorate_with_checker w f ;; Ok (fst x, snd x, snd x)
          end) ;;
    let '(w1, ch, result) := c in
    match get_func w1 ch with
    | None => Err "KeyError"
    | Some chf =>
        (* the merged lists are new list objects assigned to the checker's attributes *)
        let '(w1c, bgs') := copy_groups w1 bgs in
        let '(w2, rp) := alloc w1c (map IGroup (bgs' ++ ogs)) in
        let '(w3, rs) := alloc w2 (map ISnapshot ss) in
        let '(w4, rq) := alloc w3 (map IContract ps) in
        Ok (set_func w4 ch {| fo_role := fo_role chf; fo_wrapped := fo_wrapped chf; fo_pre := Some rp;
                              fo_snaps := Some rs; fo_post := Some rq; fo_sig := fo_sig chf;
                              fo_async := fo_async chf; fo_owner := fo_owner chf |},
            result)
    end.

Definition decorate_opt (w : world) (bases : list nat) (dbc_base : bool) (key : string) (acc : mkind) (f : option nat)
  : res (world * option nat) :=
  match f with
  | None => Ok (w, None)
  | Some x =>
      (* an accessor that is the very function of a base's property (the setter when only the deleter
         is re-defined with [@Base.p.deleter]) already carries the contracts of the hierarchy: it is
         left alone, the base uses the same object *)
      if existsb (fun b => match base_function w b key acc with
                           | Some (Some y) => Nat.eqb x y
                           | _ => false
                           end) bases
      then Ok (w, Some x)
      else r <- decorate_namespace_fn w bases dbc_base key acc x ;; Ok (fst r, Some (snd r))
  end.

Fixpoint dbc_decorate_members (w : world) (bases : list nat) (dbc_base : bool) (todo ns : list (string * member))
  : res (world * list (string * member)) :=
  match todo with
  | [] => Ok (w, ns)
  | (key, MemFunc k f) :: rest =>
      r <- decorate_namespace_fn w bases dbc_base key k f ;;
      dbc_decorate_members (fst r) bases dbc_base rest (ns_set ns key (MemFunc k (snd r)))
  | (key, MemProp g s d) :: rest =>
      rg <- decorate_opt w bases dbc_base key MGet g ;;
      rs <- decorate_opt (fst rg) bases dbc_base key MSet s ;;
      rd <- decorate_opt (fst rs) bases dbc_base key MDel d ;;
      dbc_decorate_members (fst rd) bases dbc_base rest (ns_set ns key (MemProp (snd rg) (snd rs) (snd rd)))
  | _ :: rest => dbc_decorate_members w bases dbc_base rest ns
  end.

(** *** [_collapse_invariants] *)
Definition base_has_invariants (w : world) (bases : list nat) : bool :=
  existsb (fun b => match class_inv w b LInv with Some _ => true | None => false end) bases.

Definition collapse_invariants (w : world) (bases : list nat) (which : inv_list) : world * option ref :=
  let merged := flat_map (fun b => class_invs w b which) bases in
  if negb (is_nil merged) || base_has_invariants w bases
  then let '(w1, r) := alloc w (map IContract merged) in (w1, Some r)
  else (w, None).

(** *** [add_invariant_checks] *)
Definition is_dunder (n : string) : bool :=
  Nat.ltb 4 (String.length n) && String.eqb (substring 0 2 n) "__"
  && String.eqb (substring (String.length n - 2) 2 n) "__".
Definition is_private (n : string) : bool := String.eqb (substring 0 1 n) "_" && negb (is_dunder n).

Fixpoint already_inv_wrapped (w : world) (fuel : nat) (cur : nat) : bool :=
  match fuel with
  | 0 => false
  | S fuel' =>
      match get_func w cur with
      | None => false
      | Some f =>
          match fo_role f with
          | FInvWrap _ | FNewWrap => true
          | _ => match fo_wrapped f with Some nxt => already_inv_wrapped w fuel' nxt | None => false end
          end
      end
  end.

Definition decorate_with_invariants (w : world) (f : nat) (is_init : bool) : world * nat :=
  if already_inv_wrapped w (S (List.length (w_funcs w))) f then (w, f)
  else match wrap w (FInvWrap is_init) f with Some r => r | None => (w, f) end.

Definition decorate_inv_opt (w : world) (f : option nat) : world * option nat :=
  match f with
  | None => (w, None)
  | Some x => let '(w1, y) := decorate_with_invariants w x false in (w1, Some y)
  end.

(** names visible on the class: own and inherited namespaces, then [object]'s slots *)
Definition dir_names (w : world) (k : nat) : list string :=
  let names := flat_map (fun c => match get_class w c with Some co => map fst (co_ns co) | None => [] end) (mro_of w k) in
  fold_left (fun acc n => if str_in n acc then acc else acc ++ [n]) (names ++ object_slots) [].

(** where a class only has a slot wrapper of [object], the checks go around a method created on demand which
    passes the call on ([super(cls, self).<name>(...)]) *)
Definition slot_function (w : world) (name : string) : world * nat :=
  add_func w {| fo_role := FPassOn; fo_wrapped := None; fo_pre := None; fo_snaps := None; fo_post := None;
                fo_sig := {| posonly := [{| pname := "self"; pdefault := None |}]; poskw := [];
                             varpos := Some "args"; kwonly := []; varkw := Some "kwargs" |};
                fo_async := false; fo_owner := List.length (w_funcs w) |}.

Definition class_ns_set (w : world) (k : nat) (name : string) (m : member) : world :=
  match get_class w k with
  | Some c => set_class w k {| co_name := co_name c; co_bases := co_bases c; co_mro := co_mro c; co_meta := co_meta c;
                               co_ns := ns_set (co_ns c) name m; co_inv := co_inv c; co_inv_call := co_inv_call c;
                               co_inv_set := co_inv_set c; co_last_check_on := co_last_check_on c |}
  | None => w
  end.

Definition in_own_ns (w : world) (k : nat) (name : string) : bool :=
  match get_class w k with
  | Some c => match ns_get (co_ns c) name with Some _ => true | None => false end
  | None => false
  end.

(** a member that is merely inherited and already carries the checks is not copied into the class
    (a copy would shadow the classes further along the resolution order) *)
Definition class_ns_set_if (w : world) (k : nat) (name : string) (changed : bool) (m : member) : world :=
  if changed || in_own_ns w k name then class_ns_set w k name m else w.

Definition opt_nat_eqb (a b : option nat) : bool :=
  match a, b with Some x, Some y => Nat.eqb x y | None, None => true | _, _ => false end.

Definition has_own_new (w : world) (k : nat) : bool :=
  match class_getattr w k "__new__" with Some (MemFunc _ _) => true | _ => false end.

(** member selection for one name *)
Definition wrap_member (w : world) (k : nat) (name : string) : world :=
  if str_in name ["__new__"; "__repr__"; "__getattribute__"; "__init__"] then w else
  let call_wanted := negb (is_nil (class_invs w k LCall)) in
  let set_wanted := negb (is_nil (class_invs w k LSet)) in
  if negb (String.eqb name "__setattr__") && negb call_wanted then w else
  if String.eqb name "__setattr__" && negb set_wanted then w else
  if is_private name then w else
  match class_getattr w k name with
  | Some (MemFunc MPlain f) =>
      let '(w1, f') := decorate_with_invariants w f false in
      class_ns_set_if w1 k name (negb (Nat.eqb f f')) (MemFunc MPlain f')
  | Some (MemSlot _) =>
      let '(w0, f) := slot_function w name in
      let '(w1, f') := decorate_with_invariants w0 f false in class_ns_set w1 k name (MemFunc MPlain f')
  | Some (MemProp g s d) =>
      let '(w1, g') := decorate_inv_opt w g in
      let '(w2, s') := decorate_inv_opt w1 s in
      let '(w3, d') := decorate_inv_opt w2 d in
      class_ns_set_if w3 k name (negb (opt_nat_eqb g g' && opt_nat_eqb s s' && opt_nat_eqb d d')) (MemProp g' s' d')
  | _ => w                                   (* class methods, static methods, anything else *)
  end.

Definition wrap_constructor (w : world) (k : nat) : world :=
  match class_getattr w k "__init__" with
  | Some (MemFunc MPlain f) =>
      let '(w1, f') := decorate_with_invariants w f true in
      class_ns_set_if w1 k "__init__" (negb (Nat.eqb f f')) (MemFunc MPlain f')
  | Some (MemSlot _) =>
      if has_own_new w k
      then (* optimised classes (named tuples ...): the class's own __new__ is wrapped instead *)
        match class_getattr w k "__new__" with
        | Some (MemFunc kd f) =>
            if already_inv_wrapped w (S (List.length (w_funcs w))) f then w
            else match wrap w FNewWrap f with
                 | Some (w1, f') => class_ns_set w1 k "__new__" (MemFunc kd f')
                 | None => w
                 end
        | _ => w
        end
      else
        let '(w0, f) := slot_function w "__init__" in
        let '(w1, f') := decorate_with_invariants w0 f true in class_ns_set w1 k "__init__" (MemFunc MPlain f')
  | _ => w
  end.

Definition add_invariant_checks (w : world) (k : nat) : world :=
  let w1 := wrap_constructor w k in
  fold_left (fun acc name => wrap_member acc k name) (dir_names w1 k) w1.

(** *** the [invariant] class decorator *)
Definition class_set_invs (w : world) (k : nat) (a b c : option ref) : world :=
  match get_class w k with
  | Some co => set_class w k {| co_name := co_name co; co_bases := co_bases co; co_mro := co_mro co;
                                co_meta := co_meta co; co_ns := co_ns co; co_inv := a; co_inv_call := b;
                                co_inv_set := c; co_last_check_on := co_last_check_on co |}
  | None => w
  end.

Definition apply_invariant (w : world) (k : nat) (d : idecl) : world :=
  if negb (id_enabled d) then w else
  let w1 :=
      match class_inv w k LInv with
      | Some _ => w
      | None =>
          let '(wa, r1) := alloc w [] in
          let '(wb, r2) := alloc wa [] in
          let '(wc, r3) := alloc wb [] in
          class_set_invs wc k (Some r1) (Some r2) (Some r3)
      end in
  match class_inv w1 k LInv, class_inv w1 k LCall, class_inv w1 k LSet with
  | Some r1, Some r2, Some r3 =>
      let w2 := heap_append w1 r1 (IContract (id_contract d)) in
      let w3 := if on_call (id_check_on d) then heap_append w2 r2 (IContract (id_contract d)) else w2 in
      let w4 := if on_setattr (id_check_on d) then heap_append w3 r3 (IContract (id_contract d)) else w3 in
      add_invariant_checks w4 k
  | _, _, _ => w1
  end.

(** *** a class statement *)
Fixpoint inv_construction_error (ds_top_first : list idecl) : option string :=
  match ds_top_first with
  | [] => None
  | d :: r => match id_invalid d with
              | Some e => if id_enabled d then Some e else inv_construction_error r
              | None => inv_construction_error r
              end
  end.

Definition dead_class (k : nat) : cobj :=
  {| co_name := k; co_bases := []; co_mro := []; co_meta := false; co_ns := []; co_inv := None; co_inv_call := None;
     co_inv_set := None; co_last_check_on := None |}.
Definition is_live (w : world) (k : nat) : bool :=
  match get_class w k with Some c => negb (is_nil (co_mro c)) | None => false end.

Definition define_class (w : world) (d : cdecl) : res world :=
  match inv_construction_error (rev (cd_invs d)) with Some e => Err e | None =>
  if negb (forallb (is_live w) (cd_bases d)) then Err "NameError" else
  r <- define_members w (cd_bases d) (cd_members d) [] ;;
  let '(w1, ns) := r in
  let meta := cd_dbc d || existsb (fun b => match get_class w1 b with Some c => co_meta c | None => false end) (cd_bases d) in
  let k := List.length (w_classes w1) in
  match compute_mro w1 k (cd_bases d) with
  | None =>
      (* the metaclass decorates the namespace before [type.__new__] linearises the bases: an error of the
         inherited contracts surfaces before the TypeError of an inconsistent hierarchy *)
      match (if meta then dbc_decorate_members w1 (cd_bases d) (cd_dbc d) ns ns else Ok (w1, ns)) with
      | Err e => Err e
      | Ok _ => Err "TypeError"
      end
  | Some mro =>
      r2 <- (if meta
             then
               let '(wa, i1) := collapse_invariants w1 (cd_bases d) LInv in
               let '(wb, i2) := collapse_invariants wa (cd_bases d) LCall in
               let '(wc, i3) := collapse_invariants wb (cd_bases d) LSet in
               x <- dbc_decorate_members wc (cd_bases d) (cd_dbc d) ns ns ;;
               Ok (fst x, snd x, i1, i2, i3)
             else Ok (w1, ns, None, None, None)) ;;
      let '(w2, ns2, i1, i2, i3) := r2 in
      let w3 := {| w_heap := w_heap w2; w_funcs := w_funcs w2;
                   w_classes := w_classes w2 ++ [{| co_name := k; co_bases := cd_bases d; co_mro := mro;
                                                    co_meta := meta; co_ns := ns2; co_inv := i1; co_inv_call := i2;
                                                    co_inv_set := i3; co_last_check_on := None |}];
                   w_registered := w_registered w2; w_module := w_module w2 |} in
      let w4 := if meta
                then (match class_inv w3 k LInv with Some _ => add_invariant_checks w3 k | None => w3 end)
                else w3 in
      let w5 := if meta
                then {| w_heap := w_heap w4; w_funcs := w_funcs w4; w_classes := w_classes w4;
                        w_registered := w_registered w4 ++ [k]; w_module := w_module w4 |}
                else w4 in
      Ok (fold_left (fun acc i => apply_invariant acc k i) (cd_invs d) w5)
  end
  end.

Definition step_def (w : world) (op : defop) : res world :=
  match op with
  | DefFunction m =>
      r <- define_function w (md_sig m) (md_async m) (md_decos m) ;;
      let w1 := fst r in
      Ok {| w_heap := w_heap w1; w_funcs := w_funcs w1; w_classes := w_classes w1; w_registered := w_registered w1;
            w_module := w_module w1 ++ [snd r] |}
  | DefClass c => define_class w c
  | DefRedecorate k name d =>
      if negb (is_live w k) then Err "NameError" else      (* the class statement had raised: the name is unbound *)
      match class_getattr w k name with
      | Some (MemFunc MPlain f) =>
          r <- apply_deco w f d ;;
          Ok (class_ns_set (fst r) k name (MemFunc MPlain (snd r)))
      | _ => Err "AttributeError"
      end
  end.

(** a definition that raises binds nothing; a failed class statement leaves a dead slot so that
    classes keep the numbers of their statements *)
Definition fail_def (w : world) (op : defop) : world :=
  match op with
  | DefFunction _ | DefRedecorate _ _ _ => w
  | DefClass _ => {| w_heap := w_heap w; w_funcs := w_funcs w;
                     w_classes := w_classes w ++ [dead_class (List.length (w_classes w))];
                     w_registered := w_registered w; w_module := w_module w |}
  end.

Fixpoint run_defs (w : world) (ops : list defop) : world * list (option string) :=
  match ops with
  | [] => (w, [])
  | op :: rest =>
      match step_def w op with
      | Ok w' => let '(wf, errs) := run_defs w' rest in (wf, None :: errs)
      | Err e => let '(wf, errs) := run_defs (fail_def w op) rest in (wf, Some e :: errs)
      end
  end.
