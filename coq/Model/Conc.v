(** * Conc: several threads / asyncio tasks, each running in its own context.

    The in-progress variable is a [contextvars.ContextVar] whose value is an immutable set that is
    replaced, never mutated.  A task or thread is created with a context that is either fresh
    (plain thread) or a copy of its creator's context at that moment (asyncio task,
    [copy_context().run], [asyncio.to_thread]); a copy copies the *mapping* variable -> value.
    A world is a list of tasks, each with its own value of the variable, the program it still has
    to run (Model/Run.v) and what it has shown so far; a schedule creates tasks, advances a chosen
    task to its next suspension point and cancels tasks at their suspension point. *)
From Coq Require Import List ZArith Bool Arith Lia.
From ICV Require Import Run.
Import ListNotations.

(** run until the next suspension point (or the end) *)
Inductive paused (A : Type) :=
| Finished (out : outcome A)
| AtAwait (pt : nat) (resume : prog A) (cancel : Z -> prog A).
Arguments Finished {A} out.
Arguments AtAwait {A} pt resume cancel.

Fixpoint run_to_await {A} (m : prog A) (s : kset) : list event * paused A * kset :=
  match m with
  | Ret a => ([], Finished (ORet a), s)
  | Raise x => ([], Finished (OExn x), s)
  | GetP k => run_to_await (k s) s
  | SetP s' k => run_to_await k s'
  | Emit ev k => match run_to_await k s with (t, r, s') => (ev :: t, r, s') end
  | Suspend pt r c => ([], AtAwait pt r c, s)
  end.

Inductive inherit := Fresh | CopyOfCreator.

Record task := {
  tk_value : kset;                 (* the in-progress variable in this task's context *)
  tk_rest : option (paused bool);  (* None: not started; Some: where it stands *)
  tk_start : prog bool;            (* the call it makes *)
  tk_trace : list event }.

Inductive sched_op :=
| Spawn (creator : option nat) (h : inherit) (call : prog bool)   (* creator None = the main thread, idle *)
| Advance (t : nat)              (* run task t to its next suspension point *)
| Cancel (t : nat) (e : Z).      (* throw e into task t at its suspension point and run on *)

Definition world := list task.

Fixpoint update {A} (l : list A) (i : nat) (x : A) : list A :=
  match l, i with
  | [], _ => []
  | _ :: r, 0 => x :: r
  | y :: r, S i' => y :: update r i' x
  end.

Definition spawn_value (w : world) (creator : option nat) (h : inherit) : kset :=
  match h, creator with
  | Fresh, _ => []
  | CopyOfCreator, None => []
  | CopyOfCreator, Some c => match nth_error w c with Some tk => tk_value tk | None => [] end
  end.

Definition continue_with (tk : task) (m : prog bool) : task :=
  match run_to_await m (tk_value tk) with
  | (tr, p, s') => {| tk_value := s'; tk_rest := Some p; tk_start := tk_start tk; tk_trace := tk_trace tk ++ tr |}
  end.

Definition advance_task (tk : task) : task :=
  match tk_rest tk with
  | None => continue_with tk (tk_start tk)
  | Some (AtAwait _ r _) => continue_with tk r
  | Some (Finished _) => tk
  end.

Definition cancel_task (e : Z) (tk : task) : task :=
  match tk_rest tk with
  | Some (AtAwait _ _ c) => continue_with tk (c e)
  | _ => tk
  end.

Definition on_task (w : world) (t : nat) (f : task -> task) : world :=
  match nth_error w t with
  | None => w
  | Some tk => update w t (f tk)
  end.

Definition step (w : world) (op : sched_op) : world :=
  match op with
  | Spawn creator h call =>
      w ++ [{| tk_value := spawn_value w creator h; tk_rest := None; tk_start := call; tk_trace := [] |}]
  | Advance t => on_task w t advance_task
  | Cancel t e => on_task w t (cancel_task e)
  end.

Definition run_world (ops : list sched_op) : world := fold_left step ops [].

(** what a task has shown: its trace and, if it has finished, its outcome *)
Definition task_obs (tk : task) : list event * option (outcome bool) :=
  (tk_trace tk, match tk_rest tk with Some (Finished o) => Some o | _ => None end).
