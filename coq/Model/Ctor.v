(** * Ctor: constructor chains.  A single-inheritance chain of classes on [icontract.DBC]; class [i]
    derives from class [i - 1].  Each class may declare invariants and may define [__init__], whose
    body sets attributes (the object's *stage* grows) and may call [super().__init__()] anywhere.

    The library wraps the constructor a class shows (its own or the inherited one) as soon as the
    class has invariants (own or inherited).  The wrapper marks the instance as under construction,
    runs the constructor, and then evaluates all invariants of the *instance's* class.  A wrapper
    that finds the instance already marked - the constructor of a base class called through
    [super().__init__()] - runs the constructor bare: the object is not finished, the outermost
    constructor will check it. *)
From Coq Require Import List Arith Bool.
Import ListNotations.

Inductive iact :=
| ASuper                (* super().__init__() *)
| AStage (n : nat).     (* attributes are assigned: the object reaches stage n *)

Record cclass := { c_invs : list nat;                 (* ids of the invariants declared on the class *)
                   c_init : option (list iact) }.     (* its own __init__, if it defines one *)
Definition chain := list cclass.
Definition no_class : cclass := {| c_invs := []; c_init := None |}.

(** the class at or below [i] whose [__init__] a lookup on class [i] finds *)
Fixpoint definer (ch : chain) (i : nat) : option nat :=
  match c_init (nth i ch no_class) with
  | Some _ => Some i
  | None => match i with 0 => None | S j => definer ch j end
  end.

(** invariants of class [k], inherited first *)
Definition all_invs (ch : chain) (k : nat) : list nat := flat_map c_invs (firstn (S k) ch).
Definition has_invs (ch : chain) (i : nat) : bool := negb (match all_invs ch i with [] => true | _ => false end).

Inductive cevent :=
| EInit (cls : nat) (stage : nat)     (* the body of class cls's __init__ starts *)
| EInv (id : nat) (stage : nat).      (* an invariant is evaluated on the object at this stage *)

(** running the constructor found on class [i], bare; [fuel] bounds the depth of super calls *)
Fixpoint run_body (fuel : nat) (ch : chain) (i : nat) (stage : nat) : list cevent * nat :=
  match fuel with
  | 0 => ([], stage)
  | S fuel' =>
      match definer ch i with
      | None => ([], stage)                       (* object.__init__ *)
      | Some d =>
          match c_init (nth d ch no_class) with
          | None => ([], stage)
          | Some script =>
              fold_left (fun acc a =>
                           let '(ev, st) := acc in
                           match a with
                           | AStage n => (ev, n)
                           | ASuper => match d with
                                       | 0 => (ev, st)
                                       | S j => let '(ev', st') := run_body fuel' ch j st in (ev ++ ev', st')
                                       end
                           end) script ([EInit d stage], stage)
          end
      end
  end.

(** evaluation of the invariants in order until the first falsy one *)
Fixpoint check_invs (V : nat -> nat -> bool) (ids : list nat) (stage : nat) : list cevent * option nat :=
  match ids with
  | [] => ([], None)
  | id :: r => if V id stage then let '(ev, v) := check_invs V r stage in (EInv id stage :: ev, v)
               else ([EInv id stage], Some id)
  end.

(** [K()] for the class [k] of the chain; [V id stage]: does invariant [id] hold of an object at [stage] *)
Definition construct (ch : chain) (V : nat -> nat -> bool) (k : nat) : list cevent * option nat :=
  let '(ev, final) := run_body (S (List.length ch)) ch k 0 in
  if has_invs ch k
  then let '(ev', v) := check_invs V (all_invs ch k) final in (ev ++ ev', v)
  else (ev, None).
