(** C09 (what a violation raises) and C13 (async = sync) on the checker model. *)
From ICV Require Import Base Bind Checker CheckerSpec CheckerFrame.
Open Scope string_scope.
Open Scope list_scope.

(** ** C09: dispatch on the [error] argument *)
Section Dispatch.
  Variables (U : user) (r : role) (c : contract) (resolved : dict) (st : store).

  Definition error_run := create_violation_error U r c resolved st.

  Lemma dispatch_none : cerror c = ENone -> snd (fst error_run) = inl (XViolation (cid c)).
  Proof.
    unfold error_run, create_violation_error. intros ->.
    destruct (clambda c); [destruct (select _ _ _)|]; reflexivity.
  Qed.

  Lemma dispatch_class k : cerror c = EClass k -> snd (fst error_run) = inl (XClass k (cid c)).
  Proof.
    unfold error_run, create_violation_error. intros ->.
    destruct (clambda c); [destruct (select _ _ _)|]; reflexivity.
  Qed.

  Lemma dispatch_instance t : cerror c = EInstance t -> error_run = ([], inl (XObj t), st).
  Proof. unfold error_run, create_violation_error. intros ->. reflexivity. Qed.

  (** a factory is called exactly once, with exactly the values it names; what it returns is raised *)
  Lemma dispatch_factory eargs emand :
    cerror c = EFactory eargs emand ->
    match select eargs emand resolved with
    | None => error_run = ([], inr (XLib "TypeError" None), st)
    | Some kw =>
        kw = filter (fun kv => str_in (fst kv) eargs) resolved
        /\ error_run = ([EvError (cid c) kw],
                        match u_error U (cid c) kw with
                        | ERetExn t => inl (XObj t)
                        | ERetOther => inr (XLib "TypeError" None)
                        | ERaise e => inr (XObj e)
                        end, st)
    end.
  Proof.
    unfold error_run, create_violation_error. intros ->.
    destruct (select eargs emand resolved) as [kw|] eqn:E; [|reflexivity].
    split.
    - unfold select in E. destruct (forallb (dict_has resolved) emand); [|discriminate].
      injection E as <-. reflexivity.
    - unfold bindM, emit. cbn. destruct (u_error U (cid c) kw); reflexivity.
  Qed.

  (** a factory naming a value the call does not provide is a TypeError, and it is not called *)
  Lemma factory_missing eargs emand :
    cerror c = EFactory eargs emand -> forallb (dict_has resolved) emand = false ->
    error_run = ([], inr (XLib "TypeError" None), st).
  Proof.
    intros He Hm. pose proof (dispatch_factory eargs emand He) as H. unfold select in H. rewrite Hm in H. exact H.
  Qed.
End Dispatch.

(** ** C13: the async wrapper is the sync wrapper with awaiting *)
Definition plainify (c : contract) : contract :=
  {| cid := cid c; cargs := cargs c; cmandatory := cmandatory c; ckind_ := CKPlain;
     cerror := cerror c; clambda := clambda c |}.
Definition plainify_snap (s : snapshot) : snapshot :=
  {| sid := sid s; sname := sname s; sargs := sargs s; skind := CKPlain |}.

Lemma bindM_ext {A B} (m1 m2 : M A) (k1 k2 : A -> M B) :
  (forall st, m1 st = m2 st) -> (forall a st, k1 a st = k2 a st) ->
  forall st, bindM m1 k1 st = bindM m2 k2 st.
Proof.
  intros Hm Hk st. unfold bindM. rewrite Hm. destruct (m2 st) as [[t [a|x]] st1]; [rewrite Hk|]; reflexivity.
Qed.

Section Parity.
  Variable U : user.

  Lemma eval_condition_parity r cf c resolved st :
    eval_condition Async U r cf c resolved st = eval_condition Sync U r cf (plainify c) resolved st.
  Proof.
    unfold eval_condition. cbn [ckind_ plainify cargs cmandatory cid].
    rewrite andb_false_r. destruct (select (cargs c) (cmandatory c) resolved); [|reflexivity].
    destruct (ckind_ c); reflexivity.
  Qed.

  Lemma create_violation_error_plainify r c resolved st :
    create_violation_error U r c resolved st = create_violation_error U r (plainify c) resolved st.
  Proof. reflexivity. Qed.

  Lemma eval_group_parity g resolved : forall st,
    eval_group Async U g resolved st = eval_group Sync U (map plainify g) resolved st.
  Proof.
    induction g as [|c rest IH]; intros st; [reflexivity|].
    cbn [eval_group map]. apply bindM_ext.
    - intros st0. apply eval_condition_parity.
    - intros b st0. destruct b; [apply IH | reflexivity].
  Qed.

  Lemma eval_groups_parity gs resolved : forall st,
    eval_groups Async U gs resolved st = eval_groups Sync U (map (map plainify) gs) resolved st.
  Proof.
    induction gs as [|g rest IH]; intros st; [reflexivity|].
    cbn [eval_groups map]. apply bindM_ext.
    - intros st0. apply eval_group_parity.
    - intros v st0. destruct v as [x|]; [|reflexivity].
      destruct rest as [|g' rest']; [reflexivity|]. apply IH.
  Qed.

  Lemma eval_posts_parity ps resolved : forall st,
    eval_posts Async U ps resolved st = eval_posts Sync U (map plainify ps) resolved st.
  Proof.
    induction ps as [|c rest IH]; intros st; [reflexivity|].
    cbn [eval_posts map]. apply bindM_ext.
    - intros st0. apply eval_condition_parity.
    - intros b st0. destruct b; [apply IH | reflexivity].
  Qed.

  Lemma capture_one_parity s resolved st :
    capture_one Async U s resolved st = capture_one Sync U (plainify_snap s) resolved st.
  Proof.
    unfold capture_one. cbn [skind plainify_snap sargs sid].
    destruct (select (sargs s) (sargs s) resolved); [|reflexivity].
    destruct (skind s); reflexivity.
  Qed.

  Lemma capture_old_parity snaps resolved : forall old st,
    capture_old Async U snaps resolved old st = capture_old Sync U (map plainify_snap snaps) resolved old st.
  Proof.
    induction snaps as [|s rest IH]; intros old st; [reflexivity|].
    cbn [capture_old map]. apply bindM_ext.
    - intros st0. apply capture_one_parity.
    - intros v st0. apply IH.
  Qed.

  Lemma is_nil_map {A B} (f : A -> B) l : is_nil (map f l) = is_nil l.
  Proof. destruct l; reflexivity. Qed.

  (** An async callable awaited = the sync callable whose coroutine conditions/captures are
      replaced by their awaited values: same events, same outcome, same store. *)
  Theorem async_is_sync_awaited s pre snaps post args kwargs st :
    checker_call Async U s pre snaps post args kwargs st
    = checker_call Sync U s (map (map plainify) pre) (map plainify_snap snaps) (map plainify post)
                   args kwargs st.
  Proof.
    unfold checker_call. rewrite !is_nil_map.
    destruct (dict_has kwargs "_ARGS" || dict_has kwargs "_KWARGS"); [reflexivity|].
    destruct (negb (is_nil post) && _); [reflexivity|].
    apply bindM_ext; [apply eval_groups_parity|].
    intros v st0. destruct v as [x|]; [reflexivity|].
    apply bindM_ext.
    - intros st1. destruct (negb (is_nil post) && negb (is_nil snaps)); [|reflexivity].
      apply bindM_ext; [apply capture_old_parity | reflexivity].
    - intros res1 st1. apply bindM_ext; [reflexivity|].
      intros v st2. destruct (is_nil post); [reflexivity|].
      apply bindM_ext; [apply eval_posts_parity | reflexivity].
  Qed.

  Lemma plainify_id c : ckind_ c = CKPlain -> plainify c = c.
  Proof. destruct c; cbn. intros ->. reflexivity. Qed.
  Lemma plainify_snap_id s : skind s = CKPlain -> plainify_snap s = s.
  Proof. destruct s; cbn. intros ->. reflexivity. Qed.

  Lemma map_id_on {A} (f : A -> A) l : (forall x, In x l -> f x = x) -> map f l = l.
  Proof.
    induction l as [|x l IH]; intros H; [reflexivity|]. cbn. rewrite (H x (or_introl eq_refl)), IH; auto.
    intros y Hy. apply H. right. exact Hy.
  Qed.

  (** With sync-valued conditions and captures the two wrappers are the same function. *)
  Theorem async_equals_sync s pre snaps post args kwargs st :
    (forall g c, In g pre -> In c g -> ckind_ c = CKPlain) ->
    (forall sn, In sn snaps -> skind sn = CKPlain) ->
    (forall c, In c post -> ckind_ c = CKPlain) ->
    checker_call Async U s pre snaps post args kwargs st
    = checker_call Sync U s pre snaps post args kwargs st.
  Proof.
    intros Hpre Hsn Hpost. rewrite async_is_sync_awaited.
    rewrite (map_id_on (map plainify) pre), (map_id_on plainify_snap snaps), (map_id_on plainify post); auto.
    - intros c Hc. apply plainify_id. auto.
    - intros sn Hs. apply plainify_snap_id. auto.
    - intros g Hg. apply map_id_on. intros c Hc. apply plainify_id. eauto.
  Qed.

  (** On a sync callable a coroutine condition is rejected without a truth test. *)
  Theorem sync_rejects_coroutine_condition r cf c resolved st :
    ckind_ c <> CKPlain ->
    exists t, eval_condition Sync U r cf c resolved st = (t, inr (XLib "ValueError" None), st)
              \/ eval_condition Sync U r cf c resolved st = (t, inr (XLib "TypeError" None), st).
  Proof.
    intros Hk. unfold eval_condition, bindM, emit, throw, ret.
    destruct (ckind_ c); [congruence| |]; destruct cf; cbn;
      destruct (select (cargs c) (cmandatory c) resolved); cbn; eauto.
  Qed.

  Theorem sync_rejects_coroutine_capture s resolved st :
    skind s <> CKPlain ->
    exists t, capture_one Sync U s resolved st = (t, inr (XLib "ValueError" None), st)
              \/ capture_one Sync U s resolved st = (t, inr (XLib "TypeError" None), st).
  Proof.
    intros Hk. unfold capture_one, bindM, emit, throw, ret.
    destruct (skind s); [congruence| |]; cbn;
      destruct (select (sargs s) (sargs s) resolved); cbn; eauto.
  Qed.
End Parity.
