(** C12: what a task or thread shows depends only on its own call, the value of the in-progress
    variable its context held when it was created, and the decisions taken at its own suspension
    points - not on the other tasks or on the interleaving. *)
From Coq Require Import List ZArith Bool Arith Lia.
From ICV Require Import Run Conc RunProofs.
Import ListNotations.

(** the decisions of a schedule that concern task [t]: advance ([None]) or cancel ([Some e]) *)
Fixpoint proj (ops : list sched_op) (n : nat) (t : nat) : list (option Z) :=
  match ops with
  | [] => []
  | Spawn _ _ _ :: r => proj r (S n) t
  | Advance t' :: r => if Nat.eqb t' t && Nat.ltb t n then None :: proj r n t else proj r n t
  | Cancel t' e :: r => if Nat.eqb t' t && Nat.ltb t n then Some e :: proj r n t else proj r n t
  end.

Definition decide (d : option Z) (tk : task) : task :=
  match d with None => advance_task tk | Some e => cancel_task e tk end.

Fixpoint solo (tk : task) (ds : list (option Z)) : task :=
  match ds with [] => tk | d :: r => solo (decide d tk) r end.

Lemma nth_error_update_same {A} (l : list A) i x : i < List.length l -> nth_error (update l i x) i = Some x.
Proof.
  revert i. induction l as [|y l IH]; intros [|i] H; cbn in *; try lia; auto. apply IH. lia.
Qed.

Lemma nth_error_update_other {A} (l : list A) i j x : i <> j -> nth_error (update l i x) j = nth_error l j.
Proof.
  revert i j. induction l as [|y l IH]; intros [|i] [|j] H; cbn; try congruence; auto.
Qed.

Lemma update_length {A} (l : list A) i x : List.length (update l i x) = List.length l.
Proof.
  revert i. induction l as [|y l IH]; intros [|i]; cbn; auto.
Qed.

Lemma on_task_length w t f : List.length (on_task w t f) = List.length w.
Proof. unfold on_task. destruct (nth_error w t); [apply update_length | reflexivity]. Qed.

Lemma on_task_same w t f tk : nth_error w t = Some tk -> nth_error (on_task w t f) t = Some (f tk).
Proof.
  intros H. unfold on_task. rewrite H. apply nth_error_update_same. apply nth_error_Some. congruence.
Qed.

Lemma on_task_other w t t' f : t <> t' -> nth_error (on_task w t f) t' = nth_error w t'.
Proof. intros H. unfold on_task. destruct (nth_error w t); [apply nth_error_update_other; exact H | reflexivity]. Qed.

(** Non-interference: whatever else is scheduled, a task that exists evolves by its own decisions only. *)
Theorem task_evolves_alone ops : forall w t tk,
  nth_error w t = Some tk ->
  nth_error (fold_left step ops w) t = Some (solo tk (proj ops (List.length w) t)).
Proof.
  induction ops as [|op ops IH]; intros w t tk H; cbn [fold_left proj]; [exact H|].
  assert (t < List.length w) as Hlt by (apply nth_error_Some; congruence).
  destruct op as [creator h call | t' | t' e].
  - cbn [step]. rewrite (IH _ t tk).
    + rewrite app_length. cbn. replace (List.length w + 1) with (S (List.length w)) by lia. reflexivity.
    + rewrite nth_error_app1; assumption.
  - cbn [step]. destruct (Nat.eqb t' t) eqn:E.
    + apply Nat.eqb_eq in E. subst t'. assert (Nat.ltb t (List.length w) = true) as -> by (apply Nat.ltb_lt; exact Hlt).
      cbn [andb solo decide]. rewrite (IH _ t (advance_task tk)); [rewrite on_task_length; reflexivity|].
      apply on_task_same. exact H.
    + cbn [andb]. apply Nat.eqb_neq in E. rewrite (IH _ t tk); [rewrite on_task_length; reflexivity|].
      rewrite on_task_other; assumption.
  - cbn [step]. destruct (Nat.eqb t' t) eqn:E.
    + apply Nat.eqb_eq in E. subst t'. assert (Nat.ltb t (List.length w) = true) as -> by (apply Nat.ltb_lt; exact Hlt).
      cbn [andb solo decide]. rewrite (IH _ t (cancel_task e tk)); [rewrite on_task_length; reflexivity|].
      apply on_task_same. exact H.
    + cbn [andb]. apply Nat.eqb_neq in E. rewrite (IH _ t tk); [rewrite on_task_length; reflexivity|].
      rewrite on_task_other; assumption.
Qed.

(** ** A task that is only ever advanced shows its sequential behaviour *)
Lemma run_to_await_seq {A} (m : prog A) : forall s,
  match run_to_await m s with
  | (tr, Finished o, s') => run_seq no_faults m s = (tr, o, s')
  | (tr, AtAwait _ r _, s') =>
      run_seq no_faults m s = match run_seq no_faults r s' with (tr2, o, s2) => (tr ++ tr2, o, s2) end
  end.
Proof.
  induction m as [a | x | k IH | s0 k IH | ev k IH | pt r IHr c IHc]; intros s; cbn.
  - reflexivity.
  - reflexivity.
  - apply IH.
  - apply IH.
  - specialize (IH s). destruct (run_to_await k s) as [[tr [o|pt r c]] s'].
    + rewrite IH. reflexivity.
    + rewrite IH. destruct (run_seq no_faults r s') as [[tr2 o] s2]. reflexivity.
  - destruct (run_seq no_faults r s) as [[tr2 o] s2]. reflexivity.
Qed.

(** where a task stands is consistent with running its call sequentially from its spawn value *)
Definition on_track (v0 : kset) (tk : task) : Prop :=
  match tk_rest tk with
  | None => tk_value tk = v0 /\ tk_trace tk = []
  | Some (Finished o) => run_seq no_faults (tk_start tk) v0 = (tk_trace tk, o, tk_value tk)
  | Some (AtAwait _ r _) =>
      run_seq no_faults (tk_start tk) v0
      = match run_seq no_faults r (tk_value tk) with (tr2, o, s2) => (tk_trace tk ++ tr2, o, s2) end
  end.

Lemma advance_on_track v0 tk : on_track v0 tk -> on_track v0 (advance_task tk) /\ tk_start (advance_task tk) = tk_start tk.
Proof.
  unfold on_track, advance_task, continue_with. destruct (tk_rest tk) as [[o|pt r c]|] eqn:E.
  - rewrite E. auto.
  - intros H. pose proof (run_to_await_seq r (tk_value tk)) as Hs.
    destruct (run_to_await r (tk_value tk)) as [[tr [o|pt' r' c']] s']; cbn; split; auto.
    + rewrite H, Hs. reflexivity.
    + rewrite H, Hs. destruct (run_seq no_faults r' s') as [[tr2 o] s2]. rewrite app_assoc. reflexivity.
  - intros [Hv Ht]. pose proof (run_to_await_seq (tk_start tk) (tk_value tk)) as Hs. rewrite Hv in *.
    destruct (run_to_await (tk_start tk) v0) as [[tr [o|pt' r' c']] s']; cbn; split; auto; rewrite Ht; cbn; exact Hs.
Qed.

Lemma solo_advances_on_track v0 n : forall tk,
  on_track v0 tk ->
  on_track v0 (solo tk (repeat None n)) /\ tk_start (solo tk (repeat None n)) = tk_start tk.
Proof.
  induction n as [|n IH]; intros tk H; cbn; [auto|].
  destruct (advance_on_track v0 tk H) as [H1 H2]. destruct (IH _ H1) as [H3 H4]. split; [exact H3 | congruence].
Qed.

(** Sequential verdict: a finished task that was never cancelled shows exactly what the same call
    shows when made alone from the value its context held at creation. *)
Theorem finished_task_is_sequential ops w t call v0 n o :
  nth_error w t = Some {| tk_value := v0; tk_rest := None; tk_start := call; tk_trace := [] |} ->
  proj ops (List.length w) t = repeat None n ->
  forall tk, nth_error (fold_left step ops w) t = Some tk ->
             tk_rest tk = Some (Finished o) ->
             run_seq no_faults call v0 = (tk_trace tk, o, tk_value tk).
Proof.
  intros Hw Hp tk Htk Hfin. rewrite (task_evolves_alone ops w t _ Hw) in Htk. injection Htk as <-.
  rewrite Hp in *.
  destruct (solo_advances_on_track v0 n {| tk_value := v0; tk_rest := None; tk_start := call; tk_trace := [] |}) as [H1 H2].
  { cbn. auto. }
  unfold on_track in H1. rewrite Hfin in H1. rewrite H2 in H1. exact H1.
Qed.
