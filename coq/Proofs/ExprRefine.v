(** The re-evaluator reproduces Python's evaluation.

    For every condition without comprehensions ([simple]), under every data model
    in which only callables can be called: if Python evaluates the expression to [v], the
    re-evaluator started from the same variable tables returns [v], ends in the same tables and
    records exactly the nodes Python evaluated, with the values Python computed, in the same order.
    Hence (outside comprehensions) it raises nothing, shows no value Python did not compute, misses
    no node Python evaluated, and evaluates no operand that Python's short-circuiting skipped. *)
From Coq Require Import List String ZArith Bool Arith Lia.
From ICV Require Import Expr.
Import ListNotations.
Open Scope string_scope.
Open Scope list_scope.

Scheme expr_mut := Induction for expr Sort Prop
with exprs_mut := Induction for exprs Sort Prop
with kwds_mut := Induction for kwds Sort Prop
with cmps_mut := Induction for cmps Sort Prop
with parts_mut := Induction for parts Sort Prop
with dpairs_mut := Induction for dpairs Sort Prop
with gens_mut := Induction for gens Sort Prop.
Combined Scheme expr_mutind from expr_mut, exprs_mut, kwds_mut, cmps_mut, parts_mut, dpairs_mut, gens_mut.

(** the fragment: no comprehension (their parts are visited on their own and the whole is re-compiled) *)
Fixpoint simple (e : expr) : bool :=
  match e with
  | EConst _ | EName _ | EOmit => true
  | EAttr e1 _ | EStar e1 | EUn _ e1 | ENamed _ e1 => simple e1
  | ESub a b | ESlice a b | EBin _ a b => simple a && simple b
  | ECall f xs ks => simple f && simple_l xs && simple_k ks
  | EBool _ es | EList es | ETuple es => simple_l es
  | ECmp l cs => simple l && simple_c cs
  | EIf a b c => simple a && simple b && simple c
  | EFStr ps => simple_p ps
  | EDict ds => simple_d ds
  | EComp _ _ _ _ => false
  end
with simple_l (es : exprs) : bool := match es with ENil => true | ECons e r => simple e && simple_l r end
with simple_k (ks : kwds) : bool := match ks with KNil => true | KCons _ e r => simple e && simple_k r end
with simple_c (cs : cmps) : bool := match cs with CNil => true | CCons _ e r => simple e && simple_c r end
with simple_p (ps : parts) : bool :=
  match ps with PNil => true | PLit _ r => simple_p r | PFmt e _ r => simple e && simple_p r end
with simple_d (ds : dpairs) : bool :=
  match ds with DNil => true | DCons k v r => simple k && simple v && simple_d r | DStar e r => simple e && simple_d r end.

Definition ups (s : gst val) : gst rval := (up (fst s), snd s).

(** ** generic facts about the monad *)
Lemma bind_ok {V A B} (m : GM V A) (k : A -> GM V B) s r :
  bindM m k s = Ok r -> exists a s1, m s = Ok (a, s1) /\ k a s1 = Ok r.
Proof. unfold bindM. destruct (m s) as [[a s1]|x]; [|discriminate]. intro H. exists a, s1. split; [reflexivity|exact H]. Qed.

Lemma bind_eq {V A B} (m : GM V A) (k : A -> GM V B) s a s1 :
  m s = Ok (a, s1) -> bindM m k s = k a s1.
Proof. unfold bindM. intros ->. reflexivity. Qed.

Lemma lift_ok {V A} (r : res A) (s : gst V) a s1 : lift r s = Ok (a, s1) -> r = Ok a /\ s1 = s.
Proof. unfold lift. destruct r; [|discriminate]. intro H. injection H as -> ->. split; reflexivity. Qed.

Lemma lift_eq {V A} (r : res A) (s : gst V) a : r = Ok a -> lift r s = Ok (a, s).
Proof. intros ->. reflexivity. Qed.

Lemma lookup_up m id : lookup (up m) id = option_map Some (lookup m id).
Proof. induction m as [|[k v] r IH]; cbn; [reflexivity|]. destruct (String.eqb k id); [reflexivity|exact IH]. Qed.

Lemma set_var_up m id v : set_var (up m) id (Some v) = up (set_var m id v).
Proof. induction m as [|[k w] r IH]; cbn; [reflexivity|]. destruct (String.eqb k id); cbn; [reflexivity|]. f_equal. exact IH. Qed.

Lemma all_some_map {A} (l : list A) : all_some (map Some l) = Some l.
Proof. induction l as [|a r IH]; cbn; [reflexivity|]. rewrite IH. reflexivity. Qed.

Lemma all_some_app {A} (l1 : list A) l2 : all_some (map Some l1 ++ l2) = match all_some l2 with Some r => Some (l1 ++ r) | None => None end.
Proof. induction l1 as [|a r IH]; cbn; [destruct (all_some l2); reflexivity|]. rewrite IH. destruct (all_some l2); reflexivity. Qed.

Definition upk (kv : list (string * val)) : list (string * rval) := map (fun p => (fst p, Some (snd p))) kv.

Lemma all_some_kw_up kv : all_some_kw (upk kv) = Some kv.
Proof.
  unfold all_some_kw.
  assert (E1 : map snd (upk kv) = map Some (map snd kv)).
  { unfold upk. induction kv as [|[k v] r IH]; cbn; [reflexivity|]. f_equal. exact IH. }
  assert (E2 : combine (map fst (upk kv)) (map snd kv) = kv).
  { clear E1. unfold upk. induction kv as [|[k v] r IH]; cbn; [reflexivity|]. f_equal. exact IH. }
  rewrite E1, all_some_map, E2. reflexivity.
Qed.

Definition upd (kvs : list (val * val)) : list (rval * rval) := map (fun p => (Some (fst p), Some (snd p))) kvs.

Lemma settle_upd P kvs : settle P (upd kvs) = upd kvs.
Proof. induction kvs as [|[k v] r IH]; cbn; [reflexivity|]. f_equal. exact IH. Qed.

Lemma dict_items_upd P kvs : dict_items P (upd kvs) = Some kvs.
Proof.
  unfold dict_items. rewrite settle_upd.
  assert (E1 : map fst (upd kvs) = map Some (map fst kvs)).
  { unfold upd. induction kvs as [|[k v] r IH]; cbn; [reflexivity|]. f_equal. exact IH. }
  assert (E2 : map snd (upd kvs) = map Some (map snd kvs)).
  { clear E1. unfold upd. induction kvs as [|[k v] r IH]; cbn; [reflexivity|]. f_equal. exact IH. }
  assert (E3 : combine (map fst kvs) (map snd kvs) = kvs).
  { clear E1 E2. induction kvs as [|[k v] r IH]; cbn; [reflexivity|]. f_equal. exact IH. }
  rewrite E1, E2, !all_some_map, E3. reflexivity.
Qed.

Section Refine.
Variable P : prims.
Hypothesis call_callable : forall f a k r, p_call P f a k = Ok r -> p_callable P f = true.

Definition Pe (e : expr) : Prop :=
  simple e = true -> forall i s v s', ev P i e s = Ok (v, s') -> rc P i e (ups s) = Ok (Some v, ups s').
Definition Pl (es : exprs) : Prop :=
  simple_l es = true ->
  (forall i s vs s', ev_args P i es s = Ok (vs, s') -> rc_args P i es (ups s) = Ok (map Some vs, ups s')) /\
  (forall b i s v s', ev_bool P b i es s = Ok (v, s') -> rc_bool P b i es false (ups s) = Ok (Some v, ups s')).
Definition Pk (ks : kwds) : Prop :=
  simple_k ks = true -> forall i s kv s', ev_kwds P i ks s = Ok (kv, s') -> rc_kwds P i ks (ups s) = Ok (upk kv, ups s').
Definition Pc (cs : cmps) : Prop :=
  simple_c cs = true -> forall left i s v s' result, ev_cmps P left i cs s = Ok (v, s') -> (cs = CNil -> result = VNone) ->
  rc_cmps P left i cs false result (ups s) = Ok (Some v, ups s').
Definition Pp (ps : parts) : Prop :=
  simple_p ps = true -> forall i s ss s', ev_parts P i ps s = Ok (ss, s') -> rc_parts P i ps (ups s) = Ok (Some ss, ups s').

Definition Pd (ds : dpairs) : Prop :=
  simple_d ds = true -> forall i s kvs s', ev_dpairs P i ds s = Ok (kvs, s') -> rc_dpairs P i ds (ups s) = Ok (upd kvs, ups s').

Ltac inv H := let a := fresh "a" in let s1 := fresh "s" in let E := fresh "E" in
  apply bind_ok in H; destruct H as (a & s1 & E & H).
Ltac split_simple H := repeat (apply andb_prop in H; let H2 := fresh "Hs" in destruct H as [H H2]).
Ltac done_ret H := unfold ret in H; injection H as <- <-.

Lemma record_ups i v s : @record rval i v (ups s) = Ok (tt, ups (fst s, snd s ++ [(i, v)])).
Proof. reflexivity. Qed.
Lemma record_val i v (s : gst val) : record i v s = Ok (tt, (fst s, snd s ++ [(i, v)])).
Proof. reflexivity. Qed.

(** the tail shared by most cases: record the value and return it *)
Lemma tail_ok i r (s : gst val) v s' :
  (record i r ;;; ret r) s = Ok (v, s') -> v = r /\ s' = (fst s, snd s ++ [(i, r)]).
Proof. unfold bindM, record, ret. intro H. injection H as <- <-. split; reflexivity. Qed.
Lemma tail_eq i r (s : gst val) :
  (@record rval i r ;;; ret (Some r)) (ups s) = Ok (Some r, ups (fst s, snd s ++ [(i, r)])).
Proof. reflexivity. Qed.

Definition call_normal (i : nat) (f : expr) (xs : exprs) (ks : kwds) (fv : val) : R rval :=
  av <- rc_args P (S i + size f) xs ;; kv <- rc_kwds P (S i + size f + size_l xs) ks ;;
  match all_some av, all_some_kw kv with
  | Some avs, Some kvs => r <- lift (p_call P fv avs kvs) ;; record i r ;;; ret (Some r)
  | _, _ => ph
  end.

Lemma rc_call_simple i f xs ks :
  simple_l xs = true ->
  rc P i (ECall f xs ks) =
  (x <- rc P (S i) f ;;
   match x with
   | None => ph
   | Some fv => if negb (p_callable P fv) then fail ValueErr else call_normal i f xs ks fv
   end).
Proof.
  intro H. cbn [rc]. unfold call_normal.
  destruct xs as [|g [|g2 r]]; try reflexivity.
  destruct g; try reflexivity.
  cbn in H. discriminate.
Qed.

Theorem refine_all :
  (forall e, Pe e) /\ (forall es, Pl es) /\ (forall ks, Pk ks) /\ (forall cs, Pc cs) /\ (forall ps, Pp ps) /\
  (forall ds, Pd ds) /\ (forall gs : gens, True).
Proof.
  apply expr_mutind; unfold Pe, Pl, Pk, Pc, Pp, Pd; try (intros; exact I).
  - (* EConst *) intros v _ i s w s' H. cbn [ev] in H. apply tail_ok in H as [-> ->]. cbn [rc]. apply tail_eq.
  - (* EName *) intros id _ i s v s' H. cbn [ev] in H. cbn [rc].
    unfold bindM at 1, get_env at 1 in H. unfold bindM at 1, get_env at 1. cbn [fst] in *.
    change (fst (ups s)) with (up (fst s)). rewrite lookup_up. destruct (lookup (fst s) id) as [w|] eqn:L; cbn [option_map].
    + apply tail_ok in H as [-> ->]. apply tail_eq.
    + destruct (p_builtin P id) as [w|]; [|discriminate]. apply tail_ok in H as [-> ->]. apply tail_eq.
  - (* EAttr *) intros e1 IH a Hs i s v s' H. cbn [simple] in Hs. cbn [ev] in H. cbn [rc].
    inv H. apply (IH Hs) in E. rewrite (bind_eq _ _ _ _ _ E). cbn beta iota.
    inv H. apply lift_ok in E0 as [E0 ->]. rewrite (bind_eq _ _ _ _ _ (lift_eq _ _ _ E0)).
    apply tail_ok in H as [-> ->]. apply tail_eq.
  - (* ESub *) intros a IHa b IHb Hs i s v s' H. cbn [simple] in Hs. split_simple Hs. cbn [ev] in H. cbn [rc].
    inv H. apply (IHa Hs) in E. rewrite (bind_eq _ _ _ _ _ E).
    inv H. apply (IHb Hs0) in E0. rewrite (bind_eq _ _ _ _ _ E0). cbn beta iota.
    inv H. apply lift_ok in E1 as [E1 ->]. rewrite (bind_eq _ _ _ _ _ (lift_eq _ _ _ E1)).
    apply tail_ok in H as [-> ->]. apply tail_eq.
  - (* ESlice *) intros a IHa b IHb Hs i s v s' H. cbn [simple] in Hs. split_simple Hs. cbn [ev] in H. cbn [rc].
    inv H. apply (IHa Hs) in E. rewrite (bind_eq _ _ _ _ _ E).
    inv H. apply (IHb Hs0) in E0. rewrite (bind_eq _ _ _ _ _ E0). cbn beta iota.
    apply tail_ok in H as [-> ->]. apply tail_eq.
  - (* EOmit *) intros _ i s v s' H. cbn in H. done_ret H. reflexivity.
  - (* ECall *) intros f IHf xs IHxs ks IHks Hs i s v s' H. cbn [simple] in Hs. split_simple Hs.
    cbn [ev] in H. rewrite (rc_call_simple _ _ _ _ Hs1).
    inv H. apply (IHf Hs) in E. rewrite (bind_eq _ _ _ _ _ E). cbn beta iota.
    inv H. destruct (IHxs Hs1) as [IHa _]. apply IHa in E0.
    inv H. apply (IHks Hs0) in E1.
    inv H. apply lift_ok in E2 as [E2 ->].
    rewrite (call_callable _ _ _ _ E2). cbn [negb]. unfold call_normal.
    rewrite (bind_eq _ _ _ _ _ E0), (bind_eq _ _ _ _ _ E1). cbn beta iota.
    rewrite all_some_map, all_some_kw_up.
    rewrite (bind_eq _ _ _ _ _ (lift_eq _ _ _ E2)).
    apply tail_ok in H as [-> ->]. apply tail_eq.
  - (* EStar *) intros e1 IH Hs i s v s' H. cbn [simple] in Hs. cbn [ev] in H. cbn [rc]. apply (IH Hs). exact H.
  - (* EUn *) intros op e1 IH Hs i s v s' H. cbn [simple] in Hs. cbn [ev] in H. cbn [rc].
    inv H. apply (IH Hs) in E. rewrite (bind_eq _ _ _ _ _ E). cbn beta iota.
    inv H. apply lift_ok in E0 as [E0 ->]. rewrite (bind_eq _ _ _ _ _ (lift_eq _ _ _ E0)).
    apply tail_ok in H as [-> ->]. apply tail_eq.
  - (* EBin *) intros op a IHa b IHb Hs i s v s' H. cbn [simple] in Hs. split_simple Hs. cbn [ev] in H. cbn [rc].
    inv H. apply (IHa Hs) in E. rewrite (bind_eq _ _ _ _ _ E).
    inv H. apply (IHb Hs0) in E0. rewrite (bind_eq _ _ _ _ _ E0). cbn beta iota.
    inv H. apply lift_ok in E1 as [E1 ->]. rewrite (bind_eq _ _ _ _ _ (lift_eq _ _ _ E1)).
    apply tail_ok in H as [-> ->]. apply tail_eq.
  - (* EBool *) intros b es IH Hs i s v s' H. cbn [simple] in Hs. cbn [ev] in H. cbn [rc].
    inv H. destruct (IH Hs) as [_ IHb]. apply IHb in E. rewrite (bind_eq _ _ _ _ _ E). cbn beta iota.
    apply tail_ok in H as [-> ->]. apply tail_eq.
  - (* ECmp *) intros l IHl cs IHc Hs i s v s' H. cbn [simple] in Hs. split_simple Hs. cbn [ev] in H. cbn [rc].
    inv H. apply (IHl Hs) in E. rewrite (bind_eq _ _ _ _ _ E). cbn beta iota.
    inv H. apply (IHc Hs0) with (result := VNone) in E0; [|reflexivity]. rewrite (bind_eq _ _ _ _ _ E0). cbn beta iota.
    apply tail_ok in H as [-> ->]. apply tail_eq.
  - (* EIf *) intros t IHt b IHb o IHo Hs i s v s' H. cbn [simple] in Hs. split_simple Hs. cbn [ev] in H. cbn [rc].
    inv H. apply (IHt Hs) in E. rewrite (bind_eq _ _ _ _ _ E). cbn beta iota.
    inv H. unfold truthM in E0. apply lift_ok in E0 as [E0 ->].
    unfold truthM at 1. rewrite (bind_eq _ _ _ _ _ (lift_eq _ _ _ E0)).
    inv H. destruct a0.
    + apply (IHb Hs1) in E1. rewrite (bind_eq _ _ _ _ _ E1). cbn beta iota. apply tail_ok in H as [-> ->]. apply tail_eq.
    + apply (IHo Hs0) in E1. rewrite (bind_eq _ _ _ _ _ E1). cbn beta iota. apply tail_ok in H as [-> ->]. apply tail_eq.
  - (* ENamed *) intros tg e1 IH Hs i s v s' H. cbn [simple] in Hs. cbn [ev] in H. cbn [rc].
    inv H. apply (IH Hs) in E. rewrite (bind_eq _ _ _ _ _ E). cbn beta iota.
    destruct s0 as [m0 l0]. unfold bindM, record, get_env, put_env, ret in H. cbn in H. injection H as <- <-.
    unfold bindM, record, get_env, put_env, ret, ups. cbn. rewrite set_var_up. reflexivity.
  - (* EFStr *) intros ps IH Hs i s v s' H. cbn [simple] in Hs. cbn [ev] in H. cbn [rc].
    inv H. apply (IH Hs) in E. rewrite (bind_eq _ _ _ _ _ E). cbn beta iota.
    apply tail_ok in H as [-> ->]. apply tail_eq.
  - (* EList *) intros es IH Hs i s v s' H. cbn [simple] in Hs. cbn [ev] in H. cbn [rc].
    inv H. destruct (IH Hs) as [IHa _]. apply IHa in E. rewrite (bind_eq _ _ _ _ _ E). cbn beta iota.
    rewrite all_some_map. apply tail_ok in H as [-> ->]. apply tail_eq.
  - (* ETuple *) intros es IH Hs i s v s' H. cbn [simple] in Hs. cbn [ev] in H. cbn [rc].
    inv H. destruct (IH Hs) as [IHa _]. apply IHa in E. rewrite (bind_eq _ _ _ _ _ E). cbn beta iota.
    rewrite all_some_map. apply tail_ok in H as [-> ->]. apply tail_eq.
  - (* EDict *) intros ds IH Hs i s v s' H. cbn [simple] in Hs. cbn [ev] in H. cbn [rc].
    inv H. apply (IH Hs) in E. rewrite (bind_eq _ _ _ _ _ E). cbn beta iota. rewrite dict_items_upd.
    inv H. apply lift_ok in E0 as [E0 ->]. rewrite (bind_eq _ _ _ _ _ (lift_eq _ _ _ E0)).
    apply tail_ok in H as [-> ->]. apply tail_eq.
  - (* EComp *) intros k a _ b _ gs _ Hs. cbn in Hs. discriminate.
  - (* ENil *) intros _. split.
    + intros i s vs s' H. cbn in H. done_ret H. reflexivity.
    + intros b i s v s' H. cbn in H. done_ret H. reflexivity.
  - (* ECons *) intros e IHe r IHr Hs. cbn [simple_l] in Hs. split_simple Hs. destruct (IHr Hs0) as [IHa IHb]. split.
    + intros i s vs s' H.
      assert (Star : forall e1, e = EStar e1 ->
                rc_args P i (ECons e r) (ups s) = Ok (map Some vs, ups s')).
      { intros e1 ->. cbn [ev_args] in H. cbn [rc_args].
        change (ev P (S i) e1) with (ev P i (EStar e1)) in H. change (rc P (S i) e1) with (rc P i (EStar e1)).
        inv H. apply (IHe Hs) in E. rewrite (bind_eq _ _ _ _ _ E). cbn beta iota.
        inv H. apply lift_ok in E0 as [E0 ->]. rewrite (bind_eq _ _ _ _ _ (lift_eq _ _ _ E0)).
        inv H. apply lift_ok in E1 as [E1 ->]. rewrite (bind_eq _ _ _ _ _ (lift_eq _ _ _ E1)).
        inv H. apply IHa in E2. rewrite (bind_eq _ _ _ _ _ E2). done_ret H. unfold ret. rewrite map_app. reflexivity. }
      assert (Plain : (forall e1, e <> EStar e1) ->
                rc_args P i (ECons e r) (ups s) = Ok (map Some vs, ups s')).
      { intro Hn.
        assert (Ev : ev_args P i (ECons e r) = (v <- ev P i e ;; rest <- ev_args P (i + size e) r ;; ret (v :: rest))).
        { destruct e; try reflexivity. exfalso. eapply Hn. reflexivity. }
        assert (Rc : rc_args P i (ECons e r) = (x <- rc P i e ;; rest <- rc_args P (i + size e) r ;; ret (x :: rest))).
        { destruct e; try reflexivity. exfalso. eapply Hn. reflexivity. }
        rewrite Ev in H. rewrite Rc.
        inv H. apply (IHe Hs) in E. rewrite (bind_eq _ _ _ _ _ E).
        inv H. apply IHa in E0. rewrite (bind_eq _ _ _ _ _ E0). done_ret H. reflexivity. }
      destruct e; try (apply Plain; intros ? ?; discriminate). eapply Star. reflexivity.
    + intros b i s v s' H. cbn [ev_bool] in H. cbn [rc_bool]. destruct r as [|e2 r2].
      * apply (IHe Hs) in H. rewrite (bind_eq _ _ _ _ _ H). reflexivity.
      * inv H. apply (IHe Hs) in E. rewrite (bind_eq _ _ _ _ _ E). cbn beta iota.
        inv H. unfold truthM in E0. apply lift_ok in E0 as [E0 ->].
        unfold truthM at 1. rewrite (bind_eq _ _ _ _ _ (lift_eq _ _ _ E0)).
        destruct (Bool.eqb a0 b).
        -- apply IHb. exact H.
        -- done_ret H. reflexivity.
  - (* KNil *) intros _ i s kv s' H. cbn in H. done_ret H. reflexivity.
  - (* KCons *) intros n e IHe r IHr Hs i s kv s' H. cbn [simple_k] in Hs. split_simple Hs.
    destruct n as [n|]; cbn [ev_kwds] in H; cbn [rc_kwds].
    + inv H. apply (IHe Hs) in E. rewrite (bind_eq _ _ _ _ _ E).
      inv H. apply (IHr Hs0) in E0. rewrite (bind_eq _ _ _ _ _ E0). done_ret H. reflexivity.
    + inv H. apply (IHe Hs) in E. rewrite (bind_eq _ _ _ _ _ E). cbn beta iota.
      inv H. apply lift_ok in E0 as [E0 ->]. rewrite (bind_eq _ _ _ _ _ (lift_eq _ _ _ E0)).
      inv H. apply (IHr Hs0) in E1. rewrite (bind_eq _ _ _ _ _ E1). done_ret H. unfold ret, upk. rewrite map_app. reflexivity.
  - (* CNil *) intros _ left i s v s' result H Hr. cbn in H. done_ret H. cbn. rewrite (Hr eq_refl). reflexivity.
  - (* CCons *) intros op e IHe r IHr Hs left i s v s' result H _. cbn [simple_c] in Hs. split_simple Hs.
    cbn [ev_cmps] in H. cbn [rc_cmps].
    inv H. apply (IHe Hs) in E. rewrite (bind_eq _ _ _ _ _ E). cbn beta iota.
    inv H. apply lift_ok in E0 as [E0 ->]. rewrite (bind_eq _ _ _ _ _ (lift_eq _ _ _ E0)).
    destruct r as [|op2 e2 r2].
    + done_ret H. reflexivity.
    + inv H. unfold truthM in E1. apply lift_ok in E1 as [E1 ->].
      unfold truthM at 1. rewrite (bind_eq _ _ _ _ _ (lift_eq _ _ _ E1)).
      destruct a1.
      * apply (IHr Hs0); [exact H|discriminate].
      * done_ret H. reflexivity.
  - (* PNil *) intros _ i s ss s' H. cbn in H. done_ret H. reflexivity.
  - (* PLit *) intros str r IHr Hs i s ss s' H. cbn [simple_p] in Hs. cbn [ev_parts] in H. cbn [rc_parts].
    inv H. apply (IHr Hs) in E. rewrite (bind_eq _ _ _ _ _ E). done_ret H. reflexivity.
  - (* PFmt *) intros e IHe cv r IHr Hs i s ss s' H. cbn [simple_p] in Hs. split_simple Hs.
    cbn [ev_parts] in H. cbn [rc_parts].
    inv H. apply (IHe Hs) in E. rewrite (bind_eq _ _ _ _ _ E). cbn beta iota.
    inv H. apply lift_ok in E0 as [E0 ->]. rewrite (bind_eq _ _ _ _ _ (lift_eq _ _ _ E0)).
    inv H. apply (IHr Hs0) in E1. rewrite (bind_eq _ _ _ _ _ E1). done_ret H. reflexivity.
  - (* DNil *) intros _ i s kvs s' H. cbn in H. done_ret H. reflexivity.
  - (* DCons *) intros k IHk v IHv r IHr Hs i s kvs s' H. cbn [simple_d] in Hs. split_simple Hs.
    cbn [ev_dpairs] in H. cbn [rc_dpairs].
    inv H. apply (IHk Hs) in E. rewrite (bind_eq _ _ _ _ _ E).
    inv H. apply (IHv Hs1) in E0. rewrite (bind_eq _ _ _ _ _ E0).
    inv H. apply (IHr Hs0) in E1. rewrite (bind_eq _ _ _ _ _ E1). done_ret H. reflexivity.
  - (* DStar *) intros e IHe r IHr Hs i s kvs s' H. cbn [simple_d] in Hs. split_simple Hs.
    cbn [ev_dpairs] in H. cbn [rc_dpairs].
    inv H. apply (IHe Hs) in E. rewrite (bind_eq _ _ _ _ _ E). cbn beta iota.
    inv H. apply lift_ok in E0 as [E0 ->]. rewrite (bind_eq _ _ _ _ _ (lift_eq _ _ _ E0)).
    inv H. apply (IHr Hs0) in E1. rewrite (bind_eq _ _ _ _ _ E1). done_ret H. unfold ret, upd. rewrite map_app. reflexivity.
Qed.

(** ** the theorem for whole conditions *)
Theorem rc_refines_ev e :
  simple e = true ->
  forall m v m' l, ev P 0 e (m, []) = Ok (v, (m', l)) -> rc P 0 e (up m, []) = Ok (Some v, (up m', l)).
Proof. intros Hs m v m' l H. destruct refine_all as [He _]. apply (He e Hs 0 (m, []) v (m', l)). exact H. Qed.

End Refine.
