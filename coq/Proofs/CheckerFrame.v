(** Frame lemmas for the checker model: which phase emits which events, and that only the body
    touches the store. *)
From ICV Require Import Base Bind Checker CheckerSpec.
Open Scope string_scope.
Open Scope list_scope.

(** destruct every [if]/[match] scrutinee of a run equation until it becomes an equation between triples *)
Ltac crush_run H :=
  repeat (cbn [fst snd] in H;
          match type of H with
          | (_, _, _) = (_, _, _) => fail 1
          | context [if ?b then _ else _] => destruct b eqn:?
          | context [match ?x with _ => _ end] => destruct x eqn:?
          end).

Lemma bindM_inv {A B} (mA : M A) (k : A -> M B) st t r st' :
  bindM mA k st = (t, r, st') ->
  (exists t1 a st1 t2, mA st = (t1, inl a, st1) /\ k a st1 = (t2, r, st') /\ t = t1 ++ t2)
  \/ (exists x, mA st = (t, inr x, st') /\ r = inr x).
Proof.
  unfold bindM. destruct (mA st) as [[t1 [a|x]] st1] eqn:E.
  - destruct (k a st1) as [[t2 r2] st2] eqn:E2. intros H. injection H as <- <- <-.
    left. exists t1, a, st1, t2. auto.
  - intros H. injection H as <- <- <-. right. exists x. auto.
Qed.

Section Frame.
  Variables (m : mode) (U : user).

  Definition only (P : event -> bool) (t : list event) : Prop := Forall (fun e => P e = true) t.

  Lemma only_app P t1 t2 : only P t1 -> only P t2 -> only P (t1 ++ t2).
  Proof. unfold only. intros. apply Forall_app. auto. Qed.

  Lemma only_nil P : only P [].
  Proof. constructor. Qed.

  Definition pre_event (e : event) : bool := is_cond_of RPre e || is_error e.
  Definition post_event (e : event) : bool := is_cond_of RPost e || is_error e.
  Definition inv_event (e : event) : bool := is_cond_of RInv e || is_error e.
  Definition role_event (r : role) (e : event) : bool := is_cond_of r e || is_error e.

  Ltac finish_frame H r :=
    cbn in H; injection H as <- <- <-; (split; [reflexivity|]); unfold only;
    repeat (first [apply Forall_nil | apply Forall_cons]); cbn; destruct r; reflexivity.

  Lemma eval_condition_frame r cf c resolved st t res st' :
    eval_condition m U r cf c resolved st = (t, res, st') ->
    st' = st /\ only (is_cond_of r) t.
  Proof.
    unfold eval_condition, bindM, emit, throw, ret. intros H.
    destruct m; destruct (ckind_ c); destruct cf;
      destruct (select (cargs c) (cmandatory c) resolved) as [kw|];
      cbn in H;
      try (match type of H with context [u_cond ?a ?b ?c ?d] => destruct (u_cond a b c d) end);
      finish_frame H r.
  Qed.

  Lemma create_violation_error_frame r c resolved st t res st' :
    create_violation_error U r c resolved st = (t, res, st') ->
    st' = st /\ only (role_event r) t.
  Proof.
    unfold create_violation_error, bindM, emit, throw, ret. intros H.
    destruct (cerror c) as [|k|e|eargs emand].
    - destruct (clambda c); [destruct (select _ _ _)|]; finish_frame H r.
    - destruct (clambda c); [destruct (select _ _ _)|]; finish_frame H r.
    - finish_frame H r.
    - destruct (select eargs emand resolved) as [kw|]; cbn in H;
        try (match type of H with context [u_error ?a ?b ?c] => destruct (u_error a b c) end);
        finish_frame H r.
  Qed.

  Lemma only_weaken (P Q : event -> bool) t : (forall e, P e = true -> Q e = true) -> only P t -> only Q t.
  Proof. unfold only. intros HPQ H. eapply Forall_impl; [|exact H]. cbn. intros e He. apply HPQ. exact He. Qed.

  Lemma cond_is_role r e : is_cond_of r e = true -> role_event r e = true.
  Proof. unfold role_event. intros ->. reflexivity. Qed.

  Section Pre.
    Variable resolved : dict.

    (** the contract in [g] whose evaluation ended the group, with what happened *)
    Definition stopped_by (st : store) (g : list contract) (c : contract) : Prop :=
      first_failing m U RPre false resolved st g = Some c.

    Lemma eval_group_spec g : forall st t res st',
      eval_group m U g resolved st = (t, res, st') ->
      st' = st /\ only pre_event t /\
      match res with
      | inl None => group_holds m U resolved st g = true
      | inl (Some x) => exists c, stopped_by st g c
                                  /\ cond_val m U RPre false c resolved st = inl false
                                  /\ error_of U RPre c resolved st = inl x
      | inr x => exists c, stopped_by st g c
                           /\ (cond_val m U RPre false c resolved st = inr x
                               \/ (cond_val m U RPre false c resolved st = inl false
                                   /\ error_of U RPre c resolved st = inr x))
      end.
    Proof.
      induction g as [|c rest IH]; intros st t res st' H.
      - cbn in H. unfold ret in H. injection H as <- <- <-. repeat split; apply only_nil.
      - cbn [eval_group] in H. apply bindM_inv in H as [(t1 & b & st1 & t2 & E1 & E2 & ->) | (x & E1 & ->)].
        + pose proof (eval_condition_frame _ _ _ _ _ _ _ _ E1) as [-> Ho1].
          assert (cond_val m U RPre false c resolved st = inl b) as Hv by (unfold cond_val; rewrite E1; reflexivity).
          destruct b.
          * apply IH in E2 as (-> & Ho2 & Hres). split; [reflexivity|]. split.
            { apply only_app; [eapply only_weaken; [apply cond_is_role|exact Ho1] | exact Ho2]. }
            assert (holds m U RPre false resolved st c = true) as Hh by (unfold holds; rewrite Hv; reflexivity).
            unfold stopped_by, first_failing, group_holds in *. cbn [find forallb]. rewrite Hh.
            destruct res as [[x|]|x]; cbn; auto.
          * apply bindM_inv in E2 as [(t3 & x & st3 & t4 & E3 & E4 & ->) | (x & E3 & ->)].
            -- pose proof (create_violation_error_frame _ _ _ _ _ _ _ E3) as [-> Ho3].
               unfold ret in E4. injection E4 as <- <- <-.
               split; [reflexivity|]. split.
               { apply only_app; [eapply only_weaken; [apply cond_is_role|exact Ho1]|].
                 apply only_app; [exact Ho3 | apply only_nil]. }
               exists c. unfold stopped_by, first_failing. cbn [find]. unfold holds. rewrite Hv. cbn.
               repeat split; auto. unfold error_of. rewrite E3. reflexivity.
            -- pose proof (create_violation_error_frame _ _ _ _ _ _ _ E3) as [-> Ho3].
               split; [reflexivity|]. split.
               { apply only_app; [eapply only_weaken; [apply cond_is_role|exact Ho1] | exact Ho3]. }
               exists c. unfold stopped_by, first_failing. cbn [find]. unfold holds. rewrite Hv. cbn.
               split; auto. right. split; auto. unfold error_of. rewrite E3. reflexivity.
        + pose proof (eval_condition_frame _ _ _ _ _ _ _ _ E1) as [-> Ho1].
          split; [reflexivity|]. split; [eapply only_weaken; [apply cond_is_role|exact Ho1]|].
          exists c. unfold stopped_by, first_failing. cbn [find]. unfold holds.
          assert (cond_val m U RPre false c resolved st = inr x) as Hv by (unfold cond_val; rewrite E1; reflexivity).
          rewrite Hv. cbn. auto.
    Qed.

    Lemma stopped_not_holds st g c : stopped_by st g c -> group_holds m U resolved st g = false.
    Proof.
      unfold stopped_by, first_failing, group_holds. intros H. apply find_some in H as [Hin Hf].
      destruct (forallb (holds m U RPre false resolved st) g) eqn:E; [|reflexivity].
      rewrite forallb_forall in E. rewrite (E _ Hin) in Hf. discriminate.
    Qed.

    Lemma eval_groups_spec gs : forall st t res st',
      eval_groups m U gs resolved st = (t, res, st') ->
      st' = st /\ only pre_event t /\
      match res with
      | inl None => pre_holds m U gs resolved st = true
      | inl (Some x) =>
          pre_holds m U gs resolved st = false
          /\ exists g c, last_opt gs = Some g /\ stopped_by st g c
                         /\ cond_val m U RPre false c resolved st = inl false
                         /\ error_of U RPre c resolved st = inl x
      | inr x =>
          exists g c, In g gs /\ stopped_by st g c
                      /\ (cond_val m U RPre false c resolved st = inr x
                          \/ (cond_val m U RPre false c resolved st = inl false
                              /\ error_of U RPre c resolved st = inr x))
      end.
    Proof.
      induction gs as [|g rest IH]; intros st t res st' H.
      - cbn in H. unfold ret in H. injection H as <- <- <-. repeat split; apply only_nil.
      - cbn [eval_groups] in H. apply bindM_inv in H as [(t1 & v & st1 & t2 & E1 & E2 & ->) | (x & E1 & ->)].
        + apply eval_group_spec in E1 as (-> & Ho1 & Hres1).
          destruct v as [x|].
          * destruct Hres1 as (c & Hstop & Hv & He).
            pose proof (stopped_not_holds _ _ _ Hstop) as Hng.
            destruct rest as [|g' rest'].
            -- unfold ret in E2. injection E2 as <- <- <-. split; [reflexivity|]. split.
               { apply only_app; [exact Ho1 | apply only_nil]. }
               split.
               { unfold pre_holds. cbn. rewrite Hng. reflexivity. }
               exists g, c. cbn. auto.
            -- apply IH in E2 as (-> & Ho2 & Hres2). split; [reflexivity|]. split.
               { apply only_app; assumption. }
               unfold pre_holds in *. cbn [is_nil existsb orb] in *. rewrite Hng. cbn [orb].
               destruct res as [[y|]|y].
               ++ destruct Hres2 as (Hf & g2 & c2 & Hl & Hrest). split; [exact Hf|].
                  exists g2, c2. split; [exact Hl | exact Hrest].
               ++ exact Hres2.
               ++ destruct Hres2 as (g2 & c2 & Hin & Hrest). exists g2, c2. split; [right; exact Hin | exact Hrest].
          * unfold ret in E2. injection E2 as <- <- <-. split; [reflexivity|]. split.
            { apply only_app; [exact Ho1 | apply only_nil]. }
            unfold pre_holds. cbn. rewrite Hres1. reflexivity.
        + apply eval_group_spec in E1 as (-> & Ho1 & (c & Hstop & Hc)).
          split; [reflexivity|]. split; [exact Ho1|]. exists g, c. split; [left; reflexivity|]. auto.
    Qed.

    (** *** snapshots *)
    Definition capture_ids (t : list event) : list Z :=
      flat_map (fun e => match e with EvCapture s _ _ => [s] | _ => [] end) t.

    Lemma capture_ids_app t1 t2 : capture_ids (t1 ++ t2) = capture_ids t1 ++ capture_ids t2.
    Proof. unfold capture_ids. apply flat_map_app. Qed.

    Lemma capture_one_frame s st t res st' :
      capture_one m U s resolved st = (t, res, st') ->
      st' = st /\ only is_capture t /\
      match res with inl _ => capture_ids t = [sid s] | inr _ => True end.
    Proof.
      unfold capture_one, bindM, emit, throw, ret. intros H.
      destruct m; destruct (skind s); destruct (select (sargs s) (sargs s) resolved) as [kw|]; cbn in H;
        try (match type of H with context [u_capture ?a ?b ?c ?d] => destruct (u_capture a b c d) end);
        cbn in H; injection H as <- <- <-; repeat split; repeat constructor.
    Qed.

    Lemma capture_old_spec snaps : forall old st t res st',
      capture_old m U snaps resolved old st = (t, res, st') ->
      st' = st /\ only is_capture t /\
      match res with
      | inl _ => capture_ids t = map sid snaps
      | inr _ => True
      end.
    Proof.
      induction snaps as [|s rest IH]; intros old st t res st' H.
      - cbn in H. unfold ret in H. injection H as <- <- <-. repeat split; apply only_nil.
      - cbn [capture_old] in H. apply bindM_inv in H as [(t1 & v & st1 & t2 & E1 & E2 & ->) | (x & E1 & ->)].
        + apply capture_one_frame in E1 as (-> & Ho1 & Hid).
          apply IH in E2 as (-> & Ho2 & Hr). split; [reflexivity|]. split; [apply only_app; assumption|].
          destruct res; [|exact I]. rewrite capture_ids_app, Hid, Hr. reflexivity.
        + apply capture_one_frame in E1 as (-> & Ho1 & _). repeat split. exact Ho1.
    Qed.

    (** *** postconditions *)
    Lemma eval_posts_spec ps : forall st t res st',
      eval_posts m U ps resolved st = (t, res, st') ->
      st' = st /\ only post_event t /\
      match res with
      | inl None => posts_hold m U ps resolved st = true
      | inl (Some x) => exists c, first_failing m U RPost true resolved st ps = Some c
                                  /\ cond_val m U RPost true c resolved st = inl false
                                  /\ error_of U RPost c resolved st = inl x
      | inr x => exists c, first_failing m U RPost true resolved st ps = Some c
                           /\ (cond_val m U RPost true c resolved st = inr x
                               \/ (cond_val m U RPost true c resolved st = inl false
                                   /\ error_of U RPost c resolved st = inr x))
      end.
    Proof.
      induction ps as [|c rest IH]; intros st t res st' H.
      - cbn in H. unfold ret in H. injection H as <- <- <-. repeat split; apply only_nil.
      - cbn [eval_posts] in H. apply bindM_inv in H as [(t1 & b & st1 & t2 & E1 & E2 & ->) | (x & E1 & ->)].
        + pose proof (eval_condition_frame _ _ _ _ _ _ _ _ E1) as [-> Ho1].
          assert (cond_val m U RPost true c resolved st = inl b) as Hv by (unfold cond_val; rewrite E1; reflexivity).
          destruct b.
          * apply IH in E2 as (-> & Ho2 & Hres). split; [reflexivity|]. split.
            { apply only_app; [eapply only_weaken; [apply cond_is_role|exact Ho1] | exact Ho2]. }
            assert (holds m U RPost true resolved st c = true) as Hh by (unfold holds; rewrite Hv; reflexivity).
            unfold first_failing, posts_hold in *. cbn [find forallb]. rewrite Hh.
            destruct res as [[x|]|x]; cbn; auto.
          * apply bindM_inv in E2 as [(t3 & x & st3 & t4 & E3 & E4 & ->) | (x & E3 & ->)].
            -- pose proof (create_violation_error_frame _ _ _ _ _ _ _ E3) as [-> Ho3].
               unfold ret in E4. injection E4 as <- <- <-.
               split; [reflexivity|]. split.
               { apply only_app; [eapply only_weaken; [apply cond_is_role|exact Ho1]|].
                 apply only_app; [exact Ho3 | apply only_nil]. }
               exists c. unfold first_failing. cbn [find]. unfold holds. rewrite Hv. cbn.
               repeat split; auto. unfold error_of. rewrite E3. reflexivity.
            -- pose proof (create_violation_error_frame _ _ _ _ _ _ _ E3) as [-> Ho3].
               split; [reflexivity|]. split.
               { apply only_app; [eapply only_weaken; [apply cond_is_role|exact Ho1] | exact Ho3]. }
               exists c. unfold first_failing. cbn [find]. unfold holds. rewrite Hv. cbn.
               split; auto. right. split; auto. unfold error_of. rewrite E3. reflexivity.
        + pose proof (eval_condition_frame _ _ _ _ _ _ _ _ E1) as [-> Ho1].
          split; [reflexivity|]. split; [eapply only_weaken; [apply cond_is_role|exact Ho1]|].
          exists c. unfold first_failing. cbn [find]. unfold holds.
          assert (cond_val m U RPost true c resolved st = inr x) as Hv by (unfold cond_val; rewrite E1; reflexivity).
          rewrite Hv. cbn. auto.
    Qed.
  End Pre.

  (** ** The graph of [checker_call]: every way a checked call can end. *)
  Section Call.
    Variables (s : sig) (pre : list (list contract)) (snaps : list snapshot) (post : list contract)
              (args : list pv) (kwargs : dict).

    Let resolved := resolve_sig s args kwargs.
    Local Notation reserved_kw := (reserved_kw kwargs).
    Local Notation clashing_names := (clashing_names s post args kwargs).
    Local Notation capturing := (capturing snaps post).
    Local Notation resolved_old := (resolved_old s snaps post args kwargs).
    Local Notation resolved_post := (resolved_post s snaps post args kwargs).

    Inductive call_exit (st : store) : list event -> pv + exn -> store -> Prop :=
    | ExReserved :
        reserved_kw = true -> call_exit st [] (inr (XLib "TypeError" None)) st
    | ExClash :
        reserved_kw = false -> clashing_names = true -> call_exit st [] (inr (XLib "TypeError" None)) st
    | ExPreViolated tp x :
        reserved_kw = false -> clashing_names = false ->
        eval_groups m U pre resolved st = (tp, inl (Some x), st) ->
        call_exit st tp (inr x) st
    | ExPreRaised tp x :
        reserved_kw = false -> clashing_names = false ->
        eval_groups m U pre resolved st = (tp, inr x, st) ->
        call_exit st tp (inr x) st
    | ExCaptureRaised tp tc x :
        reserved_kw = false -> clashing_names = false ->
        eval_groups m U pre resolved st = (tp, inl None, st) ->
        capturing = true -> capture_old m U snaps resolved [] st = (tc, inr x, st) ->
        call_exit st (tp ++ tc) (inr x) st
    | ExAfterCapture tp tc old tb r st' :
        reserved_kw = false -> clashing_names = false ->
        eval_groups m U pre resolved st = (tp, inl None, st) ->
        (if capturing then capture_old m U snaps resolved [] st = (tc, inl old, st)
         else tc = [] /\ old = []) ->
        body_exit st old tb r st' ->
        call_exit st (tp ++ tc ++ tb) r st'
    with body_exit (st : store) : dict -> list event -> pv + exn -> store -> Prop :=
    | BxUnbindable old :
        pybind s args kwargs = None -> body_exit st old [] (inr (XLib "TypeError" None)) st
    | BxRaised old env e stb :
        pybind s args kwargs = Some env -> u_body U args kwargs st = (BRaise e, stb) ->
        body_exit st old [EvBody env st] (inr (XObj e)) stb
    | BxReturnNoPost old env v stb :
        pybind s args kwargs = Some env -> u_body U args kwargs st = (BRet v, stb) ->
        post = [] ->
        body_exit st old [EvBody env st] (inl v) stb
    | BxPost old env v stb tq w :
        pybind s args kwargs = Some env -> u_body U args kwargs st = (BRet v, stb) ->
        post <> [] ->
        eval_posts m U post (resolved_post old v) stb = (tq, w, stb) ->
        body_exit st old (EvBody env st :: tq)
                  (match w with inl None => inl v | inl (Some x) => inr x | inr x => inr x end) stb.

    Lemma run_body_inv st t r st' :
      run_body U s args kwargs st = (t, r, st') ->
      match pybind s args kwargs with
      | None => t = [] /\ r = inr (XLib "TypeError" None) /\ st' = st
      | Some env =>
          t = [EvBody env st]
          /\ match u_body U args kwargs st with
             | (BRet v, stb) => r = inl v /\ st' = stb
             | (BRaise e, stb) => r = inr (XObj e) /\ st' = stb
             end
      end.
    Proof.
      unfold run_body. destruct (pybind s args kwargs) as [env|].
      - destruct (u_body U args kwargs st) as [[v|e] stb]; intros H; injection H as <- <- <-; auto.
      - intros H; injection H as <- <- <-; auto.
    Qed.

    Theorem checker_call_graph st t r st' :
      checker_call m U s pre snaps post args kwargs st = (t, r, st') -> call_exit st t r st'.
    Proof.
      unfold checker_call. fold resolved.
      change (dict_has kwargs "_ARGS" || dict_has kwargs "_KWARGS") with reserved_kw.
      change (negb (is_nil post) && (dict_has resolved "result" || dict_has resolved "OLD")) with clashing_names.
      destruct reserved_kw eqn:Er.
      { unfold throw. intros H. injection H as <- <- <-. now apply ExReserved. }
      destruct clashing_names eqn:Ec.
      { unfold throw. intros H. injection H as <- <- <-. now apply ExClash. }
      intros H. apply bindM_inv in H as [(tp & v & st1 & t2 & E1 & E2 & ->) | (x & E1 & ->)].
      2:{ pose proof (eval_groups_spec _ _ _ _ _ _ E1) as (-> & _). now apply ExPreRaised. }
      pose proof (eval_groups_spec _ _ _ _ _ _ E1) as (-> & _).
      destruct v as [x|].
      { unfold throw in E2. injection E2 as <- <- <-. rewrite app_nil_r. now apply ExPreViolated. }
      change (negb (is_nil post) && negb (is_nil snaps)) with capturing in E2.
      apply bindM_inv in E2 as [(tc & res1 & st2 & t3 & E3 & E4 & ->) | (x & E3 & ->)].
      2:{ destruct capturing eqn:Ecap.
          - apply bindM_inv in E3 as [(tc & old & st2 & t4 & E5 & E6 & ->) | (y & E5 & Hy)].
            + unfold ret in E6. discriminate.
            + injection Hy as <-. pose proof (capture_old_spec _ _ _ _ _ _ _ E5) as (-> & _).
              eapply ExCaptureRaised; eauto.
          - unfold ret in E3. discriminate. }
      assert (exists old, res1 = resolved_old old /\ st2 = st
                          /\ (if capturing then capture_old m U snaps resolved [] st = (tc, inl old, st)
                              else tc = [] /\ old = [])) as (old & -> & -> & Hcap).
      { unfold resolved_old. destruct capturing eqn:Ecap.
        - apply bindM_inv in E3 as [(tc' & old & st3 & t4 & E5 & E6 & ->) | (y & E5 & Hy)]; [|discriminate].
          pose proof (capture_old_spec _ _ _ _ _ _ _ E5) as (-> & _).
          unfold ret in E6. injection E6 as <- <- <-. exists old. rewrite app_nil_r. auto.
        - unfold ret in E3. injection E3 as <- <- <-. exists []. auto. }
      assert (body_exit st old t3 r st') as Hb.
      { apply bindM_inv in E4 as [(tb & v & st3 & t5 & E5 & E6 & ->) | (x & E5 & ->)].
        - apply run_body_inv in E5. destruct (pybind s args kwargs) as [env|] eqn:Eb.
          2:{ destruct E5 as (_ & Hr & _). discriminate. }
          destruct E5 as (-> & E5). destruct (u_body U args kwargs st) as [[v'|e] stb] eqn:Eu;
            destruct E5 as (Hv & ->); [injection Hv as <- | discriminate].
          destruct post as [|p0 post'] eqn:Ep.
          + cbn in E6. unfold ret in E6. injection E6 as <- <- <-. eapply BxReturnNoPost; eauto.
          + cbn [is_nil] in E6. rewrite <- Ep in *.
            apply bindM_inv in E6 as [(tq & w & st4 & t6 & E7 & E8 & ->) | (x & E7 & ->)].
            * pose proof (eval_posts_spec _ _ _ _ _ _ E7) as (-> & _).
              assert (t6 = [] /\ st' = stb /\ r = match w with Some x => inr x | None => inl v end) as (-> & -> & ->).
              { destruct w; unfold throw, ret in E8; injection E8 as <- <- <-; auto. }
              rewrite app_nil_r. cbn [app].
              assert (post <> []) as Hne by (rewrite Ep; discriminate).
              destruct w as [x|].
              -- apply (BxPost st old env v stb tq (inl (Some x))); auto.
              -- apply (BxPost st old env v stb tq (inl None)); auto.
            * pose proof (eval_posts_spec _ _ _ _ _ _ E7) as (-> & _).
              assert (post <> []) as Hne by (rewrite Ep; discriminate).
              apply (BxPost st old env v stb t5 (inr x)); auto.
        - apply run_body_inv in E5. destruct (pybind s args kwargs) as [env|] eqn:Eb.
          + destruct E5 as (-> & E5). destruct (u_body U args kwargs st) as [[v'|e] stb] eqn:Eu;
              destruct E5 as (Hv & ->); [discriminate | injection Hv as ->].
            eapply BxRaised; eauto.
          + destruct E5 as (-> & Hr & ->). injection Hr as ->. now apply BxUnbindable. }
      eapply ExAfterCapture; eauto.
    Qed.
  End Call.

  (** ** Invariant wrappers *)
  Section Inv.
    Variable self : pv.

    Definition inv_val (c : contract) (st : store) : bool + exn :=
      snd (fst (eval_invariant U c self st)).
    Definition inv_holds (st : store) (c : contract) : bool :=
      match inv_val c st with inl true => true | _ => false end.
    Definition invs_hold (invs : list contract) (st : store) : bool := forallb (inv_holds st) invs.

    Lemma eval_invariant_frame c st t res st' :
      eval_invariant U c self st = (t, res, st') -> st' = st /\ only (is_cond_of RInv) t.
    Proof.
      unfold eval_invariant, bindM, emit, throw, ret. intros H. cbn in H.
      destruct (u_cond U (cid c) (inv_kwargs c self) st); cbn in H; injection H as <- <- <-;
        split; auto; repeat constructor.
    Qed.

    Lemma check_invariants_spec invs : forall st t res st',
      check_invariants U invs self st = (t, res, st') ->
      st' = st /\ only inv_event t /\
      match res with
      | inl _ => invs_hold invs st = true
      | inr x => exists c, find (fun c => negb (inv_holds st c)) invs = Some c
                           /\ (inv_val c st = inr x
                               \/ (inv_val c st = inl false
                                   /\ (error_of U RInv c [("self", self)] st = inl x
                                       \/ error_of U RInv c [("self", self)] st = inr x)))
      end.
    Proof.
      induction invs as [|c rest IH]; intros st t res st' H.
      - cbn in H. unfold ret in H. injection H as <- <- <-. repeat split. apply only_nil.
      - cbn [check_invariants] in H.
        apply bindM_inv in H as [(t1 & b & st1 & t2 & E1 & E2 & ->) | (x & E1 & ->)].
        + pose proof (eval_invariant_frame _ _ _ _ _ E1) as [-> Ho1].
          assert (inv_val c st = inl b) as Hv by (unfold inv_val; rewrite E1; reflexivity).
          destruct b.
          * apply IH in E2 as (-> & Ho2 & Hres). split; [reflexivity|]. split.
            { apply only_app; [eapply only_weaken; [apply cond_is_role|exact Ho1] | exact Ho2]. }
            assert (inv_holds st c = true) as Hh by (unfold inv_holds; rewrite Hv; reflexivity).
            unfold invs_hold in *. cbn [find forallb]. rewrite Hh. destruct res; cbn; auto.
          * apply bindM_inv in E2 as [(t3 & x & st3 & t4 & E3 & E4 & ->) | (x & E3 & ->)].
            -- pose proof (create_violation_error_frame _ _ _ _ _ _ _ E3) as [-> Ho3].
               unfold throw in E4. injection E4 as <- <- <-.
               split; [reflexivity|]. split.
               { apply only_app; [eapply only_weaken; [apply cond_is_role|exact Ho1]|].
                 apply only_app; [exact Ho3 | apply only_nil]. }
               exists c. cbn [find]. unfold inv_holds. rewrite Hv. cbn.
               split; auto. right. split; auto. left. unfold error_of. rewrite E3. reflexivity.
            -- pose proof (create_violation_error_frame _ _ _ _ _ _ _ E3) as [-> Ho3].
               split; [reflexivity|]. split.
               { apply only_app; [eapply only_weaken; [apply cond_is_role|exact Ho1] | exact Ho3]. }
               exists c. cbn [find]. unfold inv_holds. rewrite Hv. cbn.
               split; auto. right. split; auto. right. unfold error_of. rewrite E3. reflexivity.
        + pose proof (eval_invariant_frame _ _ _ _ _ E1) as [-> Ho1].
          split; [reflexivity|]. split; [eapply only_weaken; [apply cond_is_role|exact Ho1]|].
          exists c. cbn [find]. unfold inv_holds.
          assert (inv_val c st = inr x) as Hv by (unfold inv_val; rewrite E1; reflexivity).
          rewrite Hv. cbn. auto.
    Qed.

    (** invariants before and after a public operation *)
    Theorem method_call_graph invs (inner : M pv) st t r st' :
      method_call U invs self inner st = (t, r, st') ->
      (exists x, check_invariants U invs self st = (t, inr x, st) /\ r = inr x /\ st' = st)
      \/ (exists t1 t2 r2 st2,
             check_invariants U invs self st = (t1, inl tt, st)
             /\ inner st = (t2, r2, st2) /\ st' = st2
             /\ ((exists x, r2 = inr x /\ t = t1 ++ t2 /\ r = inr x)
                 \/ (exists v t3 r3, r2 = inl v
                                     /\ check_invariants U invs self st2 = (t3, r3, st2)
                                     /\ t = t1 ++ t2 ++ t3
                                     /\ r = match r3 with inl _ => inl v | inr x => inr x end))).
    Proof.
      unfold method_call. intros H.
      apply bindM_inv in H as [(t1 & u & st1 & t2 & E1 & E2 & ->) | (x & E1 & ->)].
      - pose proof (check_invariants_spec _ _ _ _ _ E1) as (-> & _). destruct u.
        apply bindM_inv in E2 as [(t3 & v & st3 & t4 & E3 & E4 & ->) | (x & E3 & ->)].
        + apply bindM_inv in E4 as [(t5 & u & st5 & t6 & E5 & E6 & ->) | (x & E5 & ->)].
          * pose proof (check_invariants_spec _ _ _ _ _ E5) as (-> & _). destruct u.
            unfold ret in E6. injection E6 as <- <- <-.
            right. exists t1, t3, (inl v), st3. repeat split; auto.
            right. exists v, t5, (inl tt). rewrite app_nil_r. auto.
          * pose proof (check_invariants_spec _ _ _ _ _ E5) as (-> & _).
            right. exists t1, t3, (inl v), st3. repeat split; auto.
            right. exists v, t4, (inr x). auto.
        + right. exists t1, t2, (inr x), st'. repeat split; auto. left. exists x. auto.
      - pose proof (check_invariants_spec _ _ _ _ _ E1) as (-> & _). left. exists x. auto.
    Qed.

    Theorem init_call_graph invs (inner : M pv) st t r st' :
      init_call U invs self inner st = (t, r, st') ->
      exists t2 r2 st2,
        inner st = (t2, r2, st2) /\ st' = st2
        /\ ((exists x, r2 = inr x /\ t = t2 /\ r = inr x)
            \/ (exists v t3 r3, r2 = inl v
                                /\ check_invariants U invs self st2 = (t3, r3, st2)
                                /\ t = t2 ++ t3
                                /\ r = match r3 with inl _ => inl v | inr x => inr x end)).
    Proof.
      unfold init_call. intros H.
      apply bindM_inv in H as [(t3 & v & st3 & t4 & E3 & E4 & ->) | (x & E3 & ->)].
      - apply bindM_inv in E4 as [(t5 & u & st5 & t6 & E5 & E6 & ->) | (x & E5 & ->)].
        + pose proof (check_invariants_spec _ _ _ _ _ E5) as (-> & _). destruct u.
          unfold ret in E6. injection E6 as <- <- <-.
          exists t3, (inl v), st3. repeat split; auto.
          right. exists v, t5, (inl tt). rewrite app_nil_r. auto.
        + pose proof (check_invariants_spec _ _ _ _ _ E5) as (-> & _).
          exists t3, (inl v), st3. repeat split; auto. right. exists v, t4, (inr x). auto.
      - exists t, (inr x), st'. repeat split; auto. left. exists x. auto.
    Qed.
  End Inv.
End Frame.
