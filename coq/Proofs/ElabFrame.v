(** C17: decorating a function touches only objects created by that very definition.
    [Keeps w0 w]: everything that existed in [w0] (list cells, function objects, classes, module
    bindings, registrations) is found unchanged in [w].  The proof tracks that every list cell a
    decorator appends to, and every function object it goes through, was allocated after [w0]. *)
From ICV Require Import Base Bind Checker Elab.
Open Scope string_scope.
Open Scope list_scope.

Definition Keeps (w0 w : world) : Prop :=
  (forall r, r < List.length (w_heap w0) -> nth_error (w_heap w) r = nth_error (w_heap w0) r)
  /\ (forall f, f < List.length (w_funcs w0) -> nth_error (w_funcs w) f = nth_error (w_funcs w0) f)
  /\ w_classes w = w_classes w0 /\ w_module w = w_module w0 /\ w_registered w = w_registered w0
  /\ List.length (w_heap w0) <= List.length (w_heap w)
  /\ List.length (w_funcs w0) <= List.length (w_funcs w).

Lemma Keeps_refl w : Keeps w w.
Proof. unfold Keeps. repeat split; auto. Qed.

Lemma nth_error_app_l {A} (l l' : list A) i : i < List.length l -> nth_error (l ++ l') i = nth_error l i.
Proof. intros H. apply nth_error_app1. exact H. Qed.

Lemma nth_error_set_nth_other {A} (l : list A) i j x : i <> j -> nth_error (set_nth l i x) j = nth_error l j.
Proof.
  revert i j. induction l as [|y l IH]; intros [|i] [|j] H; cbn; try congruence; auto.
Qed.

Lemma set_nth_length {A} (l : list A) i x : List.length (set_nth l i x) = List.length l.
Proof. revert i. induction l as [|y l IH]; intros [|i]; cbn; auto. Qed.

Lemma Keeps_alloc w0 w c : Keeps w0 w -> Keeps w0 (fst (alloc w c)) /\ List.length (w_heap w0) <= snd (alloc w c).
Proof.
  intros (H1 & H2 & H3 & H4 & H5 & H6 & H7). unfold alloc. cbn. split; [|lia].
  repeat split; auto; cbn.
  - intros r Hr. rewrite nth_error_app_l by lia. apply H1. exact Hr.
  - rewrite app_length. lia.
Qed.

Lemma Keeps_add_func w0 w f : Keeps w0 w -> Keeps w0 (fst (add_func w f)) /\ List.length (w_funcs w0) <= snd (add_func w f).
Proof.
  intros (H1 & H2 & H3 & H4 & H5 & H6 & H7). unfold add_func. cbn. split; [|lia].
  repeat split; auto; cbn.
  - intros g Hg. rewrite nth_error_app_l by lia. apply H2. exact Hg.
  - rewrite app_length. lia.
Qed.

Lemma Keeps_heap_append w0 w r x : Keeps w0 w -> List.length (w_heap w0) <= r -> Keeps w0 (heap_append w r x).
Proof.
  intros (H1 & H2 & H3 & H4 & H5 & H6 & H7) Hr. unfold heap_append. repeat split; auto; cbn.
  - intros r' Hr'. rewrite nth_error_set_nth_other by lia. apply H1. exact Hr'.
  - rewrite set_nth_length. exact H6.
Qed.

(** ** everything created since [w0] only points to things created since [w0] *)
Definition FreshClosed (w0 w : world) : Prop :=
  forall f fo, List.length (w_funcs w0) <= f -> get_func w f = Some fo ->
    (forall nxt, fo_wrapped fo = Some nxt -> List.length (w_funcs w0) <= nxt)
    /\ (forall r, fo_pre fo = Some r -> List.length (w_heap w0) <= r
                                      /\ forall g, In g (group_refs w r) -> List.length (w_heap w0) <= g)
    /\ (forall r, fo_snaps fo = Some r -> List.length (w_heap w0) <= r)
    /\ (forall r, fo_post fo = Some r -> List.length (w_heap w0) <= r).

Lemma find_checker_from_fresh w0 w : FreshClosed w0 w ->
  forall fuel cur found,
    List.length (w_funcs w0) <= cur ->
    (forall x, found = Some x -> List.length (w_funcs w0) <= x) ->
    forall ch, find_checker_from w fuel cur found = Some ch -> List.length (w_funcs w0) <= ch.
Proof.
  intros Hc fuel. induction fuel as [|fuel IH]; intros cur found Hcur Hfound ch H; cbn in H.
  - apply Hfound. exact H.
  - destruct (get_func w cur) as [fo|] eqn:E; [|apply Hfound; exact H].
    destruct (Hc cur fo Hcur E) as (Hw & _).
    set (found' := if has_lists fo then Some cur else found) in *.
    assert (forall x, found' = Some x -> List.length (w_funcs w0) <= x) as Hf'.
    { unfold found'. destruct (has_lists fo); [intros x Hx; injection Hx as <-; exact Hcur | exact Hfound]. }
    destruct (fo_wrapped fo) as [nxt|] eqn:Ew.
    + eapply IH; [apply Hw; reflexivity | exact Hf' | exact H].
    + apply Hf'. exact H.
Qed.

Lemma find_checker_fresh w0 w cur ch :
  FreshClosed w0 w -> List.length (w_funcs w0) <= cur -> find_checker w cur = Some ch ->
  List.length (w_funcs w0) <= ch.
Proof.
  intros Hc Hcur H. unfold find_checker in H.
  eapply find_checker_from_fresh; eauto. intros x Hx. discriminate.
Qed.

Lemma deref_alloc_empty w r : deref (fst (alloc w [])) r = deref w r.
Proof.
  unfold deref, alloc. cbn. destruct (Nat.lt_ge_cases r (List.length (w_heap w))) as [H|H].
  - rewrite app_nth1 by exact H. reflexivity.
  - rewrite (nth_overflow (w_heap w)) by exact H.
    destruct (Nat.eq_dec r (List.length (w_heap w))) as [->|Hne].
    + rewrite app_nth2 by lia. rewrite Nat.sub_diag. reflexivity.
    + rewrite nth_overflow; [reflexivity|]. rewrite app_length. cbn. lia.
Qed.

Lemma get_func_alloc w c f : get_func (fst (alloc w c)) f = get_func w f.
Proof. reflexivity. Qed.

Lemma FreshClosed_alloc_empty w0 w : FreshClosed w0 w -> FreshClosed w0 (fst (alloc w [])).
Proof.
  intros H f fo Hf Hg. rewrite get_func_alloc in Hg. destruct (H f fo Hf Hg) as (A & B & C & D).
  split; [exact A|]. split; [|split; [exact C | exact D]].
  intros r Hr. destruct (B r Hr) as [B1 B2]. split; [exact B1|].
  intros g Hin. unfold group_refs in Hin. rewrite deref_alloc_empty in Hin. apply B2. exact Hin.
Qed.

Lemma nth_set_nth_same {A} (l : list A) i x d : i < List.length l -> nth i (set_nth l i x) d = x.
Proof. revert i. induction l as [|y l IH]; intros [|i] H; cbn in *; try lia; auto. apply IH. lia. Qed.
Lemma nth_set_nth_other {A} (l : list A) i j x d : i <> j -> nth j (set_nth l i x) d = nth j l d.
Proof. revert i j. induction l as [|y l IH]; intros [|i] [|j] H; cbn; try congruence; auto. Qed.

Lemma deref_heap_append w r x r' :
  deref (heap_append w r x) r' = if Nat.eqb r r' && Nat.ltb r (List.length (w_heap w)) then deref w r ++ [x] else deref w r'.
Proof.
  unfold deref, heap_append. cbn [w_heap].
  destruct (Nat.eqb r r') eqn:E.
  - apply Nat.eqb_eq in E. subst r'. destruct (Nat.ltb r (List.length (w_heap w))) eqn:L; cbn [andb].
    + apply Nat.ltb_lt in L. apply nth_set_nth_same. exact L.
    + apply Nat.ltb_ge in L. rewrite !nth_overflow; auto. rewrite set_nth_length. exact L.
  - apply Nat.eqb_neq in E. cbn [andb]. apply nth_set_nth_other. exact E.
Qed.

Lemma group_refs_heap_append w r x r' g :
  In g (group_refs (heap_append w r x) r') ->
  In g (group_refs w r') \/ (r' = r /\ x = IGroup g).
Proof.
  unfold group_refs. rewrite deref_heap_append.
  destruct (Nat.eqb r r' && Nat.ltb r (List.length (w_heap w))) eqn:E; [|auto].
  apply andb_true_iff in E as [E _]. apply Nat.eqb_eq in E. subst r'.
  rewrite flat_map_app, in_app_iff. cbn. intros [H|H]; [auto|].
  destruct x; cbn in H; try tauto. destruct H as [->|[]]. auto.
Qed.

Lemma FreshClosed_heap_append w0 w r x :
  FreshClosed w0 w ->
  (forall g, x = IGroup g -> List.length (w_heap w0) <= g) ->
  FreshClosed w0 (heap_append w r x).
Proof.
  intros H Hx f fo Hf Hg. change (get_func (heap_append w r x) f) with (get_func w f) in Hg.
  destruct (H f fo Hf Hg) as (A & B & C & D).
  split; [exact A|]. split; [|split; [exact C | exact D]].
  intros r0 Hr. destruct (B r0 Hr) as [B1 B2]. split; [exact B1|].
  intros g Hin. apply group_refs_heap_append in Hin as [Hin|[_ ->]].
  - apply B2. exact Hin.
  - apply Hx. reflexivity.
Qed.

Lemma get_func_add_func_old w fo f : f < List.length (w_funcs w) -> get_func (fst (add_func w fo)) f = get_func w f.
Proof. intros H. unfold get_func, add_func. cbn. apply nth_error_app1. exact H. Qed.
Lemma get_func_add_func_new w fo : get_func (fst (add_func w fo)) (List.length (w_funcs w)) = Some fo.
Proof. unfold get_func, add_func. cbn. rewrite nth_error_app2 by lia. rewrite Nat.sub_diag. reflexivity. Qed.

Lemma get_func_bound w f fo : get_func w f = Some fo -> f < List.length (w_funcs w).
Proof. intros H. apply nth_error_Some. unfold get_func in H. congruence. Qed.

Lemma FreshClosed_add_func w0 w fo :
  FreshClosed w0 w ->
  (forall nxt, fo_wrapped fo = Some nxt -> List.length (w_funcs w0) <= nxt) ->
  (forall r, fo_pre fo = Some r -> List.length (w_heap w0) <= r /\ forall g, In g (group_refs w r) -> List.length (w_heap w0) <= g) ->
  (forall r, fo_snaps fo = Some r -> List.length (w_heap w0) <= r) ->
  (forall r, fo_post fo = Some r -> List.length (w_heap w0) <= r) ->
  FreshClosed w0 (fst (add_func w fo)).
Proof.
  intros H A B C D f fo' Hf Hg.
  assert (forall r, group_refs (fst (add_func w fo)) r = group_refs w r) as Hgr by reflexivity.
  destruct (Nat.lt_ge_cases f (List.length (w_funcs w))) as [Hlt|Hge].
  - rewrite get_func_add_func_old in Hg by exact Hlt. destruct (H f fo' Hf Hg) as (A' & B' & C' & D').
    split; [exact A'|]. split; [|split; [exact C' | exact D']].
    intros r Hr. destruct (B' r Hr) as [B1 B2]. split; [exact B1|].
    intros g Hin. rewrite Hgr in Hin. apply B2. exact Hin.
  - assert (f = List.length (w_funcs w)) as ->.
    { apply get_func_bound in Hg. unfold add_func in Hg. cbn in Hg. rewrite app_length in Hg. cbn in Hg. lia. }
    rewrite get_func_add_func_new in Hg. injection Hg as <-.
    split; [exact A|]. split; [|split; [exact C | exact D]].
    intros r Hr. destruct (B r Hr) as [B1 B2]. split; [exact B1|].
    intros g Hin. rewrite Hgr in Hin. apply B2. exact Hin.
Qed.

(** the state of a decorator stack in progress *)
Definition Good (w0 w : world) (cur : nat) : Prop :=
  Keeps w0 w /\ FreshClosed w0 w /\ List.length (w_funcs w0) <= cur.

Lemma wrap_good w0 w cur role w' nw :
  Good w0 w cur -> wrap w role cur = Some (w', nw) -> Good w0 w' nw.
Proof.
  intros (Hk & Hc & Hcur) H. unfold wrap in H. destruct (get_func w cur) as [fo|] eqn:E; [|discriminate].
  injection H as <- <-. destruct (Hc cur fo Hcur E) as (A & B & C & D).
  destruct (Keeps_add_func w0 w {| fo_role := role; fo_wrapped := Some cur; fo_pre := fo_pre fo; fo_snaps := fo_snaps fo;
                                   fo_post := fo_post fo; fo_sig := fo_sig fo; fo_async := fo_async fo;
                                   fo_owner := fo_owner fo |} Hk) as [Hk' Hn].
  split; [exact Hk'|]. split; [|exact Hn].
  apply FreshClosed_add_func; cbn; auto. intros nxt Hn'. injection Hn' as <-. exact Hcur.
Qed.

Lemma decorate_with_checker_good w0 w cur w' ch :
  Good w0 w cur -> decorate_with_checker w cur = Ok (w', ch) ->
  Good w0 w' ch
  /\ exists fo rp rs rq, get_func w' ch = Some fo /\ fo_pre fo = Some rp /\ fo_snaps fo = Some rs /\ fo_post fo = Some rq
                         /\ List.length (w_heap w0) <= rp /\ List.length (w_heap w0) <= rs /\ List.length (w_heap w0) <= rq.
Proof.
  intros (Hk & Hc & Hcur) H. unfold decorate_with_checker in H.
  destruct (get_func w cur) as [fo|] eqn:E; [|discriminate].
  destruct (sig_reserved (fo_sig fo)); [discriminate|].
  destruct (alloc w []) as [w1 rp] eqn:E1. destruct (alloc w1 []) as [w2 rs] eqn:E2. destruct (alloc w2 []) as [w3 rq] eqn:E3.
  injection H as <- <-.
  pose proof (Keeps_alloc w0 w [] Hk) as [K1 R1]. rewrite E1 in K1, R1. cbn in K1, R1.
  pose proof (Keeps_alloc w0 w1 [] K1) as [K2 R2]. rewrite E2 in K2, R2. cbn in K2, R2.
  pose proof (Keeps_alloc w0 w2 [] K2) as [K3 R3]. rewrite E3 in K3, R3. cbn in K3, R3.
  pose proof (FreshClosed_alloc_empty w0 w Hc) as C1. rewrite E1 in C1. cbn in C1.
  pose proof (FreshClosed_alloc_empty w0 w1 C1) as C2. rewrite E2 in C2. cbn in C2.
  pose proof (FreshClosed_alloc_empty w0 w2 C2) as C3. rewrite E3 in C3. cbn in C3.
  set (nf := {| fo_role := FChecker; fo_wrapped := Some cur; fo_pre := Some rp; fo_snaps := Some rs; fo_post := Some rq;
                fo_sig := fo_sig fo; fo_async := fo_async fo; fo_owner := fo_owner fo |}).
  destruct (Keeps_add_func w0 w3 nf K3) as [K4 N4].
  assert (group_refs w3 rp = []) as Hgr.
  { unfold group_refs. 
    assert (deref w3 rp = []) as ->; [|reflexivity].
    unfold alloc in E1, E2, E3. injection E1 as <- <-. injection E2 as <- <-. injection E3 as <- <-.
    unfold deref. cbn. rewrite <- !app_assoc. rewrite app_nth2 by lia. rewrite Nat.sub_diag. reflexivity. }
  split.
  - split; [exact K4|]. split; [|exact N4].
    apply FreshClosed_add_func; cbn; auto.
    + intros nxt Hn. injection Hn as <-. exact Hcur.
    + intros r Hr. injection Hr as <-. split; [exact R1|]. rewrite Hgr. intros g [].
    + intros r Hr. injection Hr as <-. exact R2.
    + intros r Hr. injection Hr as <-. exact R3.
  - exists nf, rp, rs, rq. repeat split; auto. apply get_func_add_func_new.
Qed.

Lemma Good_heap_append w0 w cur r x :
  Good w0 w cur -> List.length (w_heap w0) <= r ->
  (forall g, x = IGroup g -> List.length (w_heap w0) <= g) ->
  Good w0 (heap_append w r x) cur.
Proof.
  intros (Hk & Hc & Hcur) Hr Hx. split; [apply Keeps_heap_append; assumption|].
  split; [apply FreshClosed_heap_append; assumption | exact Hcur].
Qed.

(** the checker a contract decorator works on: found on the chain, or freshly created *)
Lemma checker_for_good w0 w cur w1 ch result :
  Good w0 w cur ->
  match find_checker w cur with
  | Some c => Ok (w, c, cur)
  | None => x <- decorate_with_checker w cur ;; Ok (fst x, snd x, snd x)
  end = Ok (w1, ch, result) ->
  Good w0 w1 result /\ List.length (w_funcs w0) <= ch.
Proof.
  intros Hg H. destruct (find_checker w cur) as [c|] eqn:E.
  - injection H as <- <- <-. split; [exact Hg|]. destruct Hg as (_ & Hc & Hcur). eapply find_checker_fresh; eauto.
  - destruct (decorate_with_checker w cur) as [[w' c]|e] eqn:Ed; cbn in H; [|discriminate].
    injection H as <- <- <-. destruct (decorate_with_checker_good w0 w cur w' c Hg Ed) as [Hg' _].
    split; [exact Hg'|]. destruct Hg' as (_ & _ & Hc). exact Hc.
Qed.

Theorem apply_deco_good w0 w cur d w' cur' :
  Good w0 w cur -> apply_deco w cur d = Ok (w', cur') -> Good w0 w' cur'.
Proof.
  intros Hg H. destruct d as [c en | c en | s en | k | e en]; unfold apply_deco in H.
  - (* require *)
    destruct en; cbn [negb] in H; [|injection H as <- <-; exact Hg].
    destruct (match find_checker w cur with
              | Some ch => Ok (w, ch, cur)
              | None => x <- decorate_with_checker w cur ;; Ok (fst x, snd x, snd x)
              end) as [[[w1 ch] result]|e] eqn:E; cbn [bind] in H; [|discriminate].
    destruct (checker_for_good w0 w cur w1 ch result Hg E) as [Hg1 Hch].
    destruct (get_func w1 ch) as [chf|] eqn:Ef; [|discriminate].
    destruct (fo_pre chf) as [rp|] eqn:Ep; [|discriminate].
    destruct Hg1 as (Hk1 & Hc1 & Hr1).
    destruct (Hc1 ch chf Hch Ef) as (_ & B & _ & _). destruct (B rp Ep) as [Brp Bg].
    destruct (group_refs w1 rp) as [|g gs] eqn:Egr.
    + destruct (alloc w1 []) as [wa g] eqn:Ea. injection H as <- <-.
      pose proof (Keeps_alloc w0 w1 [] Hk1) as [Ka Ra]. rewrite Ea in Ka, Ra. cbn in Ka, Ra.
      pose proof (FreshClosed_alloc_empty w0 w1 Hc1) as Ca. rewrite Ea in Ca. cbn in Ca.
      apply Good_heap_append; [|exact Ra | intros ? Hx; discriminate].
      apply Good_heap_append; [split; [exact Ka | split; [exact Ca | exact Hr1]] | exact Brp|].
      intros g' Hx. injection Hx as <-. exact Ra.
    + destruct gs as [|g2 gs2]; [|discriminate]. injection H as <- <-.
      apply Good_heap_append; [split; [exact Hk1 | split; [exact Hc1 | exact Hr1]] | | intros ? Hx; discriminate].
      apply Bg. cbn. auto.
  - (* ensure *)
    destruct en; cbn [negb] in H; [|injection H as <- <-; exact Hg].
    destruct (match find_checker w cur with
              | Some ch => Ok (w, ch, cur)
              | None => x <- decorate_with_checker w cur ;; Ok (fst x, snd x, snd x)
              end) as [[[w1 ch] result]|e] eqn:E; cbn [bind] in H; [|discriminate].
    destruct (checker_for_good w0 w cur w1 ch result Hg E) as [Hg1 Hch].
    destruct (get_func w1 ch) as [chf|] eqn:Ef; [|discriminate].
    destruct (fo_post chf) as [rq|] eqn:Ep; [|discriminate].
    injection H as <- <-.
    destruct Hg1 as (Hk1 & Hc1 & Hr1). destruct (Hc1 ch chf Hch Ef) as (_ & _ & _ & D).
    apply Good_heap_append; [split; [exact Hk1 | split; [exact Hc1 | exact Hr1]] | apply D; exact Ep | intros ? Hx; discriminate].
  - (* snapshot *)
    destruct en; cbn [negb] in H; [|injection H as <- <-; exact Hg].
    destruct (find_checker w cur) as [ch|] eqn:E; [|discriminate].
    destruct (get_func w ch) as [chf|] eqn:Ef; [|discriminate].
    destruct (fo_snaps chf) as [rs|] eqn:Es; [|discriminate].
    destruct (fo_post chf) as [rq|] eqn:Ep; [|discriminate].
    destruct (is_nil (contracts_of w rq)); [discriminate|].
    destruct (str_in (sname s) (snap_names w rs)); [discriminate|].
    injection H as <- <-.
    pose proof Hg as (Hk & Hc & Hcur).
    assert (List.length (w_funcs w0) <= ch) as Hch by (eapply find_checker_fresh; eauto).
    destruct (Hc ch chf Hch Ef) as (_ & _ & C & _).
    apply Good_heap_append; [exact Hg | apply C; exact Es | intros ? Hx; discriminate].
  - (* a foreign functools.wraps decorator *)
    destruct (wrap w (FForeign k) cur) as [[w1 nw]|] eqn:E; [|discriminate].
    injection H as <- <-. eapply wrap_good; eauto.
  - injection H as <- <-. exact Hg.
Qed.

Theorem apply_decos_good w0 ds : forall w cur w' cur',
  Good w0 w cur -> apply_decos w cur ds = Ok (w', cur') -> Good w0 w' cur'.
Proof.
  induction ds as [|d ds IH]; intros w cur w' cur' Hg H; cbn [apply_decos] in H.
  - injection H as <- <-. exact Hg.
  - destruct (apply_deco w cur d) as [[w1 c1]|e] eqn:E; cbn [bind] in H; [|discriminate].
    eapply IH; [eapply apply_deco_good; eauto | exact H].
Qed.

(** Decorating a function - any stack of contract decorators, foreign decorators, disabled or
    invalid ones - leaves every list cell, function object, class, module binding and registration
    that existed before exactly as it was. *)
Theorem define_function_keeps w s a ds w' f :
  define_function w s a ds = Ok (w', f) -> Keeps w w'.
Proof.
  unfold define_function. destruct (construction_error (rev ds)); [discriminate|].
  destruct (add_func w _) as [w1 f0] eqn:E. intros H.
  assert (Good w w1 f0) as Hg.
  { unfold add_func in E. injection E as <- <-. split; [|split].
    - pose proof (Keeps_add_func w w {| fo_role := FOrig; fo_wrapped := None; fo_pre := None; fo_snaps := None;
                                        fo_post := None; fo_sig := s; fo_async := a;
                                        fo_owner := List.length (w_funcs w) |} (Keeps_refl w)) as [K _]. exact K.
    - apply (FreshClosed_add_func w w); cbn; try discriminate.
      intros f1 fo Hf Hg1. apply get_func_bound in Hg1. lia.
    - cbn. lia. }
  destruct (apply_decos_good w ds w1 f0 w' f Hg H) as (K & _ & _). exact K.
Qed.
