(** C11, second sentence, for the model and every case: the first exception raised by user code - a condition, a
    truth test, a capture, an error factory, the body - ends the call and surfaces as that very exception object or
    as the library's wrapper chaining it: [spec_C11_surface c (run_case c) = true] for every well-formed case. *)
From Coq Require Import List String ZArith Bool Lia.
From ICV Require Import Base Bind Checker CheckerCase CheckerSpec CheckerOracle.
Import ListNotations.
Open Scope string_scope.
Open Scope list_scope.

Section Surface.
Variable c : ccase.

Let m := k_mode c.
Let U := case_user c.
Let pre := eff_pre (k_levels c).
Let snaps := eff_snaps (k_levels c).
Let post := eff_post (k_levels c).

Definition inv_list : list contract := match k_invs c with Some l => l ++ k_invs_set c | None => [] end.

(** contracts and snapshots are told apart by their numbers; invariants are plain functions *)
Definition wf_case : Prop :=
  NoDup (map cid (all_contracts c)) /\ NoDup (map sid snaps) /\ Forall (fun i => ckind_ i = CKPlain) inv_list.

Hypothesis Hwf : wf_case.

Lemma find_unique {A} (key : A -> Z) (l : list A) (x : A) :
  NoDup (map key l) -> In x l -> find (fun y => Z.eqb (key y) (key x)) l = Some x.
Proof.
  induction l as [|a r IH]; intros Hn Hin; [contradiction|]. cbn in Hn. inversion Hn as [|? ? Hna Hnr]; subst. cbn.
  destruct Hin as [->|Hin].
  - rewrite Z.eqb_refl. reflexivity.
  - destruct (Z.eqb (key a) (key x)) eqn:E.
    + apply Z.eqb_eq in E. exfalso. apply Hna. rewrite E. apply in_map. exact Hin.
    + apply IH; assumption.
Qed.

Lemma kind_of_cond_in x : In x (all_contracts c) -> kind_of_cond c (cid x) = ckind_ x.
Proof. intro H. unfold kind_of_cond. destruct Hwf as (Hn & _). rewrite (find_unique cid _ x Hn H). reflexivity. Qed.

Lemma kind_of_snap_in x : In x snaps -> kind_of_snap c (sid x) = skind x.
Proof. intro H. unfold kind_of_snap. destruct Hwf as (_ & Hn & _). unfold snaps in *. rewrite (find_unique sid _ x Hn H). reflexivity. Qed.

Definition Quiet (t : list event) : Prop := Forall (fun e => raised_at c e = None) t.

Definition Ends (t : list event) {A} (r : A + exn) : Prop :=
  Quiet t \/
  exists t0 e x, t = t0 ++ [e] /\ Quiet t0 /\ raised_at c e = Some x /\
                 (r = inr (XObj x) \/ exists cls, r = inr (XLib cls (Some x))).

Definition Surf {A} (mm : M A) : Prop := forall st t r st', mm st = (t, r, st') -> Ends t r.

Lemma Quiet_nil : Quiet []. Proof. constructor. Qed.
Lemma Quiet_app a b : Quiet a -> Quiet b -> Quiet (a ++ b). Proof. intros. apply Forall_app. auto. Qed.

Lemma Surf_ret {A} (a : A) : Surf (ret a).
Proof. intros st t r st' H. unfold ret in H. injection H as <- <- <-. left. apply Quiet_nil. Qed.

Lemma Surf_throw {A} x : Surf (@throw A x).
Proof. intros st t r st' H. unfold throw in H. injection H as <- <- <-. left. apply Quiet_nil. Qed.

Lemma Ends_prefix t1 t2 {A} (r : A + exn) : Quiet t1 -> Ends t2 r -> Ends (t1 ++ t2) r.
Proof.
  intros Q [Q2|(t0 & e & x & -> & Q0 & Hr & Hx)]; [left; apply Quiet_app; assumption|].
  right. exists (t1 ++ t0), e, x. split; [rewrite app_assoc; reflexivity|]. split; [apply Quiet_app; assumption|]. auto.
Qed.

Lemma Ends_cons e t {A} (r : A + exn) : raised_at c e = None -> Ends t r -> Ends (e :: t) r.
Proof. intros He H. apply (Ends_prefix [e] t); [constructor; [exact He|constructor]|exact H]. Qed.

Lemma Surf_bind {A B} (mm : M A) (k : A -> M B) : Surf mm -> (forall a, Surf (k a)) -> Surf (bindM mm k).
Proof.
  intros Hm Hk st t r st' H. unfold bindM in H. destruct (mm st) as [[t1 r1] st1] eqn:E1.
  pose proof (Hm _ _ _ _ E1) as H1. destruct r1 as [a|x].
  - destruct (k a st1) as [[t2 r2] st2] eqn:E2. injection H as <- <- <-.
    destruct H1 as [Q1|(t0 & e & y & _ & _ & _ & [Hr|(cls & Hr)])]; try discriminate.
    apply Ends_prefix; [exact Q1|exact (Hk a _ _ _ _ E2)].
  - injection H as <- <- <-. destruct H1 as [Q1|(t0 & e & y & -> & Q0 & Hr & Hx)]; [left; exact Q1|].
    right. exists t0, e, y. split; [reflexivity|]. split; [exact Q0|]. split; [exact Hr|].
    destruct Hx as [Hx|(cls & Hx)]; [left|right; exists cls]; injection Hx as ->; reflexivity.
Qed.


(** ** one condition *)
Lemma runs_unfold kd : runs c kd = match kd, k_mode c with CKPlain, _ => true | _, Async => true | _, Sync => false end.
Proof. reflexivity. Qed.

Lemma cond_char r cf cc res st t rr st' :
  In cc (all_contracts c) ->
  eval_condition m U r cf cc res st = (t, rr, st') ->
  st' = st /\
  ((t = [] /\ exists x, rr = inr x) \/
   exists kw, select (cargs cc) (cmandatory cc) res = Some kw /\ t = [EvCond r (cid cc) kw st] /\
     ((raised_at c (EvCond r (cid cc) kw st) = None /\ rr = inr (XLib "ValueError" None)) \/
      (raised_at c (EvCond r (cid cc) kw st) =
         match u_cond U (cid cc) kw st with CRaise e | CBoolRaise e => Some e | CRet _ => None end /\
       match u_cond U (cid cc) kw st with
       | CRet b => rr = inl b
       | CRaise e => rr = inr (XObj e)
       | CBoolRaise e => rr = inr (bool_raise e)
       end))).
Proof.
  intros Hin H. unfold eval_condition in H. unfold m in *.
  destruct (cf && match k_mode c, ckind_ cc with Sync, CKCoroFn => true | _, _ => false end).
  { unfold throw in H. injection H as <- <- <-. split; [reflexivity|]. left. split; [reflexivity|eauto]. }
  destruct (select (cargs cc) (cmandatory cc) res) as [kw|] eqn:Es.
  2:{ unfold throw in H. injection H as <- <- <-. split; [reflexivity|]. left. split; [reflexivity|eauto]. }
  destruct (match k_mode c, ckind_ cc with Sync, CKCoroFn => true | _, _ => false end) eqn:Er.
  { unfold throw in H. injection H as <- <- <-. split; [reflexivity|]. left. split; [reflexivity|eauto]. }
  unfold bindM, emit in H. cbn beta iota in H.
  assert (Hk : kind_of_cond c (cid cc) = ckind_ cc) by (apply kind_of_cond_in; exact Hin).
  destruct (k_mode c) eqn:Em; destruct (ckind_ cc) eqn:Ek; try discriminate.
  all: try (unfold throw in H; injection H as <- <- <-; split; [reflexivity|]; right; exists kw; split; [reflexivity|]; split; [reflexivity|];
            left; split; [cbn [raised_at]; rewrite Hk, runs_unfold; try rewrite Em; reflexivity|reflexivity]).
  all: assert (Hruns : runs c (kind_of_cond c (cid cc)) = true) by (rewrite Hk, runs_unfold; try rewrite Em; reflexivity).
  all: destruct (u_cond U (cid cc) kw st) eqn:Eu; unfold ret, throw in H; cbn beta iota in H; cbn [app] in H; injection H as <- <- <-;
       (split; [reflexivity|]; right; exists kw; split; [reflexivity|]; split; [reflexivity|]; right;
        split; [cbn [raised_at]; rewrite Hruns; fold U; try rewrite Eu; reflexivity|try rewrite Eu; reflexivity]).
Qed.

(** ** the error of a violated condition (the condition returned a truth value in this state) *)
Lemma error_ends r cc res st t rr st' :
  In cc (all_contracts c) ->
  (forall kw, select (cargs cc) (cmandatory cc) res = Some kw -> exists b, u_cond U (cid cc) kw st = CRet b) ->
  create_violation_error U r cc res st = (t, rr, st') -> st' = st /\ Ends t rr.
Proof.
  intros Hin Hc H. unfold create_violation_error in H.
  assert (Reeval : forall (k : M exn),
            (forall st1 t1 r1 st1', k st1 = (t1, r1, st1') -> st1' = st1 /\ Ends t1 r1) ->
            forall t1 r1 st1',
            bindM (if clambda cc
                   then match select (cargs cc) (cmandatory cc) res with
                        | Some kw => emit (EvCond r (cid cc) kw)
                        | None => ret tt
                        end
                   else ret tt) (fun _ => k) st = (t1, r1, st1') -> st1' = st /\ Ends t1 r1).
  { intros k Hk t1 r1 st1' Hb. unfold bindM in Hb.
    destruct (clambda cc).
    - destruct (select (cargs cc) (cmandatory cc) res) as [kw|] eqn:Es.
      + unfold emit in Hb. destruct (k st) as [[t2 r2] st2] eqn:Ek. injection Hb as <- <- <-.
        destruct (Hk _ _ _ _ Ek) as [-> He]. split; [reflexivity|].
        apply Ends_cons; [|exact He]. cbn [raised_at]. destruct (Hc kw eq_refl) as (b & Hb). fold U. rewrite Hb.
        destruct (runs c (kind_of_cond c (cid cc))); reflexivity.
      + unfold ret in Hb. destruct (k st) as [[t2 r2] st2] eqn:Ek. injection Hb as <- <- <-.
        destruct (Hk _ _ _ _ Ek) as [-> He]. split; [reflexivity|exact He].
    - unfold ret in Hb. destruct (k st) as [[t2 r2] st2] eqn:Ek. injection Hb as <- <- <-.
      destruct (Hk _ _ _ _ Ek) as [-> He]. split; [reflexivity|exact He]. }
  assert (Kret : forall (x : exn) st1 t1 (r1 : exn + exn) st1', ret x st1 = (t1, r1, st1') -> st1' = st1 /\ Ends t1 r1).
  { intros x st1 t1 r1 st1' Hx. unfold ret in Hx. injection Hx as <- <- <-. split; [reflexivity|left; constructor]. }
  destruct (cerror cc) as [|k|e|eargs emand].
  - exact (Reeval (ret (XViolation (cid cc))) (Kret _) _ _ _ H).
  - exact (Reeval (ret (XClass k (cid cc))) (Kret _) _ _ _ H).
  - unfold ret in H. injection H as <- <- <-. split; [reflexivity|left; constructor].
  - destruct (select eargs emand res) as [kw|]; [|unfold throw in H; injection H as <- <- <-; split; [reflexivity|left; constructor]].
    unfold bindM, emit in H. cbn beta iota in H.
    destruct (u_error U (cid cc) kw) eqn:Eu; unfold ret, throw in H; cbn beta iota in H; cbn [app] in H; injection H as <- <- <-;
      (split; [reflexivity|]).
    + left. constructor; [|constructor]. cbn [raised_at]. fold U. rewrite Eu. reflexivity.
    + left. constructor; [|constructor]. cbn [raised_at]. fold U. rewrite Eu. reflexivity.
    + right. exists [], (EvError (cid cc) kw), e. split; [reflexivity|]. split; [constructor|]. split; [|left; reflexivity].
      cbn [raised_at]. fold U. rewrite Eu. reflexivity.
Qed.

(** ** a condition followed by: the next step if it holds, its error otherwise *)
Lemma cond_step {B} r cf cc res (K : M B) (KE : exn -> M B) :
  In cc (all_contracts c) -> Surf K -> (forall x, Surf (KE x)) ->
  Surf (b <~ eval_condition m U r cf cc res ;; if b then K else x <~ create_violation_error U r cc res ;; KE x).
Proof.
  intros Hin HK HKE st t rr st' H. unfold bindM at 1 in H.
  destruct (eval_condition m U r cf cc res st) as [[t1 r1] st1] eqn:E1.
  destruct (cond_char r cf cc res st t1 r1 st1 Hin E1) as [-> Hc].
  destruct Hc as [(-> & x & ->)|(kw & Es & -> & Hc)].
  - injection H as <- <- <-. left. constructor.
  - destruct Hc as [(Hq & ->)|(Hra & Hres)].
    + injection H as <- <- <-. left. constructor; [exact Hq|constructor].
    + destruct (u_cond U (cid cc) kw st) as [b|e|e] eqn:Eu.
      * subst r1. assert (Q1 : Quiet [EvCond r (cid cc) kw st]) by (constructor; [exact Hra|constructor]).
        destruct b.
        -- destruct (K st) as [[t2 r2] st2] eqn:E2. injection H as <- <- <-. apply Ends_cons; [exact Hra|exact (HK _ _ _ _ E2)].
        -- unfold bindM in H. destruct (create_violation_error U r cc res st) as [[t2 r2] st2] eqn:E2.
           assert (Hc2 : forall kw0, select (cargs cc) (cmandatory cc) res = Some kw0 -> exists b, u_cond U (cid cc) kw0 st = CRet b).
           { intros kw0 Hk0. rewrite Es in Hk0. injection Hk0 as <-. eauto. }
           destruct (error_ends r cc res st t2 r2 st2 Hin Hc2 E2) as [-> He2].
           destruct r2 as [x|x].
           ++ destruct (KE x st) as [[t3 r3] st3] eqn:E3. injection H as <- <- <-.
              apply Ends_cons; [exact Hra|].
              destruct He2 as [Q2|(t0 & e0 & y & _ & _ & _ & [Hr|(cls & Hr)])]; try discriminate.
              apply Ends_prefix; [exact Q2|exact (HKE x _ _ _ _ E3)].
           ++ injection H as <- <- <-. apply Ends_cons; [exact Hra|].
              destruct He2 as [Q2|(t0 & e0 & y & -> & Q0 & Hr0 & Hx)]; [left; exact Q2|].
              right. exists t0, e0, y. split; [reflexivity|]. split; [exact Q0|]. split; [exact Hr0|].
              destruct Hx as [Hx|(cls & Hx)]; [left|right; exists cls]; injection Hx as ->; reflexivity.
      * subst r1. injection H as <- <- <-. right. exists [], (EvCond r (cid cc) kw st), e.
        split; [reflexivity|]. split; [constructor|]. split; [exact Hra|left; reflexivity].
      * subst r1. injection H as <- <- <-. right. exists [], (EvCond r (cid cc) kw st), e.
        split; [reflexivity|]. split; [constructor|]. split; [exact Hra|].
        unfold bool_raise. destruct (exc_is_exception e); [right; exists "ValueError"; reflexivity|left; reflexivity].
Qed.

(** ** the phases *)
Lemma surf_group res : forall g, (forall cc, In cc g -> In cc (all_contracts c)) -> Surf (eval_group m U g res).
Proof.
  induction g as [|cc rest IH]; intro Hin; cbn [eval_group]; [apply Surf_ret|].
  apply cond_step; [apply Hin; left; reflexivity|apply IH; intros x Hx; apply Hin; right; exact Hx|intro x; apply Surf_ret].
Qed.

Lemma surf_groups res : forall gs, (forall g cc, In g gs -> In cc g -> In cc (all_contracts c)) -> Surf (eval_groups m U gs res).
Proof.
  induction gs as [|g rest IH]; intro Hin; cbn [eval_groups]; [apply Surf_ret|].
  apply Surf_bind; [apply surf_group; intros cc Hc; apply (Hin g cc); [left; reflexivity|exact Hc]|].
  intros [x|]; [|apply Surf_ret]. destruct rest as [|g2 r2]; [apply Surf_ret|].
  apply IH. intros g' cc Hg Hc. apply (Hin g' cc); [right; exact Hg|exact Hc].
Qed.

Lemma surf_posts res : forall ps, (forall cc, In cc ps -> In cc (all_contracts c)) -> Surf (eval_posts m U ps res).
Proof.
  induction ps as [|cc rest IH]; intro Hin; cbn [eval_posts]; [apply Surf_ret|].
  apply cond_step; [apply Hin; left; reflexivity|apply IH; intros x Hx; apply Hin; right; exact Hx|intro x; apply Surf_ret].
Qed.

Lemma surf_capture_one sn res : In sn snaps -> Surf (capture_one m U sn res).
Proof.
  intros Hin st t rr st' H. unfold capture_one in H. unfold m in *.
  destruct (match k_mode c, skind sn with Sync, CKCoroFn => true | _, _ => false end) eqn:Er.
  { unfold throw in H. injection H as <- <- <-. left. constructor. }
  destruct (select (sargs sn) (sargs sn) res) as [kw|]; [|unfold throw in H; injection H as <- <- <-; left; constructor].
  unfold bindM, emit in H. cbn beta iota in H.
  assert (Hk : kind_of_snap c (sid sn) = skind sn) by (apply kind_of_snap_in; exact Hin).
  destruct (k_mode c) eqn:Em; destruct (skind sn) eqn:Ek; try discriminate.
  all: try (unfold throw in H; injection H as <- <- <-; left; constructor; [|constructor];
            cbn [raised_at]; rewrite Hk, runs_unfold; try rewrite Em; reflexivity).
  all: assert (Hruns : runs c (kind_of_snap c (sid sn)) = true) by (rewrite Hk, runs_unfold; try rewrite Em; reflexivity).
  all: destruct (u_capture U (sid sn) kw st) eqn:Eu; unfold ret, throw in H; cbn beta iota in H; cbn [app] in H; injection H as <- <- <-.
  all: try (left; constructor; [|constructor]; cbn [raised_at]; rewrite Hruns; fold U; rewrite Eu; reflexivity).
  all: right; exists [], (EvCapture (sid sn) kw st), e; split; [reflexivity|]; split; [constructor|]; split; [|left; reflexivity];
       cbn [raised_at]; rewrite Hruns; fold U; rewrite Eu; reflexivity.
Qed.

Lemma surf_capture_old res : forall sns old, (forall sn, In sn sns -> In sn snaps) -> Surf (capture_old m U sns res old).
Proof.
  induction sns as [|sn rest IH]; intros old Hin; cbn [capture_old]; [apply Surf_ret|].
  apply Surf_bind; [apply surf_capture_one; apply Hin; left; reflexivity|].
  intro v. apply IH. intros x Hx. apply Hin. right. exact Hx.
Qed.

Lemma surf_body : Surf (run_body U (k_sig c) (k_args c) (k_kwargs c)).
Proof.
  intros st t rr st' H. unfold run_body in H. destruct (pybind (k_sig c) (k_args c) (k_kwargs c)) as [env|].
  - destruct (u_body U (k_args c) (k_kwargs c) st) as [[v|e] stb] eqn:Eb; injection H as <- <- <-.
    + left. constructor; [|constructor]. cbn [raised_at]. fold U. rewrite Eb. reflexivity.
    + right. exists [], (EvBody env st), e. split; [reflexivity|]. split; [constructor|]. split; [|left; reflexivity].
      cbn [raised_at]. fold U. rewrite Eb. reflexivity.
  - injection H as <- <- <-. left. constructor.
Qed.

Lemma inv_in_all cc : In cc inv_list -> In cc (all_contracts c).
Proof.
  intro H. unfold all_contracts. apply in_or_app. right. apply in_or_app. right. unfold inv_list in H. exact H.
Qed.

Lemma inv_plain cc : In cc inv_list -> kind_of_cond c (cid cc) = CKPlain.
Proof.
  intro H. rewrite (kind_of_cond_in cc (inv_in_all cc H)). destruct Hwf as (_ & _ & Hp).
  rewrite Forall_forall in Hp. exact (Hp cc H).
Qed.

Lemma select_self cc self kw :
  select (cargs cc) (cmandatory cc) [("self", self)] = Some kw -> kw = inv_kwargs cc self.
Proof.
  unfold select, inv_kwargs. destruct (forallb _ (cmandatory cc)); [|discriminate]. intro H. injection H as <-.
  cbn [filter fst]. destruct (str_in "self" (cargs cc)); reflexivity.
Qed.

Lemma surf_invariants self : forall l, (forall cc, In cc l -> In cc inv_list) -> Surf (check_invariants U l self).
Proof.
  induction l as [|cc rest IH]; intro Hin; cbn [check_invariants]; [apply Surf_ret|].
  assert (Hcc : In cc inv_list) by (apply Hin; left; reflexivity).
  assert (IHr : Surf (check_invariants U rest self)) by (apply IH; intros x Hx; apply Hin; right; exact Hx).
  intros st t rr st' H. unfold bindM at 1 in H. unfold eval_invariant, bindM, emit in H. cbn beta iota in H.
  assert (Hruns : runs c (kind_of_cond c (cid cc)) = true) by (rewrite (inv_plain cc Hcc); reflexivity).
  destruct (u_cond U (cid cc) (inv_kwargs cc self) st) as [b|e|e] eqn:Eu; unfold ret, throw in H; cbn beta iota in H; cbn [app] in H.
  - assert (Hq : raised_at c (EvCond RInv (cid cc) (inv_kwargs cc self) st) = None)
      by (cbn [raised_at]; rewrite Hruns; fold U; rewrite Eu; reflexivity).
    destruct b.
    + destruct (check_invariants U rest self st) as [[t2 r2] st2] eqn:E2. injection H as <- <- <-.
      apply Ends_cons; [exact Hq|exact (IHr _ _ _ _ E2)].
    + destruct (create_violation_error U RInv cc [("self", self)] st) as [[t2 r2] st2] eqn:E2.
      assert (Hc2 : forall kw0, select (cargs cc) (cmandatory cc) [("self", self)] = Some kw0 -> exists b, u_cond U (cid cc) kw0 st = CRet b).
      { intros kw0 Hk0. rewrite (select_self cc self kw0 Hk0). eauto. }
      destruct (error_ends RInv cc [("self", self)] st t2 r2 st2 (inv_in_all cc Hcc) Hc2 E2) as [-> He2].
      destruct r2 as [x|x]; injection H as <- <- <-; apply Ends_cons; try exact Hq.
      * rewrite app_nil_r. destruct He2 as [Q2|(t0 & e0 & y & _ & _ & _ & [Hr|(cls & Hr)])]; try discriminate. left. exact Q2.
      * destruct He2 as [Q2|(t0 & e0 & y & -> & Q0 & Hr0 & Hx)]; [left; exact Q2|].
        right. exists t0, e0, y. split; [reflexivity|]. split; [exact Q0|]. split; [exact Hr0|].
        destruct Hx as [Hx|(cls & Hx)]; [left|right; exists cls]; injection Hx as ->; reflexivity.
  - injection H as <- <- <-. right. exists [], (EvCond RInv (cid cc) (inv_kwargs cc self) st), e.
    split; [reflexivity|]. split; [constructor|]. split; [|left; reflexivity].
    cbn [raised_at]. rewrite Hruns. fold U. rewrite Eu. reflexivity.
  - injection H as <- <- <-. right. exists [], (EvCond RInv (cid cc) (inv_kwargs cc self) st), e.
    split; [reflexivity|]. split; [constructor|]. split; [cbn [raised_at]; rewrite Hruns; fold U; rewrite Eu; reflexivity|].
    unfold bool_raise. destruct (exc_is_exception e); [right; exists "ValueError"; reflexivity|left; reflexivity].
Qed.

Lemma pre_in_all g cc : In g pre -> In cc g -> In cc (all_contracts c).
Proof.
  intros Hg Hc. unfold all_contracts. apply in_or_app. left. apply in_concat. exists g. split; [exact Hg|exact Hc].
Qed.

Lemma post_in_all cc : In cc post -> In cc (all_contracts c).
Proof. intro H. unfold all_contracts. apply in_or_app. right. apply in_or_app. left. exact H. Qed.

Lemma surf_checker_call : Surf (checker_call m U (k_sig c) pre snaps post (k_args c) (k_kwargs c)).
Proof.
  unfold checker_call. destruct (dict_has _ "_ARGS" || dict_has _ "_KWARGS"); [apply Surf_throw|].
  destruct (negb (is_nil post) && _); [apply Surf_throw|].
  apply Surf_bind; [apply surf_groups; exact pre_in_all|].
  intros [x|]; [apply Surf_throw|].
  apply Surf_bind.
  { destruct (negb (is_nil post) && negb (is_nil snaps)); [|apply Surf_ret].
    apply Surf_bind; [apply surf_capture_old; auto|intro; apply Surf_ret]. }
  intro res1. apply Surf_bind; [exact surf_body|]. intro result.
  destruct (is_nil post); [apply Surf_ret|].
  apply Surf_bind; [apply surf_posts; exact post_in_all|]. intros [x|]; [apply Surf_throw|apply Surf_ret].
Qed.

Lemma around_in_inv cc : In cc (around_invs c) -> In cc inv_list.
Proof.
  unfold around_invs, inv_list, setattr_list. destruct (k_invs c) as [invs|]; [|intros []].
  destruct (k_kind c); try (intros []); try (intro H; apply in_or_app; left; exact H).
  destruct (is_nil _); intro H; [apply in_or_app; left; exact H|].
  apply in_app_or in H as [H|H]; apply in_or_app; [left; apply filter_In in H; tauto|right; exact H].
Qed.

Lemma surf_case : Surf (case_M c).
Proof.
  unfold case_M. fold U.
  set (inner := if is_nil (eff_pre (k_levels c)) && is_nil (eff_post (k_levels c))
                then run_body U (k_sig c) (k_args c) (k_kwargs c)
                else checker_call (k_mode c) U (k_sig c) (eff_pre (k_levels c)) (eff_snaps (k_levels c))
                                  (eff_post (k_levels c)) (k_args c) (k_kwargs c)).
  assert (Hi : Surf inner) by (unfold inner; destruct (is_nil _ && is_nil _); [exact surf_body|exact surf_checker_call]).
  assert (Hm : Surf (method_call U (around_invs c) (hd PNone (k_args c)) inner)).
  { unfold method_call. apply Surf_bind; [apply surf_invariants; exact around_in_inv|intros _].
    apply Surf_bind; [exact Hi|intro result]. apply Surf_bind; [apply surf_invariants; exact around_in_inv|intros _; apply Surf_ret]. }
  destruct (k_invs c) as [invs|] eqn:Ei; [|exact Hi].
  destruct (k_kind c); try exact Hi; try exact Hm.
  unfold init_call. apply Surf_bind; [exact Hi|intro result].
  apply Surf_bind; [|intros _; apply Surf_ret]. apply surf_invariants. intros cc Hc. unfold inv_list. rewrite Ei. exact Hc.
Qed.

Lemma first_raised_quiet t : Quiet t -> first_raised c t = None.
Proof. induction 1 as [|e r He _ IH]; cbn; [reflexivity|]. rewrite He. exact IH. Qed.

Lemma first_raised_ends t0 e x : Quiet t0 -> raised_at c e = Some x -> first_raised c (t0 ++ [e]) = Some (x, []).
Proof. induction 1 as [|e0 r He _ IH]; intro Hx; cbn; [rewrite Hx; reflexivity|]. rewrite He. exact (IH Hx). Qed.

Lemma ends_spec t (r : pv + exn) : Ends t r -> spec_C11_surface c t r = true.
Proof.
  intros [Q|(t0 & e & x & -> & Q0 & Hr & Hx)]; unfold spec_C11_surface.
  - rewrite (first_raised_quiet t Q). reflexivity.
  - rewrite (first_raised_ends t0 e x Q0 Hr). cbn. destruct Hx as [->|(cls & ->)]; apply Z.eqb_refl.
Qed.

(** ** the statement *)
Theorem surface_sound : spec_C11_surface c (fst (run_case c)) (snd (run_case c)) = true.
Proof.
  unfold run_case, run_M. destruct (case_M c (k_store c)) as [[t r] st'] eqn:E. cbn [fst snd].
  pose proof (surf_case _ _ _ _ E) as He. apply ends_spec.
  destruct He as [Q|(t0 & e & x & -> & Q0 & Hr & Hx)]; [left; exact Q|].
  right. exists t0, e, x. split; [reflexivity|]. split; [exact Q0|]. split; [exact Hr|].
  destruct Hx as [->|(cls & ->)]; [left|right; exists cls]; destruct (k_kind c); reflexivity.
Qed.
End Surface.

(** a concrete case: f(x) with two preconditions, the second raises exception object 8 *)
Definition ex_k (n : Z) : contract :=
  {| cid := n; cargs := ["x"]; cmandatory := ["x"]; ckind_ := CKPlain; cerror := ENone; clambda := false |}.
Definition ex_case : ccase :=
  {| k_kind := KFunction; k_mode := Sync;
     k_sig := {| posonly := []; poskw := [{| pname := "x"; pdefault := None |}]; varpos := None; kwonly := []; varkw := None |};
     k_levels := [{| l_pre := [ex_k 1; ex_k 2]; l_snaps := []; l_post := [] |}];
     k_invs := None; k_invs_all := []; k_invs_set := []; k_args := [PObj 1]; k_kwargs := [];
     k_tables := {| t_cond := [(1%Z, (CRet true, CRet true)); (2%Z, (CRaise 8, CRaise 8))]; t_capture := []; t_error := [];
                    t_body := BRet PNone; t_mutate := [] |};
     k_store := [] |}.
Lemma surface_nonvacuous :
  wf_case ex_case /\ snd (run_case ex_case) = inr (XObj 8) /\ List.length (fst (run_case ex_case)) = 2%nat.
Proof.
  split; [|split; vm_compute; reflexivity].
  unfold wf_case. vm_compute. repeat split; repeat constructor; cbn; intuition discriminate.
Qed.
