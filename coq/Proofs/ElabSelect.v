(** C03: the member-selection rule of [add_invariant_checks] (Model/Elab.v [wrap_member]). *)
From ICV Require Import Base Bind Checker Elab.
Open Scope string_scope.
Open Scope list_scope.

Definition must_wrap_name (w : world) (k : nat) (name : string) : bool :=
  negb (str_in name ["__new__"; "__repr__"; "__getattribute__"; "__init__"])
  && negb (is_private name)
  && (if String.eqb name "__setattr__" then negb (is_nil (class_invs w k LSet)) else negb (is_nil (class_invs w k LCall))).

(** a member is touched only if the rule selects its name and it is a plain function, a slot
    wrapper or a property - never a class method or a static method *)
Lemma wrap_member_selects w k name :
  wrap_member w k name = w
  \/ (must_wrap_name w k name = true
      /\ match class_getattr w k name with
         | Some (MemFunc MPlain _) | Some (MemSlot _) | Some (MemProp _ _ _) => True
         | _ => False
         end).
Proof.
  unfold wrap_member, must_wrap_name.
  destruct (str_in name ["__new__"; "__repr__"; "__getattribute__"; "__init__"]); [left; reflexivity|].
  cbn [negb andb].
  destruct (String.eqb name "__setattr__") eqn:Es.
  - cbn [negb andb]. destruct (is_nil (class_invs w k LSet)) eqn:En; cbn [negb andb]; [left; reflexivity|].
    destruct (is_private name); cbn [negb andb]; [left; reflexivity|].
    destruct (class_getattr w k name) as [[[] f | g s d | n]|]; auto.
  - cbn [negb andb]. destruct (is_nil (class_invs w k LCall)) eqn:En; cbn [negb andb]; [left; reflexivity|].
    destruct (is_private name); cbn [negb andb]; [left; reflexivity|].
    destruct (class_getattr w k name) as [[[] f | g s d | n]|]; auto.
Qed.
