(** Property-level consequences of the call graph of [checker_call]
    (used by Props/C01, C02, C08, C16). *)
From ICV Require Import Base Bind Checker CheckerSpec CheckerFrame.
Open Scope string_scope.
Open Scope list_scope.

Lemma only_existsb_false (P Q : event -> bool) t :
  (forall e, P e = true -> Q e = false) -> only P t -> existsb Q t = false.
Proof.
  intros HPQ H. induction H as [|e t He Ht IH]; cbn; auto. rewrite (HPQ _ He), IH. reflexivity.
Qed.

Lemma pre_event_not_body e : pre_event e = true -> is_body e = false.
Proof. destruct e; cbn; auto; discriminate. Qed.
Lemma pre_event_not_capture e : pre_event e = true -> is_capture e = false.
Proof. destruct e; cbn; auto; discriminate. Qed.
Lemma pre_event_not_post e : pre_event e = true -> is_cond_of RPost e = false.
Proof. destruct e as [r ? ? ?| | |]; cbn; auto. destruct r; cbn; auto; discriminate. Qed.
Lemma capture_not_body e : is_capture e = true -> is_body e = false.
Proof. destruct e; cbn; auto; discriminate. Qed.
Lemma capture_not_post e : is_capture e = true -> is_cond_of RPost e = false.
Proof. destruct e; cbn; auto; discriminate. Qed.
Lemma post_event_not_body e : post_event e = true -> is_body e = false.
Proof. destruct e; cbn; auto; discriminate. Qed.
Lemma post_event_not_capture e : post_event e = true -> is_capture e = false.
Proof. destruct e; cbn; auto; discriminate. Qed.

Section Props.
  Variables (m : mode) (U : user) (s : sig) (pre : list (list contract)) (snaps : list snapshot)
            (post : list contract) (args : list pv) (kwargs : dict).

  Let resolved := resolve_sig s args kwargs.
  Let call := checker_call m U s pre snaps post args kwargs.

  (** *** C01 *)
  Theorem body_implies_pre st t r st' :
    call st = (t, r, st') ->
    existsb is_body t = true ->
    reserved_kw kwargs = false /\ pre_holds m U pre resolved st = true.
  Proof.
    intros H Hb. apply checker_call_graph in H.
    inversion H as [Hr | Hr Hc | tp x Hr Hc E | tp x Hr Hc E | tp tc x Hr Hc E Hcap Ecap
                    | tp tc old tb r0 st0 Hr Hc E Hcap Hbx]; subst.
    - discriminate.
    - discriminate.
    - apply eval_groups_spec in E as (_ & Ho & _).
      rewrite (only_existsb_false _ _ _ pre_event_not_body Ho) in Hb. discriminate.
    - apply eval_groups_spec in E as (_ & Ho & _).
      rewrite (only_existsb_false _ _ _ pre_event_not_body Ho) in Hb. discriminate.
    - apply eval_groups_spec in E as (_ & Ho & Hp). split; assumption.
    - apply eval_groups_spec in E as (_ & Ho & Hp). split; assumption.
  Qed.

  Theorem reject_when_pre_fails st t r st' :
    call st = (t, r, st') ->
    pre_holds m U pre resolved st = false ->
    existsb is_body t = false /\ existsb is_capture t = false /\ (exists x, r = inr x) /\ st' = st.
  Proof.
    intros H Hp. apply checker_call_graph in H.
    inversion H as [Hr | Hr Hc | tp x Hr Hc E | tp x Hr Hc E | tp tc x Hr Hc E Hcap Ecap
                    | tp tc old tb r0 st0 Hr Hc E Hcap Hbx]; subst.
    - repeat split; eauto.
    - repeat split; eauto.
    - apply eval_groups_spec in E as (_ & Ho & _). repeat split; eauto.
      + apply (only_existsb_false _ _ _ pre_event_not_body Ho).
      + apply (only_existsb_false _ _ _ pre_event_not_capture Ho).
    - apply eval_groups_spec in E as (_ & Ho & _). repeat split; eauto.
      + apply (only_existsb_false _ _ _ pre_event_not_body Ho).
      + apply (only_existsb_false _ _ _ pre_event_not_capture Ho).
    - apply eval_groups_spec in E as (_ & _ & Hp'). fold resolved in Hp'. congruence.
    - apply eval_groups_spec in E as (_ & _ & Hp'). fold resolved in Hp'. congruence.
  Qed.

  (** every condition of every group evaluates to a truth value and every error can be created *)
  Definition pre_benign (st : store) : Prop :=
    forall g c, In g pre -> In c g ->
                (exists b, cond_val m U RPre false c resolved st = inl b)
                /\ (exists x, error_of U RPre c resolved st = inl x).

  Theorem violation_is_first_falsy_of_last_group st t r st' :
    call st = (t, r, st') ->
    reserved_kw kwargs = false -> clashing_names s post args kwargs = false ->
    pre_benign st ->
    pre_holds m U pre resolved st = false ->
    exists g c x, last_opt pre = Some g
                  /\ first_failing m U RPre false resolved st g = Some c
                  /\ error_of U RPre c resolved st = inl x
                  /\ r = inr x.
  Proof.
    intros H Hr0 Hc0 Hben Hp. apply checker_call_graph in H.
    inversion H as [Hr | Hr Hc | tp x Hr Hc E | tp x Hr Hc E | tp tc x Hr Hc E Hcap Ecap
                    | tp tc old tb r0 st0 Hr Hc E Hcap Hbx]; subst; try congruence.
    - apply eval_groups_spec in E as (_ & _ & (_ & g & c & Hl & Hs & Hv & He)).
      exists g, c, x. auto.
    - apply eval_groups_spec in E as (_ & _ & (g & c & Hin & Hs & Hbad)).
      assert (In c g) as Hcg by (apply find_some in Hs as [? _]; assumption).
      destruct (Hben g c Hin Hcg) as [[b Hb] [y Hy]].
      fold resolved in Hbad. destruct Hbad as [Hbad | [_ Hbad]]; congruence.
    - apply eval_groups_spec in E as (_ & _ & Hp'). fold resolved in Hp'. congruence.
    - apply eval_groups_spec in E as (_ & _ & Hp'). fold resolved in Hp'. congruence.
  Qed.

  Definition snaps_benign (st : store) : Prop :=
    forall tc x, capture_old m U snaps resolved [] st <> (tc, inr x, st).

  Theorem accept_when_pre_holds st t r st' :
    call st = (t, r, st') ->
    reserved_kw kwargs = false -> clashing_names s post args kwargs = false ->
    pre_benign st -> snaps_benign st ->
    pybind s args kwargs <> None ->
    pre_holds m U pre resolved st = true ->
    existsb is_body t = true.
  Proof.
    intros H Hr0 Hc0 Hben Hsb Hbind Hp. apply checker_call_graph in H.
    inversion H as [Hr | Hr Hc | tp x Hr Hc E | tp x Hr Hc E | tp tc x Hr Hc E Hcap Ecap
                    | tp tc old tb r0 st0 Hr Hc E Hcap Hbx]; subst; try congruence.
    - apply eval_groups_spec in E as (_ & _ & (Hp' & _)). fold resolved in Hp'. congruence.
    - apply eval_groups_spec in E as (_ & _ & (g & c & Hin & Hs & Hbad)).
      assert (In c g) as Hcg by (apply find_some in Hs as [? _]; assumption).
      destruct (Hben g c Hin Hcg) as [[b Hb] [y Hy]].
      fold resolved in Hbad. destruct Hbad as [Hbad | [_ Hbad]]; congruence.
    - exfalso. eapply Hsb. exact Ecap.
    - rewrite !existsb_app.
      inversion Hbx; subst; try congruence; cbn; rewrite ?orb_true_r; reflexivity.
  Qed.

  (** *** C02 *)
  Theorem return_means_posts_hold st t r st' v :
    call st = (t, r, st') -> r = inl v ->
    exists old stb,
      u_body U args kwargs st = (BRet v, stb) /\ st' = stb
      /\ posts_hold m U post (resolved_post s snaps post args kwargs old v) stb = true.
  Proof.
    intros H Hv. apply checker_call_graph in H.
    inversion H as [Hr | Hr Hc | tp x Hr Hc E | tp x Hr Hc E | tp tc x Hr Hc E Hcap Ecap
                    | tp tc old tb r0 st0 Hr Hc E Hcap Hbx]; subst; try discriminate.
    inversion Hbx as [old0 Hb | old0 env e stb Hb Hu | old0 env v0 stb Hb Hu Hpost
                      | old0 env v0 stb tq w Hb Hu Hpost Eq]; subst; try discriminate.
    - exists old, st'. repeat split; auto.
    - destruct w as [[x|]|x]; try discriminate.
      match goal with Hx : inl _ = inl _ |- _ => injection Hx as -> end.
      exists old, st'. repeat split; auto.
      apply eval_posts_spec in Eq as (_ & _ & Hh). exact Hh.
  Qed.

  Theorem body_exception_passes_unchanged st t r st' e stb :
    call st = (t, r, st') ->
    existsb is_body t = true ->
    u_body U args kwargs st = (BRaise e, stb) ->
    r = inr (XObj e) /\ st' = stb /\ existsb (is_cond_of RPost) t = false.
  Proof.
    intros H Hbody Hu. apply checker_call_graph in H.
    inversion H as [Hr | Hr Hc | tp x Hr Hc E | tp x Hr Hc E | tp tc x Hr Hc E Hcap Ecap
                    | tp tc old tb r0 st0 Hr Hc E Hcap Hbx]; subst; try discriminate.
    - apply eval_groups_spec in E as (_ & Ho & _).
      rewrite (only_existsb_false _ _ _ pre_event_not_body Ho) in Hbody. discriminate.
    - apply eval_groups_spec in E as (_ & Ho & _).
      rewrite (only_existsb_false _ _ _ pre_event_not_body Ho) in Hbody. discriminate.
    - apply eval_groups_spec in E as (_ & Ho & _).
      apply capture_old_spec in Ecap as (_ & Hoc & _).
      rewrite existsb_app in Hbody.
      rewrite (only_existsb_false _ _ _ pre_event_not_body Ho) in Hbody.
      rewrite (only_existsb_false _ _ _ capture_not_body Hoc) in Hbody. discriminate.
    - assert (only is_capture tc) as Hoc.
      { destruct (capturing snaps post).
        - apply capture_old_spec in Hcap as (_ & Hoc & _). exact Hoc.
        - destruct Hcap as [-> _]. apply only_nil. }
      apply eval_groups_spec in E as (_ & Ho & _).
      inversion Hbx as [old0 Hb | old0 env e0 stb0 Hb Hu0 | old0 env v0 stb0 Hb Hu0 Hpost
                        | old0 env v0 stb0 tq w Hb Hu0 Hpost Eq]; subst; try congruence.
      + rewrite !existsb_app in Hbody.
        rewrite (only_existsb_false _ _ _ pre_event_not_body Ho) in Hbody.
        rewrite (only_existsb_false _ _ _ capture_not_body Hoc) in Hbody. discriminate.
      + rewrite Hu in Hu0. injection Hu0 as <- <-. repeat split.
        rewrite !existsb_app.
        rewrite (only_existsb_false _ _ _ pre_event_not_post Ho).
        rewrite (only_existsb_false _ _ _ capture_not_post Hoc). reflexivity.
  Qed.

  Definition posts_benign (res : dict) (st : store) : Prop :=
    forall c, In c post ->
              (exists b, cond_val m U RPost true c res st = inl b)
              /\ (exists x, error_of U RPost c res st = inl x).

  Theorem post_violation_is_first_falsy st t r st' v stb :
    call st = (t, r, st') ->
    existsb is_body t = true ->
    u_body U args kwargs st = (BRet v, stb) ->
    exists old,
      let res := resolved_post s snaps post args kwargs old v in
      st' = stb
      /\ (if capturing snaps post
          then exists tc, capture_old m U snaps resolved [] st = (tc, inl old, st)
          else old = [])
      /\ (posts_hold m U post res stb = true -> r = inl v)
      /\ (posts_hold m U post res stb = false -> posts_benign res stb ->
          exists c x, first_failing m U RPost true res stb post = Some c
                      /\ error_of U RPost c res stb = inl x /\ r = inr x).
  Proof.
    intros H Hbody Hu. apply checker_call_graph in H.
    inversion H as [Hr | Hr Hc | tp x Hr Hc E | tp x Hr Hc E | tp tc x Hr Hc E Hcap Ecap
                    | tp tc old tb r0 st0 Hr Hc E Hcap Hbx]; subst; try discriminate.
    - apply eval_groups_spec in E as (_ & Ho & _).
      rewrite (only_existsb_false _ _ _ pre_event_not_body Ho) in Hbody. discriminate.
    - apply eval_groups_spec in E as (_ & Ho & _).
      rewrite (only_existsb_false _ _ _ pre_event_not_body Ho) in Hbody. discriminate.
    - apply eval_groups_spec in E as (_ & Ho & _).
      apply capture_old_spec in Ecap as (_ & Hoc & _).
      rewrite existsb_app in Hbody.
      rewrite (only_existsb_false _ _ _ pre_event_not_body Ho) in Hbody.
      rewrite (only_existsb_false _ _ _ capture_not_body Hoc) in Hbody. discriminate.
    - exists old. cbn zeta.
      assert (only is_capture tc) as Hoc.
      { destruct (capturing snaps post).
        - apply capture_old_spec in Hcap as (_ & Hoc & _). exact Hoc.
        - destruct Hcap as [-> _]. apply only_nil. }
      apply eval_groups_spec in E as (_ & Ho & _).
      inversion Hbx as [old0 Hb | old0 env e0 stb0 Hb Hu0 | old0 env v0 stb0 Hb Hu0 Hpost
                        | old0 env v0 stb0 tq w Hb Hu0 Hpost Eq]; subst; try congruence.
      + rewrite !existsb_app in Hbody.
        rewrite (only_existsb_false _ _ _ pre_event_not_body Ho) in Hbody.
        rewrite (only_existsb_false _ _ _ capture_not_body Hoc) in Hbody. discriminate.
      + rewrite Hu in Hu0. injection Hu0 as <- <-. split; [reflexivity|].
        split; [destruct (capturing snaps post); [eauto | tauto]|].
        split; [auto | intros Hf; rewrite Hpost in Hf; cbn in Hf; discriminate].
      + rewrite Hu in Hu0. injection Hu0 as <- <-.
        apply eval_posts_spec in Eq as (_ & _ & Hw). split; [reflexivity|].
        split; [destruct (capturing snaps post); [eauto | tauto]|]. split.
        * intros Hh. destruct w as [[x|]|x]; auto.
          -- destruct Hw as (c & Hf & _). apply find_some in Hf as [Hin Hf].
             unfold posts_hold in Hh. rewrite forallb_forall in Hh. rewrite (Hh _ Hin) in Hf. discriminate.
          -- destruct Hw as (c & Hf & _). apply find_some in Hf as [Hin Hf].
             unfold posts_hold in Hh. rewrite forallb_forall in Hh. rewrite (Hh _ Hin) in Hf. discriminate.
        * intros Hh Hben. destruct w as [[x|]|x].
          -- destruct Hw as (c & Hf & Hv & He). exists c, x. auto.
          -- congruence.
          -- destruct Hw as (c & Hf & Hbad). assert (In c post) as Hin by (apply find_some in Hf as [? _]; assumption).
             destruct (Hben c Hin) as [[b Hb'] [y Hy]]. destruct Hbad as [Hbad | [_ Hbad]]; congruence.
  Qed.

  (** *** C08 / C16: phases of the trace *)
  Theorem trace_phases st t r st' :
    call st = (t, r, st') ->
    exists tp tc tb tq,
      t = tp ++ tc ++ tb ++ tq
      /\ only pre_event tp /\ only is_capture tc
      /\ (tb = [] \/ exists env, tb = [EvBody env st]) /\ only post_event tq
      /\ (tc <> [] -> capturing snaps post = true /\ pre_holds m U pre resolved st = true)
      /\ (tb <> [] -> (if capturing snaps post then capture_ids tc = map sid snaps else tc = []))
      /\ (tb = [] -> tq = []).
  Proof.
    intros H. apply checker_call_graph in H.
    inversion H as [Hr | Hr Hc | tp x Hr Hc E | tp x Hr Hc E | tp tc x Hr Hc E Hcap Ecap
                    | tp tc old tb r0 st0 Hr Hc E Hcap Hbx]; subst.
    - exists [], [], [], []. repeat split; try apply only_nil; auto; congruence.
    - exists [], [], [], []. repeat split; try apply only_nil; auto; congruence.
    - apply eval_groups_spec in E as (_ & Ho & _).
      exists t, [], [], []. rewrite !app_nil_r. repeat split; try apply only_nil; auto; congruence.
    - apply eval_groups_spec in E as (_ & Ho & _).
      exists t, [], [], []. rewrite !app_nil_r. repeat split; try apply only_nil; auto; congruence.
    - apply eval_groups_spec in E as (_ & Ho & Hp).
      apply capture_old_spec in Ecap as (_ & Hoc & _).
      exists tp, tc, [], []. rewrite !app_nil_r. repeat split; try apply only_nil; auto; congruence.
    - apply eval_groups_spec in E as (_ & Ho & Hp).
      assert (only is_capture tc /\ (tc <> [] -> capturing snaps post = true)
              /\ (if capturing snaps post then capture_ids tc = map sid snaps else tc = [])) as (Hoc & Hne & Hids).
      { destruct (capturing snaps post).
        - apply capture_old_spec in Hcap as (_ & Hoc & Hids). auto.
        - destruct Hcap as [-> _]. repeat split; auto. apply only_nil. }
      inversion Hbx as [old0 Hb | old0 env e0 stb0 Hb Hu0 | old0 env v0 stb0 Hb Hu0 Hpost
                        | old0 env v0 stb0 tq w Hb Hu0 Hpost Eq]; subst.
      + exists tp, tc, [], []. repeat split; try apply only_nil; auto; congruence.
      + exists tp, tc, [EvBody env st], []. repeat split; try apply only_nil; eauto; congruence.
      + exists tp, tc, [EvBody env st], []. repeat split; try apply only_nil; eauto; congruence.
      + apply eval_posts_spec in Eq as (_ & Hoq & _).
        exists tp, tc, [EvBody env st], tq. repeat split; eauto; congruence.
  Qed.
End Props.
