(** The generated [kwargs_from_call] (translated from /repo on every run) refines the clean
    [Bind.resolve].  A change of the source that alters what the function computes breaks
    this file (or keeps it provable if it is a harmless rewrite). *)
From ICV Require Import Base Generated Bind DictLemmas.
Open Scope string_scope.
Open Scope list_scope.

Definition items_of (kvs : dict) : list pv := map (fun kv => PTuple [PStr (fst kv); snd kv]) kvs.

Lemma fold_set_all (f : pv -> pv -> res pv) :
  (forall r k v, f (PDict r) (PTuple [PStr k; v]) = Ok (PDict (dict_set r k v))) ->
  forall kvs r, fold_res f (items_of kvs) (PDict r) = Ok (PDict (set_all kvs r)).
Proof.
  intros Hf kvs. induction kvs as [|[k v] kvs IH]; intros r; cbn.
  - reflexivity.
  - rewrite Hf. apply IH.
Qed.

Lemma enumerate_from_cons i a l :
  enumerate_from i (a :: l) = PTuple [PInt i; a] :: enumerate_from (i + 1) l.
Proof. reflexivity. Qed.

Lemma skipn_nth_error {A} (l : list A) i :
  skipn i l = match nth_error l i with Some x => x :: skipn (S i) l | None => [] end.
Proof.
  revert i. induction l as [|y l IH]; intros [|i]; cbn; auto.
  rewrite IH. destruct (nth_error l i); auto.
Qed.

Lemma fold_set_positional (f : pv -> pv -> res pv) (names : list string) :
  (forall r i a, f (PDict r) (PTuple [PInt (Z.of_nat i); a])
                 = Ok (PDict (match nth_error names i with Some n => dict_set r n a | None => r end))) ->
  forall args i r,
    fold_res f (enumerate_from (Z.of_nat i) args) (PDict r)
    = Ok (PDict (set_positional (skipn i names) args r)).
Proof.
  intros Hf args. induction args as [|a args IH]; intros i r.
  - cbn. destruct (skipn i names); reflexivity.
  - rewrite enumerate_from_cons. cbn [fold_res]. rewrite Hf.
    replace (Z.of_nat i + 1)%Z with (Z.of_nat (S i)) by lia.
    rewrite IH. rewrite (skipn_nth_error names i).
    destruct (nth_error names i) as [n|] eqn:E.
    + reflexivity.
    + cbn [set_positional]. rewrite (skipn_nth_error names (S i)).
      assert (nth_error names (S i) = None) as ->.
      { apply nth_error_None. apply nth_error_None in E. lia. }
      reflexivity.
Qed.

Lemma nth_map_PStr names i n :
  nth_error names i = Some n -> nth i (map PStr names) PNone = PStr n.
Proof.
  revert i. induction names as [|x names IH]; intros [|i]; cbn; try discriminate.
  - congruence.
  - apply IH.
Qed.

Theorem kwargs_from_call_refines names defaults args kwargs :
  kwargs_from_call (PList (map PStr names)) (PDict defaults) (PTuple args) (PDict kwargs)
  = Ok (PDict (resolve names defaults args kwargs)).
Proof.
  unfold kwargs_from_call, resolve.
  cbn [py_items py_iter py_enumerate].
  change (map (fun kv : string * pv => PTuple [PStr (fst kv); snd kv]) defaults) with (items_of defaults).
  change (map (fun kv : string * pv => PTuple [PStr (fst kv); snd kv]) kwargs) with (items_of kwargs).
  rewrite fold_set_all by reflexivity.
  cbn [bind].
  match goal with
  | |- context [fold_res ?f (enumerate_from 0 args) (PDict ?r0)] =>
      assert (fold_res f (enumerate_from 0 args) (PDict r0)
              = Ok (PDict (set_positional names args r0))) as ->
  end.
  - apply (fold_set_positional _ names) with (i := 0).
    intros r i a. cbn.
    rewrite map_length.
    destruct (nth_error names i) as [n|] eqn:E.
    + assert (i < List.length names) as Hlt by (apply nth_error_Some; congruence).
      assert ((Z.of_nat i <? Z.of_nat (List.length names))%Z = true) as -> by (apply Z.ltb_lt; lia).
      assert ((Z.of_nat i <? 0)%Z = false) as -> by (apply Z.ltb_ge; lia).
      rewrite Nat2Z.id. rewrite (nth_map_PStr _ _ _ E). reflexivity.
    + assert (List.length names <= i) as Hge by (apply nth_error_None; assumption).
      assert ((Z.of_nat i <? Z.of_nat (List.length names))%Z = false) as -> by (apply Z.ltb_ge; lia).
      reflexivity.
  - cbn [bind]. rewrite fold_set_all by reflexivity. reflexivity.
Qed.
