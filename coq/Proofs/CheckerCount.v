(** How often a condition is evaluated in one check (C16), how often a capture runs (C08),
    how often an error factory is called (C09). *)
From ICV Require Import Base Bind Checker CheckerSpec CheckerFrame.
Open Scope string_scope.
Open Scope list_scope.

Definition cond_hits (k : Z) (e : event) : nat :=
  match e with EvCond _ c _ _ => if Z.eqb c k then 1 else 0 | _ => 0 end.
Definition error_hits (k : Z) (e : event) : nat :=
  match e with EvError c _ => if Z.eqb c k then 1 else 0 | _ => 0 end.

Definition count (f : event -> nat) (t : list event) : nat := list_sum (map f t).

Lemma count_app f t1 t2 : count f (t1 ++ t2) = count f t1 + count f t2.
Proof. unfold count. rewrite map_app, list_sum_app. reflexivity. Qed.

(** evaluations allowed for one contract in one check: once, plus once more for a lambda (message) *)
Definition budget (k : Z) (c : contract) : nat :=
  if Z.eqb (cid c) k then (if clambda c then 2 else 1) else 0.
Definition budget_list (k : Z) (l : list contract) : nat := list_sum (map (budget k) l).

Lemma list_sum_cons a l : list_sum (a :: l) = a + list_sum l.
Proof. reflexivity. Qed.

Section Count.
  Variables (m : mode) (U : user).

  Lemma eval_condition_count r cf c resolved st t res st' k :
    eval_condition m U r cf c resolved st = (t, res, st') ->
    count (cond_hits k) t <= (if Z.eqb (cid c) k then 1 else 0) /\ count (error_hits k) t = 0.
  Proof.
    unfold eval_condition, bindM, emit, throw, ret. intros H.
    destruct m; destruct (ckind_ c); destruct cf;
      destruct (select (cargs c) (cmandatory c) resolved) as [kw|];
      cbn in H;
      try (match type of H with context [u_cond ?a ?b ?c ?d] => destruct (u_cond a b c d) end);
      cbn in H; injection H as <- <- <-; unfold count; cbn; destruct (Z.eqb (cid c) k); cbn; lia.
  Qed.

  Lemma create_violation_error_count r c resolved st t res st' k :
    create_violation_error U r c resolved st = (t, res, st') ->
    count (cond_hits k) t <= (if Z.eqb (cid c) k then (if clambda c then 1 else 0) else 0)
    /\ count (error_hits k) t <= (if Z.eqb (cid c) k then 1 else 0).
  Proof.
    unfold create_violation_error, bindM, emit, throw, ret. intros H.
    destruct (cerror c) as [|kk|e|eargs emand].
    - destruct (clambda c) eqn:El;
        [destruct (select _ _ _)|];
        cbn in H; injection H as <- <- <-; unfold count; cbn; destruct (Z.eqb (cid c) k); cbn; lia.
    - destruct (clambda c) eqn:El;
        [destruct (select _ _ _)|];
        cbn in H; injection H as <- <- <-; unfold count; cbn; destruct (Z.eqb (cid c) k); cbn; lia.
    - cbn in H; injection H as <- <- <-; unfold count; cbn; destruct (Z.eqb (cid c) k); destruct (clambda c); cbn; lia.
    - destruct (select eargs emand resolved) as [kw|]; cbn in H;
        try (match type of H with context [u_error ?a ?b ?c] => destruct (u_error a b c) end);
        cbn in H; injection H as <- <- <-; unfold count; cbn;
        destruct (Z.eqb (cid c) k); destruct (clambda c); cbn; lia.
  Qed.

  Lemma budget_ge_parts c k :
    (if Z.eqb (cid c) k then 1 else 0) + (if Z.eqb (cid c) k then (if clambda c then 1 else 0) else 0)
    <= budget k c.
  Proof. unfold budget. destruct (Z.eqb (cid c) k); destruct (clambda c); lia. Qed.

  Lemma eval_list_count (r : role) (cf : bool) (resolved : dict)
        (ev : list contract -> M (option exn))
        (Hnil : ev [] = ret None)
        (Hcons : forall c rest, ev (c :: rest)
                                = bindM (eval_condition m U r cf c resolved)
                                        (fun b => if b then ev rest
                                                  else bindM (create_violation_error U r c resolved)
                                                             (fun x => ret (Some x)))) :
    forall l st t res st' k,
      ev l st = (t, res, st') ->
      count (cond_hits k) t <= budget_list k l
      /\ count (error_hits k) t <= list_sum (map (fun c => if Z.eqb (cid c) k then 1 else 0) l).
  Proof.
    induction l as [|c rest IH]; intros st t res st' k H.
    - rewrite Hnil in H. unfold ret in H. injection H as <- <- <-. unfold count. cbn. lia.
    - rewrite Hcons in H. unfold budget_list. cbn [map]. rewrite !list_sum_cons.
      pose proof (budget_ge_parts c k) as Hb.
      apply bindM_inv in H as [(t1 & b & st1 & t2 & E1 & E2 & ->) | (x & E1 & ->)].
      + pose proof (eval_condition_count _ _ _ _ _ _ _ _ k E1) as [Hc1 He1].
        rewrite !count_app. destruct b.
        * apply (IH _ _ _ _ k) in E2 as [Hc2 He2]. unfold budget_list in Hc2.
          destruct (Z.eqb (cid c) k); lia.
        * apply bindM_inv in E2 as [(t3 & x & st3 & t4 & E3 & E4 & ->) | (x & E3 & ->)].
          -- unfold ret in E4. injection E4 as <- <- <-. rewrite !count_app.
             pose proof (create_violation_error_count _ _ _ _ _ _ _ k E3) as [Hc3 He3].
             unfold count at 3 6. cbn. destruct (Z.eqb (cid c) k); lia.
          -- pose proof (create_violation_error_count _ _ _ _ _ _ _ k E3) as [Hc3 He3].
             destruct (Z.eqb (cid c) k); lia.
      + pose proof (eval_condition_count _ _ _ _ _ _ _ _ k E1) as [Hc1 He1].
        destruct (Z.eqb (cid c) k); lia.
  Qed.

  Lemma eval_group_count g resolved st t res st' k :
    eval_group m U g resolved st = (t, res, st') ->
    count (cond_hits k) t <= budget_list k g
    /\ count (error_hits k) t <= list_sum (map (fun c => if Z.eqb (cid c) k then 1 else 0) g).
  Proof.
    apply (eval_list_count RPre false resolved (fun l => eval_group m U l resolved)); reflexivity.
  Qed.

  Lemma eval_posts_count ps resolved st t res st' k :
    eval_posts m U ps resolved st = (t, res, st') ->
    count (cond_hits k) t <= budget_list k ps
    /\ count (error_hits k) t <= list_sum (map (fun c => if Z.eqb (cid c) k then 1 else 0) ps).
  Proof.
    apply (eval_list_count RPost true resolved (fun l => eval_posts m U l resolved)); reflexivity.
  Qed.

  Lemma eval_groups_count gs resolved : forall st t res st' k,
    eval_groups m U gs resolved st = (t, res, st') ->
    count (cond_hits k) t <= budget_list k (List.concat gs)
    /\ count (error_hits k) t <= list_sum (map (fun c => if Z.eqb (cid c) k then 1 else 0) (List.concat gs)).
  Proof.
    induction gs as [|g rest IH]; intros st t res st' k H.
    - cbn in H. unfold ret in H. injection H as <- <- <-. unfold count. cbn. lia.
    - cbn [eval_groups] in H. cbn [List.concat]. unfold budget_list. rewrite !map_app, !list_sum_app.
      apply bindM_inv in H as [(t1 & v & st1 & t2 & E1 & E2 & ->) | (x & E1 & ->)].
      + pose proof (eval_group_count _ _ _ _ _ _ k E1) as [Hc1 He1]. unfold budget_list in Hc1.
        rewrite !count_app. destruct v as [x|].
        * destruct rest as [|g' rest'].
          -- unfold ret in E2. injection E2 as <- <- <-. unfold count at 2 4. cbn. lia.
          -- apply (IH _ _ _ _ k) in E2 as [Hc2 He2]. unfold budget_list in Hc2. lia.
        * unfold ret in E2. injection E2 as <- <- <-. unfold count at 2 4. cbn. lia.
      + pose proof (eval_group_count _ _ _ _ _ _ k E1) as [Hc1 He1]. unfold budget_list in Hc1. lia.
  Qed.

  Lemma budget_list_zero k l : ~ In k (map cid l) -> budget_list k l = 0.
  Proof.
    unfold budget_list. induction l as [|d rest IH]; cbn [map]; intros Hnin; [reflexivity|].
    rewrite list_sum_cons.
    assert (Z.eqb (cid d) k = false) as Hne.
    { apply Z.eqb_neq. intro Heq. apply Hnin. cbn. left. exact Heq. }
    unfold budget at 1. rewrite Hne. cbn. apply IH. intro Hin. apply Hnin. cbn. right. exact Hin.
  Qed.

  (** with distinct contract ids the budget of an id is that of its one contract *)
  Lemma budget_list_nodup k l :
    NoDup (map cid l) -> budget_list k l <= 2 /\ (forall c, In c l -> cid c = k -> budget_list k l = budget k c).
  Proof.
    induction l as [|c rest IH]; intros Hnd.
    - unfold budget_list. cbn. split; [lia | tauto].
    - inversion Hnd as [|? ? Hnin Hnd']; subst. destruct (IH Hnd') as [IH1 IH2].
      assert (budget_list k (c :: rest) = budget k c + budget_list k rest) as Hsplit by reflexivity.
      rewrite Hsplit.
      assert (Z.eqb (cid c) k = true -> budget_list k rest = 0) as Hzero.
      { intros E. apply Z.eqb_eq in E. subst k. apply budget_list_zero. exact Hnin. }
      split.
      + unfold budget at 1. destruct (Z.eqb (cid c) k) eqn:E.
        * rewrite (Hzero eq_refl). destruct (clambda c); lia.
        * lia.
      + intros d [<-|Hin] Hk.
        * assert (Z.eqb (cid c) k = true) as E by (apply Z.eqb_eq; exact Hk).
          rewrite (Hzero E). lia.
        * assert (Z.eqb (cid c) k = false) as E.
          { apply Z.eqb_neq. intro Heq. apply Hnin. rewrite Heq, <- Hk. apply in_map. exact Hin. }
          unfold budget at 1. rewrite E. cbn. apply IH2; auto.
  Qed.

  Lemma count_only_zero (P : event -> bool) f t :
    (forall e, P e = true -> f e = 0) -> only P t -> count f t = 0.
  Proof.
    intros HP H. unfold count. induction H as [|e t He Ht IH]; [reflexivity|]. cbn [map]. rewrite list_sum_cons, (HP _ He), IH. reflexivity.
  Qed.

  Theorem checker_call_count s pre snaps post args kwargs st t r st' k :
    checker_call m U s pre snaps post args kwargs st = (t, r, st') ->
    count (cond_hits k) t <= budget_list k (List.concat pre ++ post)
    /\ count (error_hits k) t
       <= list_sum (map (fun c => if Z.eqb (cid c) k then 1 else 0) (List.concat pre ++ post)).
  Proof.
    intros H. apply checker_call_graph in H. unfold budget_list. rewrite !map_app, !list_sum_app.
    assert (forall tc, only is_capture tc -> count (cond_hits k) tc = 0 /\ count (error_hits k) tc = 0) as Hcap0.
    { intros tc Hoc. split; apply (count_only_zero is_capture); auto; intros [] He; cbn in *; auto; discriminate. }
    inversion H as [Hr | Hr Hc | tp x Hr Hc E | tp x Hr Hc E | tp tc x Hr Hc E Hcap Ecap
                    | tp tc old tb r0 st0 Hr Hc E Hcap Hbx]; subst.
    - unfold count. cbn. lia.
    - unfold count. cbn. lia.
    - apply (eval_groups_count _ _ _ _ _ _ k) in E as [H1 H2]. unfold budget_list in H1. lia.
    - apply (eval_groups_count _ _ _ _ _ _ k) in E as [H1 H2]. unfold budget_list in H1. lia.
    - apply (eval_groups_count _ _ _ _ _ _ k) in E as [H1 H2]. unfold budget_list in H1.
      apply capture_old_spec in Ecap as (_ & Hoc & _). destruct (Hcap0 _ Hoc) as [Hz1 Hz2].
      rewrite !count_app. lia.
    - apply (eval_groups_count _ _ _ _ _ _ k) in E as [H1 H2]. unfold budget_list in H1.
      assert (only is_capture tc) as Hoc.
      { destruct (capturing snaps post).
        - apply capture_old_spec in Hcap as (_ & Hoc & _). exact Hoc.
        - destruct Hcap as [-> _]. apply only_nil. }
      destruct (Hcap0 _ Hoc) as [Hz1 Hz2]. rewrite !count_app.
      inversion Hbx as [old0 Hb | old0 env e0 stb0 Hb Hu0 | old0 env v0 stb0 Hb Hu0 Hpost
                        | old0 env v0 stb0 tq w Hb Hu0 Hpost Eq]; subst;
        try (unfold count at 3 6; cbn; lia).
      apply (eval_posts_count _ _ _ _ _ _ k) in Eq as [H3 H4]. unfold budget_list in H3.
      change (EvBody env st :: tq) with ([EvBody env st] ++ tq). rewrite !count_app.
      unfold count at 3 7. cbn. lia.
  Qed.

  (** "each condition function is called at most once per check; a lambda condition once more,
      to build the message" - with distinct contracts. *)
  Corollary at_most_once s pre snaps post args kwargs st t r st' c :
    checker_call m U s pre snaps post args kwargs st = (t, r, st') ->
    NoDup (map cid (List.concat pre ++ post)) ->
    In c (List.concat pre ++ post) ->
    count (cond_hits (cid c)) t <= (if clambda c then 2 else 1)
    /\ count (error_hits (cid c)) t <= 1.
  Proof.
    intros H Hnd Hin. pose proof (checker_call_count _ _ _ _ _ _ _ _ _ _ (cid c) H) as [H1 H2].
    destruct (budget_list_nodup (cid c) _ Hnd) as [_ Hb]. rewrite (Hb c Hin eq_refl) in H1.
    unfold budget in H1. rewrite Z.eqb_refl in H1. split; [exact H1|].
    eapply Nat.le_trans; [exact H2|].
    clear - Hnd Hin. induction (List.concat pre ++ post) as [|d l IH]; [destruct Hin|].
    cbn [map]. rewrite list_sum_cons. inversion Hnd as [|? ? Hnin Hnd']; subst.
    destruct Hin as [->|Hin].
    - rewrite Z.eqb_refl.
      assert (list_sum (map (fun c0 => if Z.eqb (cid c0) (cid c) then 1 else 0) l) = 0) as ->; [|lia].
      clear IH Hnd Hnd'. induction l as [|e l IHl]; cbn; auto.
      destruct (Z.eqb (cid e) (cid c)) eqn:E.
      + apply Z.eqb_eq in E. exfalso. apply Hnin. cbn. left. exact E.
      + cbn. apply IHl. intro Hx. apply Hnin. cbn. right. exact Hx.
    - destruct (Z.eqb (cid d) (cid c)) eqn:E.
      + apply Z.eqb_eq in E. exfalso. apply Hnin. rewrite E. apply in_map. exact Hin.
      + cbn. apply IH; auto.
  Qed.
End Count.
