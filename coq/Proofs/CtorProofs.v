(** Constructor chains: invariants are evaluated only after the outermost constructor has finished. *)
From Coq Require Import List Arith Bool Lia.
From ICV Require Import Ctor CtorCase.
Import ListNotations.

Lemma fold_bodies_no_inv fuel ch d :
  (forall i st, Forall (fun e => is_inv e = false) (fst (run_body fuel ch i st))) ->
  forall script ev st,
  Forall (fun e => is_inv e = false) ev ->
  Forall (fun e => is_inv e = false)
    (fst (fold_left (fun acc a =>
            let '(ev, st) := acc in
            match a with
            | AStage n => (ev, n)
            | ASuper => match d with
                        | 0 => (ev, st)
                        | S j => let '(ev', st') := run_body fuel ch j st in (ev ++ ev', st')
                        end
            end) script (ev, st))).
Proof.
  intros IH. induction script as [|a r IHs]; cbn [fold_left]; intros ev st H; [exact H|].
  destruct a as [|n].
  - destruct d as [|j]; [apply IHs; exact H|].
    specialize (IH j st). destruct (run_body fuel ch j st) as [ev' st'] eqn:E. apply IHs.
    apply Forall_app. split; [exact H|exact IH].
  - apply IHs. exact H.
Qed.

(** a constructor body, however deep its chain of super calls, evaluates no invariant *)
Lemma run_body_no_inv fuel : forall ch i st, Forall (fun e => is_inv e = false) (fst (run_body fuel ch i st)).
Proof.
  induction fuel as [|f IH]; intros ch i st; cbn [run_body]; [constructor|].
  destruct (definer ch i) as [d|]; [|constructor].
  destruct (c_init (nth d ch no_class)) as [script|]; [|constructor].
  apply fold_bodies_no_inv; [intros; apply IH|]. constructor; [reflexivity|constructor].
Qed.

Lemma check_invs_only_inv V ids st : Forall (fun e => is_inv e = true) (fst (check_invs V ids st)).
Proof.
  induction ids as [|id r IH]; cbn; [constructor|].
  destruct (V id st); [|repeat constructor].
  destruct (check_invs V r st) as [ev v]. cbn in *. constructor; [reflexivity|exact IH].
Qed.

(** what [K()] does: first every constructor body (no invariant in between), then - if the class
    has invariants - its invariants, inherited first, on the finished object, up to the first falsy one *)
Theorem construct_shape ch V k :
  exists bodies final,
    run_body (S (List.length ch)) ch k 0 = (bodies, final) /\
    Forall (fun e => is_inv e = false) bodies /\
    construct ch V k =
      if has_invs ch k
      then (bodies ++ fst (check_invs V (all_invs ch k) final), snd (check_invs V (all_invs ch k) final))
      else (bodies, None).
Proof.
  unfold construct. pose proof (run_body_no_inv (S (List.length ch)) ch k 0) as H.
  destruct (run_body (S (List.length ch)) ch k 0) as [bodies final]. exists bodies, final.
  split; [reflexivity|]. split; [exact H|].
  destruct (has_invs ch k); [|reflexivity]. destruct (check_invs V (all_invs ch k) final); reflexivity.
Qed.

(** the first falsy invariant decides; all before it held at the final stage *)
Lemma check_invs_first V ids st id :
  snd (check_invs V ids st) = Some id ->
  exists pre post, ids = pre ++ id :: post /\ V id st = false /\ forall x, In x pre -> V x st = true.
Proof.
  induction ids as [|a r IH]; cbn; [discriminate|].
  destruct (V a st) eqn:E.
  - destruct (check_invs V r st) as [ev v] eqn:E2. cbn. intro H. cbn in IH. apply IH in H.
    destruct H as [pre [post [-> [Hf Hp]]]]. exists (a :: pre), post. split; [reflexivity|]. split; [exact Hf|].
    intros x [<-|Hx]; [exact E|apply Hp; exact Hx].
  - cbn. intro H. injection H as <-. exists [], r. repeat split; [exact E|intros x []].
Qed.

Lemma check_invs_none V ids st : snd (check_invs V ids st) = None -> forall x, In x ids -> V x st = true.
Proof.
  induction ids as [|a r IH]; cbn; [intros _ x []|].
  destruct (V a st) eqn:E; [|discriminate].
  destruct (check_invs V r st) as [ev v] eqn:E2. cbn. intros H x [<-|Hx]; [exact E|]. apply IH; assumption.
Qed.
