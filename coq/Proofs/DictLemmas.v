(** Lemmas about association lists ([dict_get], [dict_set]) used by several proofs. *)
From ICV Require Import Base.
Open Scope string_scope.
Open Scope list_scope.

Lemma str_eqb_refl s : String.eqb s s = true.
Proof. apply String.eqb_refl. Qed.

Lemma dict_get_set_same d k v : dict_get (dict_set d k v) k = Some v.
Proof.
  induction d as [|[k' v'] d IH]; cbn.
  - now rewrite str_eqb_refl.
  - destruct (String.eqb k' k) eqn:E; cbn; rewrite E; auto.
Qed.

Lemma dict_get_set_other d k v k' : k <> k' -> dict_get (dict_set d k v) k' = dict_get d k'.
Proof.
  intros Hne. induction d as [|[k0 v0] d IH]; cbn.
  - destruct (String.eqb k k') eqn:E; auto. apply String.eqb_eq in E. contradiction.
  - destruct (String.eqb k0 k) eqn:E; cbn.
    + apply String.eqb_eq in E. subst k0.
      destruct (String.eqb k k') eqn:E2; auto. apply String.eqb_eq in E2. contradiction.
    + destruct (String.eqb k0 k'); auto.
Qed.

Lemma dict_get_set d k v k' :
  dict_get (dict_set d k v) k' = if String.eqb k k' then Some v else dict_get d k'.
Proof.
  destruct (String.eqb k k') eqn:E.
  - apply String.eqb_eq in E. subst. apply dict_get_set_same.
  - apply dict_get_set_other. intro H. subst. rewrite str_eqb_refl in E. discriminate.
Qed.

Lemma dict_has_get d k : dict_has d k = match dict_get d k with Some _ => true | None => false end.
Proof. reflexivity. Qed.

Lemma dict_get_none_not_in d k : dict_get d k = None <-> ~ In k (dict_keys d).
Proof.
  induction d as [|[k' v'] d IH]; cbn.
  - tauto.
  - destruct (String.eqb k' k) eqn:E.
    + apply String.eqb_eq in E. subst. split; [discriminate | intros H; exfalso; apply H; auto].
    + rewrite IH. split.
      * intros H [H1|H1]; [subst; rewrite str_eqb_refl in E; discriminate | auto].
      * intros H H1. apply H. auto.
Qed.

Lemma dict_get_some_in d k v : dict_get d k = Some v -> In k (dict_keys d).
Proof.
  intros H. destruct (in_dec string_dec k (dict_keys d)) as [|Hn]; auto.
  apply dict_get_none_not_in in Hn. congruence.
Qed.

Lemma dict_get_app d1 d2 k :
  dict_get (d1 ++ d2) k = match dict_get d1 k with Some v => Some v | None => dict_get d2 k end.
Proof.
  induction d1 as [|[k' v'] d1 IH]; cbn; auto.
  destruct (String.eqb k' k); auto.
Qed.

Lemma str_in_In s l : str_in s l = true <-> In s l.
Proof.
  induction l as [|x l IH]; cbn.
  - split; [discriminate | tauto].
  - rewrite orb_true_iff, IH, String.eqb_eq. tauto.
Qed.

Lemma str_in_false s l : str_in s l = false <-> ~ In s l.
Proof.
  rewrite <- str_in_In. destruct (str_in s l); split; congruence.
Qed.

Lemma pv_eqb_refl : forall v, pv_eqb v v = true.
Proof.
  fix IH 1. intros v. destruct v as [| b | z | s | l | l | d | t | c]; cbn.
  - reflexivity.
  - apply Bool.eqb_reflx.
  - apply Z.eqb_refl.
  - apply String.eqb_refl.
  - induction l as [|x l IHl]; cbn; auto. now rewrite IH, IHl.
  - induction l as [|x l IHl]; cbn; auto. now rewrite IH, IHl.
  - induction d as [|[k x] d IHd]; cbn; auto. now rewrite String.eqb_refl, IH, IHd.
  - apply Z.eqb_refl.
  - apply String.eqb_refl.
Qed.
