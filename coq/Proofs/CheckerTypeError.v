(** C05, whole calls, for the model and every well-formed case: the library's own TypeError has a reason that can be
    read off the declarations and the call ([legit_type_error], Spec/CheckerOracle.v) - a reserved keyword, a clash with
    [result]/[OLD], a call the function cannot bind, a contract / capture / error factory naming something the call does
    not provide, or an error factory that returned no exception.  In particular a parameter the call binds is available
    to every contract, whichever contracts were evaluated before. *)
From Coq Require Import List String ZArith Bool Lia.
From ICV Require Import Base Bind Checker CheckerCase CheckerSpec CheckerOracle.
Import ListNotations.
Open Scope string_scope.
Open Scope list_scope.

Lemma dict_has_set d k v a : dict_has (dict_set d k v) a = String.eqb k a || dict_has d a.
Proof.
  unfold dict_has. induction d as [|[k' v'] r IH]; cbn.
  - destruct (String.eqb k a); reflexivity.
  - destruct (String.eqb k' k) eqn:E; cbn.
    + apply String.eqb_eq in E. subst k'. destruct (String.eqb k a); reflexivity.
    + destruct (String.eqb k' a) eqn:E2.
      * destruct (String.eqb k a); reflexivity.
      * exact IH.
Qed.

Section TypeError.
Variable c : ccase.

Let m := k_mode c.
Let U := case_user c.
Let s := k_sig c.
Let pre := eff_pre (k_levels c).
Let snaps := eff_snaps (k_levels c).
Let post := eff_post (k_levels c).
Let args := k_args c.
Let kwargs := k_kwargs c.
Let resolved := resolve_sig s args kwargs.

Definition inv_list : list contract := match k_invs c with Some l => l ++ k_invs_set c | None => [] end.

(** the error factory of an invariant takes the instance only *)
Definition wf_case : Prop :=
  Forall (fun i => match cerror i with EFactory _ emand => forallb (fun a => String.eqb a "self") emand = true | _ => True end) inv_list.
Hypothesis Hwf : wf_case.

Definition Other (t : list event) : Prop := exists k kw, In (EvError k kw) t /\ u_error U k kw = ERetOther.
Definition TE {A} (r : A + exn) : Prop := exists o, r = inr (XLib "TypeError" o).
Definition Why {A} (P : Prop) (mm : M A) : Prop :=
  forall st t r st', mm st = (t, r, st') -> TE r -> P \/ Other t.

Lemma Other_app_l a b : Other a -> Other (a ++ b).
Proof. intros (k & kw & H & E). exists k, kw. split; [apply in_or_app; left; exact H|exact E]. Qed.
Lemma Other_app_r a b : Other b -> Other (a ++ b).
Proof. intros (k & kw & H & E). exists k, kw. split; [apply in_or_app; right; exact H|exact E]. Qed.

Lemma Why_ret {A} (P : Prop) (a : A) : Why P (ret a).
Proof. intros st t r st' H (o & Hr). unfold ret in H. injection H as <- <- <-. discriminate. Qed.

Lemma Why_throw_other {A} (P : Prop) x : (forall o, x <> XLib "TypeError" o) -> Why P (@throw A x).
Proof. intros Hx st t r st' H (o & Hr). unfold throw in H. injection H as <- <- <-. injection Hr as Hr. exfalso. exact (Hx o Hr). Qed.

Lemma Why_throw {A} (P : Prop) x : P -> Why P (@throw A x).
Proof. intros HP st t r st' H _. left. exact HP. Qed.

Lemma Why_weaken {A} (P Q : Prop) (mm : M A) : (P -> Q) -> Why P mm -> Why Q mm.
Proof. intros HPQ H st t r st' E T. destruct (H _ _ _ _ E T) as [HP|HO]; [left; auto|right; exact HO]. Qed.

Lemma Why_bind {A B} (P : Prop) (mm : M A) (k : A -> M B) : Why P mm -> (forall a, Why P (k a)) -> Why P (bindM mm k).
Proof.
  intros Hm Hk st t r st' H T. unfold bindM in H. destruct (mm st) as [[t1 r1] st1] eqn:E1. destruct r1 as [a|x].
  - destruct (k a st1) as [[t2 r2] st2] eqn:E2. injection H as <- <- <-.
    destruct (Hk a _ _ _ _ E2 T) as [HP|HO]; [left; exact HP|right; apply Other_app_r; exact HO].
  - injection H as <- <- <-. destruct T as (o & Hr). injection Hr as ->.
    apply (Hm _ _ _ _ E1). exists o. reflexivity.
Qed.

Lemma bool_raise_not_te e o : bool_raise e <> XLib "TypeError" o.
Proof. unfold bool_raise. destruct (exc_is_exception e); discriminate. Qed.

(** ** one condition, one error *)
Definition lacks (res : dict) (l : list string) : Prop := forallb (dict_has res) l = false.

Lemma why_condition r cf cc res : Why (lacks res (cmandatory cc)) (eval_condition m U r cf cc res).
Proof.
  intros st t rr st' H (o & Hr). subst rr. unfold eval_condition in H.
  destruct (cf && _); [unfold throw in H; discriminate|].
  unfold select in H. destruct (forallb (dict_has res) (cmandatory cc)) eqn:Ef; [|left; exact Ef].
  destruct (match m, ckind_ cc with Sync, CKCoroFn => true | _, _ => false end); [unfold throw in H; discriminate|].
  unfold bindM, emit in H. cbn beta iota in H.
  destruct m, (ckind_ cc); try (unfold throw in H; discriminate).
  all: destruct (u_cond U (cid cc) _ st); unfold ret, throw in H; cbn beta iota in H; try discriminate.
  all: injection H as _ H _; exfalso; exact (bool_raise_not_te _ _ H).
Qed.

Definition factory_lacks (res : dict) (cc : contract) : Prop :=
  match cerror cc with EFactory _ emand => lacks res emand | _ => False end.

Lemma why_error r cc res : Why (factory_lacks res cc) (create_violation_error U r cc res).
Proof.
  intros st t rr st' H (o & Hr). subst rr. unfold create_violation_error, factory_lacks in *.
  destruct (cerror cc) as [|k|e|eargs emand].
  1,2: exfalso; unfold bindM in H;
       destruct ((if clambda cc then match select (cargs cc) (cmandatory cc) res with Some kw => emit (EvCond r (cid cc) kw) | None => ret tt end else ret tt) st)
         as [[t1 [u|x]] st1] eqn:E1; [unfold ret in H; discriminate|];
       destruct (clambda cc); [destruct (select _ _ res)|]; unfold emit, ret in E1; discriminate.
  - unfold ret in H. discriminate.
  - unfold select in H. destruct (forallb (dict_has res) emand) eqn:Ef; [|left; exact Ef].
    unfold bindM, emit in H. cbn beta iota in H.
    destruct (u_error U (cid cc) _) eqn:Eu; unfold ret, throw in H; cbn beta iota in H; cbn [app] in H; try discriminate.
    injection H as <- _ _. right. eexists _, _. split; [left; reflexivity|exact Eu].
Qed.

Definition needs (res : dict) (cc : contract) : Prop := lacks res (cmandatory cc) \/ factory_lacks res cc.

Lemma why_cond_step {B} r cf cc res (P : Prop) (K : M B) (KE : exn -> M B) :
  (needs res cc -> P) -> Why P K -> (forall x, Why P (KE x)) ->
  Why P (b <~ eval_condition m U r cf cc res ;; if b then K else x <~ create_violation_error U r cc res ;; KE x).
Proof.
  intros HP HK HKE. apply Why_bind.
  - eapply Why_weaken; [|apply why_condition]. intro H. apply HP. left. exact H.
  - intros [|]; [exact HK|]. apply Why_bind; [|exact HKE].
    eapply Why_weaken; [|apply why_error]. intro H. apply HP. right. exact H.
Qed.

Lemma why_group res : forall g, Why (exists cc, In cc g /\ needs res cc) (eval_group m U g res).
Proof.
  induction g as [|cc rest IH]; cbn [eval_group]; [apply Why_ret|].
  apply why_cond_step.
  - intro H. exists cc. split; [left; reflexivity|exact H].
  - eapply Why_weaken; [|exact IH]. intros (x & Hx & Hn). exists x. split; [right; exact Hx|exact Hn].
  - intro x. apply Why_ret.
Qed.

Lemma why_groups res : forall gs, Why (exists cc, In cc (List.concat gs) /\ needs res cc) (eval_groups m U gs res).
Proof.
  induction gs as [|g rest IH]; cbn [eval_groups]; [apply Why_ret|].
  apply Why_bind.
  - eapply Why_weaken; [|apply why_group]. intros (x & Hx & Hn). exists x. split; [cbn; apply in_or_app; left; exact Hx|exact Hn].
  - intros [x|]; [|apply Why_ret]. destruct rest as [|g2 r2]; [apply Why_ret|].
    eapply Why_weaken; [|exact IH]. intros (y & Hy & Hn). exists y. split; [cbn [List.concat]; apply in_or_app; right; exact Hy|exact Hn].
Qed.

Lemma why_posts res : forall ps, Why (exists cc, In cc ps /\ needs res cc) (eval_posts m U ps res).
Proof.
  induction ps as [|cc rest IH]; cbn [eval_posts]; [apply Why_ret|].
  apply why_cond_step.
  - intro H. exists cc. split; [left; reflexivity|exact H].
  - eapply Why_weaken; [|exact IH]. intros (x & Hx & Hn). exists x. split; [right; exact Hx|exact Hn].
  - intro x. apply Why_ret.
Qed.

Lemma why_capture_one sn res : Why (lacks res (sargs sn)) (capture_one m U sn res).
Proof.
  intros st t rr st' H (o & Hr). subst rr. unfold capture_one in H.
  destruct (match m, skind sn with Sync, CKCoroFn => true | _, _ => false end); [unfold throw in H; discriminate|].
  unfold select in H. destruct (forallb (dict_has res) (sargs sn)) eqn:Ef; [|left; exact Ef].
  unfold bindM, emit in H. cbn beta iota in H.
  destruct m, (skind sn); try (unfold throw in H; discriminate).
  all: destruct (u_capture U (sid sn) _ st); unfold ret, throw in H; cbn beta iota in H; discriminate.
Qed.

Lemma why_capture_old res : forall sns old, Why (exists sn, In sn sns /\ lacks res (sargs sn)) (capture_old m U sns res old).
Proof.
  induction sns as [|sn rest IH]; intro old; cbn [capture_old]; [apply Why_ret|].
  apply Why_bind.
  - eapply Why_weaken; [|apply why_capture_one]. intro H. exists sn. split; [left; reflexivity|exact H].
  - intro v. eapply Why_weaken; [|apply IH]. intros (x & Hx & Hn). exists x. split; [right; exact Hx|exact Hn].
Qed.

Lemma why_body : Why (pybind s args kwargs = None) (run_body U s args kwargs).
Proof.
  intros st t rr st' H (o & Hr). subst rr. unfold run_body in H. destruct (pybind s args kwargs); [|left; reflexivity].
  destruct (u_body U args kwargs st) as [[v|e] stb]; discriminate.
Qed.

(** ** the reasons as the oracle computes them *)
Definition static_reason : bool :=
  dict_has kwargs "_ARGS" || dict_has kwargs "_KWARGS"
  || (negb (is_nil post) && (dict_has resolved "result" || dict_has resolved "OLD"))
  || match pybind s args kwargs with None => true | Some _ => false end
  || existsb (needs_unavailable c false) (List.concat pre ++ invs_before c ++ invs_after c)
  || existsb (needs_unavailable c true) post
  || existsb (fun sn => negb (forallb (dict_has resolved) (sargs sn))) snaps.

Lemma legit_of_static t : static_reason = true -> legit_type_error c t = true.
Proof. unfold static_reason, legit_type_error. intro H. fold s args kwargs resolved pre post snaps. rewrite H. reflexivity. Qed.

Lemma legit_of_other t : Other t -> legit_type_error c t = true.
Proof.
  intros (k & kw & Hin & Eu). unfold legit_type_error. apply orb_true_iff. right.
  apply existsb_exists. exists (EvError k kw). split; [exact Hin|]. fold U. rewrite Eu. reflexivity.
Qed.

Lemma lacks_exists res l : lacks res l -> exists a, In a l /\ dict_has res a = false.
Proof.
  unfold lacks. induction l as [|a r IH]; cbn; [discriminate|].
  destruct (dict_has res a) eqn:E; cbn; [|intros _; exists a; auto].
  intro H. destruct (IH H) as (b & Hb & Eb). exists b. auto.
Qed.

Lemma not_all_available b l a : In a l -> available c b a = false -> negb (forallb (available c b) l) = true.
Proof.
  intros Hin Ha. apply negb_true_iff. apply not_true_iff_false. intro H. rewrite forallb_forall in H.
  rewrite (H a Hin) in Ha. discriminate.
Qed.

(** before the body: the contracts see [resolved] *)
Lemma needs_pre cc : needs resolved cc -> needs_unavailable c false cc = true.
Proof.
  unfold needs, needs_unavailable, factory_lacks. intros [H|H].
  - destruct (lacks_exists _ _ H) as (a & Hin & Ha). apply orb_true_iff. left.
    apply (not_all_available false _ a Hin). unfold available. fold s args kwargs resolved. rewrite Ha. reflexivity.
  - destruct (cerror cc) as [| | |eargs emand]; try contradiction.
    destruct (lacks_exists _ _ H) as (a & Hin & Ha). apply orb_true_iff. right.
    apply (not_all_available false _ a Hin). unfold available. fold s args kwargs resolved. rewrite Ha. reflexivity.
Qed.

(** after the body: [resolved] with [result] and - exactly when something is captured - [OLD] *)
Definition post_env (res : dict) : Prop :=
  exists result, (is_nil snaps = true /\ res = dict_set resolved "result" result)
                 \/ (is_nil snaps = false /\ exists old, res = dict_set (dict_set resolved "OLD" old) "result" result).

Lemma unavailable_post res a : post_env res -> dict_has res a = false -> available c true a = false.
Proof.
  intros (result & [(Hs & ->)|(Hs & old & ->)]) H; rewrite !dict_has_set in H; apply orb_false_iff in H.
  - destruct H as (H1 & H2). unfold available. fold s args kwargs resolved snaps. rewrite H2, Hs. cbn [orb andb negb].
    rewrite String.eqb_sym, H1. rewrite andb_false_r. reflexivity.
  - destruct H as (H1 & H2). apply orb_false_iff in H2. destruct H2 as (H2 & H3).
    unfold available. fold s args kwargs resolved snaps. rewrite H3. cbn [orb andb].
    rewrite String.eqb_sym, H1, String.eqb_sym, H2. reflexivity.
Qed.

Lemma needs_post res cc : post_env res -> needs res cc -> needs_unavailable c true cc = true.
Proof.
  intros He. unfold needs, needs_unavailable, factory_lacks. intros [H|H].
  - destruct (lacks_exists _ _ H) as (a & Hin & Ha). apply orb_true_iff. left.
    apply (not_all_available true _ a Hin). exact (unavailable_post res a He Ha).
  - destruct (cerror cc) as [| | |eargs emand]; try contradiction.
    destruct (lacks_exists _ _ H) as (a & Hin & Ha). apply orb_true_iff. right.
    apply (not_all_available true _ a Hin). exact (unavailable_post res a He Ha).
Qed.

Lemma static_pre cc : In cc (List.concat pre) -> needs resolved cc -> static_reason = true.
Proof.
  intros Hin Hn. unfold static_reason. rewrite !orb_true_iff. left. left. right.
  apply existsb_exists. exists cc. split; [apply in_or_app; left; exact Hin|exact (needs_pre cc Hn)].
Qed.

Lemma static_post res cc : In cc post -> post_env res -> needs res cc -> static_reason = true.
Proof.
  intros Hin He Hn. unfold static_reason. rewrite !orb_true_iff. left. right.
  apply existsb_exists. exists cc. split; [exact Hin|exact (needs_post res cc He Hn)].
Qed.

Lemma static_snap sn : In sn snaps -> lacks resolved (sargs sn) -> static_reason = true.
Proof.
  intros Hin Hl. unfold static_reason. rewrite !orb_true_iff. right.
  apply existsb_exists. exists sn. split; [exact Hin|]. unfold lacks in Hl. rewrite Hl. reflexivity.
Qed.

(** ** what the evaluation of the contracts hands back to be raised is never the library's TypeError *)
Definition Val {A} (Q : A -> Prop) (mm : M A) : Prop := forall st t a st', mm st = (t, inl a, st') -> Q a.
Definition no_te (x : exn) : Prop := forall o, x <> XLib "TypeError" o.
Definition opt_no_te (v : option exn) : Prop := match v with Some x => no_te x | None => True end.

Lemma Val_ret {A} (Q : A -> Prop) a : Q a -> Val Q (ret a).
Proof. intros H st t b st' E. unfold ret in E. injection E as _ <- _. exact H. Qed.
Lemma Val_throw {A} (Q : A -> Prop) x : Val Q (@throw A x).
Proof. intros st t b st' E. unfold throw in E. discriminate. Qed.
Lemma Val_bind {A B} (Qa : A -> Prop) (Q : B -> Prop) (mm : M A) (k : A -> M B) :
  Val Qa mm -> (forall a, Qa a -> Val Q (k a)) -> Val Q (bindM mm k).
Proof.
  intros Hm Hk st t b st' E. unfold bindM in E. destruct (mm st) as [[t1 [a|x]] st1] eqn:E1; [|discriminate].
  destruct (k a st1) as [[t2 r2] st2] eqn:E2. injection E as _ -> _. exact (Hk a (Hm _ _ _ _ E1) _ _ _ _ E2).
Qed.
Lemma Val_any {A} (mm : M A) : Val (fun _ => True) mm.
Proof. intros st t a st' _. exact I. Qed.

Lemma Why_bind_val {A B} (P : Prop) (Q : A -> Prop) (mm : M A) (k : A -> M B) :
  Why P mm -> Val Q mm -> (forall a, Q a -> Why P (k a)) -> Why P (bindM mm k).
Proof.
  intros Hm Hv Hk st t r st' H T. unfold bindM in H. destruct (mm st) as [[t1 r1] st1] eqn:E1. destruct r1 as [a|x].
  - destruct (k a st1) as [[t2 r2] st2] eqn:E2. injection H as <- <- <-.
    destruct (Hk a (Hv _ _ _ _ E1) _ _ _ _ E2 T) as [HP|HO]; [left; exact HP|right; apply Other_app_r; exact HO].
  - injection H as <- <- <-. destruct T as (o & Hr). injection Hr as ->.
    apply (Hm _ _ _ _ E1). exists o. reflexivity.
Qed.

Lemma val_error r cc res : Val no_te (create_violation_error U r cc res).
Proof.
  unfold create_violation_error. destruct (cerror cc) as [|k|e|eargs emand].
  1,2: eapply Val_bind; [apply Val_any|intros _ _; apply Val_ret; intro o; discriminate].
  - apply Val_ret. intro o. discriminate.
  - destruct (select eargs emand res); [|apply Val_throw].
    eapply Val_bind; [apply Val_any|intros _ _].
    destruct (u_error U (cid cc) d); [apply Val_ret; intro o; discriminate|apply Val_throw|apply Val_throw].
Qed.

Lemma val_group res : forall g, Val opt_no_te (eval_group m U g res).
Proof.
  induction g as [|cc rest IH]; cbn [eval_group]; [apply Val_ret; exact I|].
  eapply Val_bind; [apply Val_any|intros b _]. destruct b; [exact IH|].
  eapply Val_bind; [apply val_error|intros x Hx; apply Val_ret; exact Hx].
Qed.

Lemma val_groups res : forall gs, Val opt_no_te (eval_groups m U gs res).
Proof.
  induction gs as [|g rest IH]; cbn [eval_groups]; [apply Val_ret; exact I|].
  eapply Val_bind; [apply val_group|]. intros [x|] Hx; [|apply Val_ret; exact I].
  destruct rest as [|g2 r2]; [apply Val_ret; exact Hx|exact IH].
Qed.

Lemma val_posts res : forall ps, Val opt_no_te (eval_posts m U ps res).
Proof.
  induction ps as [|cc rest IH]; cbn [eval_posts]; [apply Val_ret; exact I|].
  eapply Val_bind; [apply Val_any|intros b _]. destruct b; [exact IH|].
  eapply Val_bind; [apply val_error|intros x Hx; apply Val_ret; exact Hx].
Qed.

(** ** the checker wrapper *)
Lemma why_checker_call : Why (static_reason = true) (checker_call m U s pre snaps post args kwargs).
Proof.
  unfold checker_call. fold resolved.
  destruct (dict_has kwargs "_ARGS" || dict_has kwargs "_KWARGS") eqn:E1.
  { apply Why_throw. unfold static_reason. rewrite E1. reflexivity. }
  destruct (negb (is_nil post) && (dict_has resolved "result" || dict_has resolved "OLD")) eqn:E2.
  { apply Why_throw. unfold static_reason. rewrite E2, orb_true_r. reflexivity. }
  eapply Why_bind_val; [|apply val_groups|].
  { eapply Why_weaken; [|apply why_groups]. intros (cc & Hin & Hn). exact (static_pre cc Hin Hn). }
  intros [x|] Hx; [apply Why_throw_other; exact Hx|].
  set (envQ := fun r1 : dict => (is_nil snaps = true /\ r1 = resolved) \/ (is_nil snaps = false /\ exists old, r1 = dict_set resolved "OLD" old) \/ is_nil post = true).
  eapply (Why_bind_val _ envQ).
  { destruct (negb (is_nil post) && negb (is_nil snaps)); [|apply Why_ret].
    apply Why_bind; [|intro; apply Why_ret].
    eapply Why_weaken; [|apply why_capture_old]. intros (sn & Hin & Hl). exact (static_snap sn Hin Hl). }
  { unfold envQ. destruct (is_nil post) eqn:Ep; cbn [negb andb].
    - apply Val_ret. right. right. reflexivity.
    - destruct (is_nil snaps) eqn:Es; cbn [negb].
      + apply Val_ret. left. auto.
      + eapply Val_bind; [apply Val_any|intros old _]. apply Val_ret. right. left. split; [reflexivity|]. eauto. }
  intros res1 Hres1. apply Why_bind.
  { eapply Why_weaken; [|apply why_body]. intro Hb. unfold static_reason. rewrite Hb. rewrite !orb_true_r. reflexivity. }
  intro result. destruct (is_nil post) eqn:Ep; [apply Why_ret|].
  eapply Why_bind_val; [|apply val_posts|].
  { eapply Why_weaken; [|apply why_posts]. intros (cc & Hin & Hn). apply (static_post (dict_set res1 "result" result) cc Hin); [|exact Hn].
    exists result. destruct Hres1 as [(Hs & ->)|[(Hs & old & ->)|Hp]]; [left; auto|right; split; [exact Hs|eauto]|congruence]. }
  intros [y|] Hy; [apply Why_throw_other; exact Hy|apply Why_ret].
Qed.

(** ** invariants: evaluated with the instance only; their error factories take the instance only *)
Lemma why_invariants self : forall l, (forall cc, In cc l -> In cc inv_list) -> Why False (check_invariants U l self).
Proof.
  induction l as [|cc rest IH]; intro Hin; cbn [check_invariants]; [apply Why_ret|].
  apply Why_bind.
  - intros st t r st' H (o & Hr). subst r. unfold eval_invariant, bindM, emit in H. cbn beta iota in H.
    destruct (u_cond U (cid cc) (inv_kwargs cc self) st); unfold ret, throw in H; try discriminate.
    injection H as _ H _. exfalso. exact (bool_raise_not_te _ _ H).
  - intros [|]; [apply IH; intros x Hx; apply Hin; right; exact Hx|].
    eapply Why_bind_val; [|apply val_error|intros x Hx; apply Why_throw_other; exact Hx].
    eapply Why_weaken; [|apply why_error]. unfold factory_lacks.
    assert (Hcc : In cc inv_list) by (apply Hin; left; reflexivity).
    unfold wf_case in Hwf. rewrite Forall_forall in Hwf. specialize (Hwf cc Hcc).
    destruct (cerror cc) as [| | |eargs emand]; [intros []|intros []|intros []|].
    intro Hl. destruct (lacks_exists _ _ Hl) as (a & Ha & Hd). rewrite forallb_forall in Hwf.
    pose proof (Hwf a Ha) as Hs. apply String.eqb_eq in Hs. subst a. unfold dict_has in Hd. cbn in Hd. discriminate.
Qed.

Lemma around_in_inv cc : In cc (around_invs c) -> In cc inv_list.
Proof.
  unfold around_invs, inv_list, setattr_list. destruct (k_invs c) as [invs|]; [|intros []].
  destruct (k_kind c); try (intros []); try (intro H; apply in_or_app; left; exact H).
  destruct (is_nil _); intro H; [apply in_or_app; left; exact H|].
  apply in_app_or in H as [H|H]; apply in_or_app; [left; apply filter_In in H; tauto|right; exact H].
Qed.

Lemma why_case : Why (static_reason = true) (case_M c).
Proof.
  unfold case_M. fold U.
  set (inner := if is_nil (eff_pre (k_levels c)) && is_nil (eff_post (k_levels c))
                then run_body U (k_sig c) (k_args c) (k_kwargs c)
                else checker_call (k_mode c) U (k_sig c) (eff_pre (k_levels c)) (eff_snaps (k_levels c))
                                  (eff_post (k_levels c)) (k_args c) (k_kwargs c)).
  assert (Hi : Why (static_reason = true) inner).
  { unfold inner. destruct (is_nil _ && is_nil _); [|exact why_checker_call].
    eapply Why_weaken; [|apply why_body]. intro Hb. unfold static_reason. fold s args kwargs in Hb. rewrite Hb. rewrite !orb_true_r. reflexivity. }
  assert (Hinv : forall l, (forall cc, In cc l -> In cc inv_list) -> Why (static_reason = true) (check_invariants U l (hd PNone (k_args c)))).
  { intros l Hl. eapply Why_weaken; [|apply why_invariants; exact Hl]. intros []. }
  assert (Hm : Why (static_reason = true) (method_call U (around_invs c) (hd PNone (k_args c)) inner)).
  { unfold method_call. apply Why_bind; [apply Hinv; exact around_in_inv|intros _].
    apply Why_bind; [exact Hi|intro result]. apply Why_bind; [apply Hinv; exact around_in_inv|intros _; apply Why_ret]. }
  destruct (k_invs c) as [invs|] eqn:Ei; [|exact Hi].
  destruct (k_kind c); try exact Hi; try exact Hm.
  unfold init_call. apply Why_bind; [exact Hi|intro result].
  apply Why_bind; [|intros _; apply Why_ret]. apply Hinv. intros cc Hc. unfold inv_list. rewrite Ei. exact Hc.
Qed.

(** ** the statement *)
Theorem type_error_has_a_reason o :
  snd (run_case c) = inr (XLib "TypeError" o) -> legit_type_error c (fst (run_case c)) = true.
Proof.
  unfold run_case, run_M. destruct (case_M c (k_store c)) as [[t r] st'] eqn:E. cbn [fst snd]. intro Hr.
  assert (Hr' : r = inr (XLib "TypeError" o)).
  { destruct r as [v|x]; [destruct (k_kind c); discriminate|]. destruct (k_kind c); exact Hr. }
  destruct (why_case _ _ _ _ E (ex_intro _ o Hr')) as [Hs|Ho]; [apply legit_of_static; exact Hs|apply legit_of_other; exact Ho].
Qed.
End TypeError.

(** a concrete case: f(x) whose precondition names [y], which the call does not provide *)
Definition ex_ty_case : ccase :=
  {| k_kind := KFunction; k_mode := Sync;
     k_sig := {| posonly := []; poskw := [{| pname := "x"; pdefault := None |}]; varpos := None; kwonly := []; varkw := None |};
     k_levels := [{| l_pre := [{| cid := 1; cargs := ["y"]; cmandatory := ["y"]; ckind_ := CKPlain; cerror := ENone; clambda := false |}];
                     l_snaps := []; l_post := [] |}];
     k_invs := None; k_invs_all := []; k_invs_set := []; k_args := [PObj 1]; k_kwargs := [];
     k_tables := {| t_cond := []; t_capture := []; t_error := []; t_body := BRet PNone; t_mutate := [] |};
     k_store := [] |}.
Lemma type_error_nonvacuous :
  wf_case ex_ty_case /\ snd (run_case ex_ty_case) = inr (XLib "TypeError" None)
  /\ legit_type_error ex_ty_case (fst (run_case ex_ty_case)) = true.
Proof. split; [constructor|split; vm_compute; reflexivity]. Qed.

(** the clause of [spec_C05_call] *)
Theorem type_error_clause_sound c :
  wf_case c ->
  match snd (run_case c) with
  | inr (XLib cls _) => implb (String.eqb cls "TypeError") (legit_type_error c (fst (run_case c)))
  | _ => true
  end = true.
Proof.
  intro Hwf. destruct (snd (run_case c)) as [v|[k|k k2|k|cls o]] eqn:E; try reflexivity.
  destruct (String.eqb cls "TypeError") eqn:Ec; [|reflexivity]. apply String.eqb_eq in Ec. subst cls.
  cbn [implb]. exact (type_error_has_a_reason c Hwf o E).
Qed.
