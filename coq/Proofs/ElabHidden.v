(** The class of the recorded finding D36 ([hidden_definers], Spec/ElabOracle.v) is empty in single-inheritance
    hierarchies: with at most one base per class every definer on the resolution order is reached by the meta-class,
    so nothing can hide in that class there - it takes a class with two bases to make a definer unreachable. *)
From Coq Require Import List String ZArith Bool Arith Lia.
From ICV Require Import Base Bind Checker Elab ElabCase ElabOracle.
Import ListNotations.
Open Scope string_scope.
Open Scope list_scope.

Section Single.
Variable decls : list cdecl.
Variable mro : nat -> list nat.
Variable name : string.
Variable acc : mkind.

(** single inheritance: the resolution order of a class is the class followed by the order of its only base *)
Hypothesis Hsingle : forall k d, nth_error decls k = Some d ->
  (cd_bases d = [] /\ mro k = [k]) \/ (exists b, cd_bases d = [b] /\ b < k /\ mro k = k :: mro b).
Hypothesis Hnone : forall k, nth_error decls k = None -> mro k = [].

Lemma definers_step k d :
  nth_error decls k = Some d ->
  definers decls mro k name acc =
  (match own_member d name acc with Some m => [(k, m)] | None => [] end)
  ++ match cd_bases d with [b] => definers decls mro b name acc | _ => [] end.
Proof.
  intro E. unfold definers. destruct (Hsingle k d E) as [(Hb & Hm)|(b & Hb & _ & Hm)]; rewrite Hm, Hb; cbn [flat_map].
  - unfold decl_of. rewrite E. rewrite app_nil_r. reflexivity.
  - unfold decl_of at 1. rewrite E. reflexivity.
Qed.

(** every definer on the resolution order of a class that defines the member is reached from it *)
Lemma reached_all : forall fuel k, k < fuel ->
  forall c m, In (c, m) (definers decls mro k name acc) ->
  match definers decls mro k name acc with
  | (c0, _) :: _ => In c (reached fuel decls mro name acc c0)
  | [] => False
  end.
Proof.
  induction fuel as [|fuel IH]; intros k Hk c m Hin; [lia|].
  destruct (nth_error decls k) as [d|] eqn:E.
  2:{ unfold definers in Hin. rewrite (Hnone k E) in Hin. destruct Hin. }
  rewrite (definers_step k d E) in *.
  destruct (own_member d name acc) as [m0|] eqn:Eo; cbn [app] in *.
  - (* k defines the member itself: it is the first definer *)
    cbn [reached]. rewrite E. destruct Hin as [Hin|Hin]; [injection Hin as <- _; left; reflexivity|]. right.
    destruct (Hsingle k d E) as [(Hb & _)|(b & Hb & Hlt & _)]; rewrite Hb in *; [destruct Hin|].
    cbn [flat_map]. rewrite app_nil_r.
    assert (Hb' : b < fuel) by lia. specialize (IH b Hb' c m Hin).
    destruct (definers decls mro b name acc) as [|[c0 m1] rest]; [destruct IH|exact IH].
  - (* k does not: its definers are those of its base *)
    destruct (Hsingle k d E) as [(Hb & _)|(b & Hb & Hlt & _)]; rewrite Hb in *; [destruct Hin|].
    assert (Hb' : b < fuel) by lia. specialize (IH b Hb' c m Hin).
    destruct (definers decls mro b name acc) as [|[c0 m1] rest]; [destruct IH|].
    (* more fuel reaches at least as much *)
    revert IH. clear. revert c0. induction fuel as [|f IHf]; intros c0 H; [destruct H|].
    cbn [reached] in *. destruct H as [H|H]; [left; exact H|right].
    destruct (nth_error decls c0) as [d0|]; [|exact H].
    induction (cd_bases d0) as [|b0 r IHr]; cbn [flat_map] in *; [exact H|].
    apply in_app_or in H as [H|H]; apply in_or_app; [left|right; exact (IHr H)].
    destruct (definers decls mro b0 name acc) as [|[c1 m2] rest1]; [exact H|exact (IHf c1 H)].
Qed.

Theorem single_inheritance_hides_nothing p d m0 :
  nth_error decls p = Some d -> own_member d name acc = Some m0 ->
  hidden_definers decls mro p name acc = [].
Proof.
  intros E Eo. unfold hidden_definers.
  assert (H : forall c m, In (c, m) (definers decls mro p name acc) -> nat_in c (reached (S p) decls mro name acc p) = true).
  { intros c m Hin. pose proof (reached_all (S p) p (Nat.lt_succ_diag_r p) c m Hin) as R.
    rewrite (definers_step p d E), Eo in R. cbn [app] in R.
    clear - R. induction (reached (S p) decls mro name acc p) as [|x r IH]; [destruct R|].
    cbn [nat_in]. destruct R as [->|R]; [rewrite Nat.eqb_refl; reflexivity|]. rewrite (IH R). apply orb_true_r. }
  induction (definers decls mro p name acc) as [|[c m] rest IH]; [reflexivity|].
  cbn [flat_map fst]. rewrite (H c m (or_introl eq_refl)). cbn [app]. apply IH. intros c' m' Hin. apply (H c' m'). right. exact Hin.
Qed.
End Single.
