(** C18: every class created through the meta-class is announced (registered for the integration hook) exactly once,
    in creation order - and nothing else is: in every world a history of definitions reaches, the list of
    registrations is the list of the numbers of the meta classes, ascending. *)
From Coq Require Import List String ZArith Bool Arith Lia.
From ICV Require Import Base Bind Checker Elab ElabFrame ElabClassFrame ElabOwnLists.
Import ListNotations.
Open Scope string_scope.
Open Scope list_scope.

(** what the statement depends on: which classes are meta classes, and the registrations *)
Definition rv (w : world) : list bool * list nat := (map co_meta (w_classes w), w_registered w).

Lemma rv_class_ns_set w k name m : rv (class_ns_set w k name m) = rv w.
Proof.
  unfold class_ns_set. destruct (get_class w k) as [c|] eqn:E; [|reflexivity].
  unfold rv, set_class; cbn. f_equal. apply map_set_nth_same. intros y Hy. unfold get_class in E. rewrite E in Hy.
  injection Hy as <-. reflexivity.
Qed.

Lemma rv_class_ns_set_if w k name ch m : rv (class_ns_set_if w k name ch m) = rv w.
Proof. unfold class_ns_set_if. destruct (ch || in_own_ns w k name); [apply rv_class_ns_set|reflexivity]. Qed.

Lemma rv_decorate_with_invariants w f b : rv (fst (decorate_with_invariants w f b)) = rv w.
Proof.
  unfold decorate_with_invariants. destruct (already_inv_wrapped w _ f); [reflexivity|].
  unfold wrap. destruct (get_func w f); reflexivity.
Qed.

Lemma rv_decorate_inv_opt w o : rv (fst (decorate_inv_opt w o)) = rv w.
Proof.
  unfold decorate_inv_opt. destruct o as [x|]; [|reflexivity].
  pose proof (rv_decorate_with_invariants w x false) as H.
  destruct (decorate_with_invariants w x false). exact H.
Qed.

Lemma rv_wrap_member w k name : rv (wrap_member w k name) = rv w.
Proof.
  unfold wrap_member.
  destruct (str_in name _); [reflexivity|].
  destruct (negb (String.eqb name "__setattr__") && negb (negb (is_nil (class_invs w k LCall)))); [reflexivity|].
  destruct (String.eqb name "__setattr__" && negb (negb (is_nil (class_invs w k LSet)))); [reflexivity|].
  destruct (is_private name); [reflexivity|].
  destruct (class_getattr w k name) as [[kd f|g s d|n]|]; try reflexivity.
  - destruct kd; try reflexivity.
    pose proof (rv_decorate_with_invariants w f false) as H.
    destruct (decorate_with_invariants w f false) as [w1 f']. rewrite rv_class_ns_set_if. exact H.
  - pose proof (rv_decorate_inv_opt w g) as H1. destruct (decorate_inv_opt w g) as [w1 g'].
    pose proof (rv_decorate_inv_opt w1 s) as H2. destruct (decorate_inv_opt w1 s) as [w2 s'].
    pose proof (rv_decorate_inv_opt w2 d) as H3. destruct (decorate_inv_opt w2 d) as [w3 d'].
    rewrite rv_class_ns_set_if. cbn in *. congruence.
  - unfold slot_function. 
    match goal with |- context [add_func w ?fo] => destruct (add_func w fo) as [wa f] eqn:E end.
    assert (Ha : rv wa = rv w) by (unfold add_func in E; injection E as <- _; reflexivity).
    pose proof (rv_decorate_with_invariants wa f false) as H.
    destruct (decorate_with_invariants wa f false) as [w1 f']. rewrite rv_class_ns_set. cbn in H. congruence.
Qed.

Lemma rv_wrap_constructor w k : rv (wrap_constructor w k) = rv w.
Proof.
  unfold wrap_constructor.
  destruct (class_getattr w k "__init__") as [[kd f|g s d|n]|]; try reflexivity.
  - destruct kd; try reflexivity.
    pose proof (rv_decorate_with_invariants w f true) as H.
    destruct (decorate_with_invariants w f true) as [w1 f']. rewrite rv_class_ns_set_if. exact H.
  - destruct (has_own_new w k).
    + destruct (class_getattr w k "__new__") as [[kd f|g s d|n']|]; try reflexivity.
      destruct (already_inv_wrapped w _ f); [reflexivity|].
      unfold wrap. destruct (get_func w f); [|reflexivity]. unfold add_func. rewrite rv_class_ns_set. reflexivity.
    + unfold slot_function.
      match goal with |- context [add_func w ?fo] => destruct (add_func w fo) as [wa f] eqn:E end.
      assert (Ha : rv wa = rv w) by (unfold add_func in E; injection E as <- _; reflexivity).
      pose proof (rv_decorate_with_invariants wa f true) as H.
      destruct (decorate_with_invariants wa f true) as [w1 f']. rewrite rv_class_ns_set. cbn in H. congruence.
Qed.

Lemma rv_add_invariant_checks w k : rv (add_invariant_checks w k) = rv w.
Proof.
  unfold add_invariant_checks. rewrite <- (rv_wrap_constructor w k).
  generalize (dir_names (wrap_constructor w k) k). generalize (wrap_constructor w k).
  intros w1 names. revert w1. induction names as [|n r IH]; intro w1; cbn; [reflexivity|].
  rewrite IH. apply rv_wrap_member.
Qed.


Lemma rv_class_set_invs w k a b c : rv (class_set_invs w k a b c) = rv w.
Proof.
  unfold class_set_invs. destruct (get_class w k) as [co|] eqn:E; [|reflexivity].
  unfold rv, set_class; cbn. f_equal. apply map_set_nth_same. intros y Hy. unfold get_class in E. rewrite E in Hy.
  injection Hy as <-. reflexivity.
Qed.

Lemma rv_apply_invariant w k d : rv (apply_invariant w k d) = rv w.
Proof.
  unfold apply_invariant. destruct (negb (id_enabled d)); [reflexivity|].
  set (w1 := match class_inv w k LInv with
             | Some _ => w
             | None => let '(wa, r1) := alloc w [] in let '(wb, r2) := alloc wa [] in let '(wc, r3) := alloc wb [] in
                       class_set_invs wc k (Some r1) (Some r2) (Some r3)
             end).
  assert (H1 : rv w1 = rv w).
  { unfold w1. destruct (class_inv w k LInv); [reflexivity|]. cbn. rewrite rv_class_set_invs. reflexivity. }
  destruct (class_inv w1 k LInv) as [r1|]; [|exact H1]. destruct (class_inv w1 k LCall) as [r2|]; [|exact H1].
  destruct (class_inv w1 k LSet) as [r3|]; [|exact H1].
  rewrite rv_add_invariant_checks. rewrite <- H1. destruct (on_setattr _), (on_call _); reflexivity.
Qed.

Lemma rv_apply_invariants k : forall ds w, rv (fold_left (fun acc i => apply_invariant acc k i) ds w) = rv w.
Proof. induction ds as [|d r IH]; intro w; cbn; [reflexivity|]. rewrite IH. apply rv_apply_invariant. Qed.

Lemma rv_keeps w0 w : Keeps w0 w -> rv w = rv w0.
Proof. intros (_ & _ & C & _ & R & _). unfold rv. rewrite C, R. reflexivity. Qed.

Lemma define_class_pre_rv w d w5 k :
  define_class_pre w d = Ok (w5, k) ->
  k = List.length (w_classes w) /\
  rv w5 = (map co_meta (w_classes w) ++ [is_meta w d], w_registered w ++ (if is_meta w d then [k] else [])).
Proof.
  intro H. destruct (define_class_pre_shape w d w5 k H) as (Hk & _). split; [exact Hk|].
  unfold define_class_pre in H.
  destruct (inv_construction_error (rev (cd_invs d))); [discriminate|].
  destruct (negb (forallb (is_live w) (cd_bases d))); [discriminate|].
  destruct (define_members w (cd_bases d) (cd_members d) []) as [[w1 ns]|e] eqn:Dm; cbn [bind] in H; [|discriminate].
  assert (Fc0 : FreshClosed w w) by (intros f fo Hf Hg; apply get_func_bound in Hg; lia).
  assert (N0 : NsOk w w (cd_bases d) []) by (intros key m []).
  destruct (define_members_good w (cd_bases d) (cd_members d) w [] w1 ns (Keeps_refl w) Fc0 N0 Dm) as (K1 & C1 & N1).
  assert (E1 : w_classes w1 = w_classes w) by (apply Keeps_classes; exact K1).
  assert (Em : (cd_dbc d || existsb (fun b => match get_class w1 b with Some c => co_meta c | None => false end) (cd_bases d))
               = is_meta w d) by (unfold is_meta, get_class; rewrite E1; reflexivity).
  rewrite Em in H.
  destruct (compute_mro w1 (List.length (w_classes w1)) (cd_bases d)) as [mro|]; [|match goal with H0 : context [if ?b then ?x else ?y] |- _ => destruct (if b then x else y) end; discriminate].
  destruct (is_meta w d) eqn:Meta.
  - destruct (collapse_invariants w1 (cd_bases d) LInv) as [wa i1] eqn:Ca.
    destruct (collapse_invariants wa (cd_bases d) LCall) as [wb i2] eqn:Cb.
    destruct (collapse_invariants wb (cd_bases d) LSet) as [wc i3] eqn:Cc.
    assert (Ka : Keeps w wa) by (replace wa with (fst (collapse_invariants w1 (cd_bases d) LInv)) by (rewrite Ca; reflexivity); apply Keeps_collapse_invariants; exact K1).
    assert (Kb : Keeps w wb) by (replace wb with (fst (collapse_invariants wa (cd_bases d) LCall)) by (rewrite Cb; reflexivity); apply Keeps_collapse_invariants; exact Ka).
    assert (Kc : Keeps w wc) by (replace wc with (fst (collapse_invariants wb (cd_bases d) LSet)) by (rewrite Cc; reflexivity); apply Keeps_collapse_invariants; exact Kb).
    assert (Fc : FC w wc).
    { replace wc with (fst (collapse_invariants wb (cd_bases d) LSet)) by (rewrite Cc; reflexivity). apply FC_collapse_invariants.
      replace wb with (fst (collapse_invariants wa (cd_bases d) LCall)) by (rewrite Cb; reflexivity). apply FC_collapse_invariants.
      replace wa with (fst (collapse_invariants w1 (cd_bases d) LInv)) by (rewrite Ca; reflexivity). apply FC_collapse_invariants.
      apply FreshClosed_FC. exact C1. }
    destruct (dbc_decorate_members wc (cd_bases d) (cd_dbc d) ns ns) as [[w2 ns2]|e] eqn:Dd; cbn [bind fst snd] in H; [|discriminate].
    assert (Nc : forall key m, In (key, m) ns -> member_ok w wc (cd_bases d) key m).
    { intros key m Hin. apply member_ok_same_classes with (w := w1).
      - rewrite E1, (Keeps_classes w wc Kc). reflexivity.
      - apply N1. exact Hin. }
    destruct (dbc_decorate_members_good w (cd_bases d) (cd_dbc d) ns wc ns w2 ns2 Kc Fc Nc Dd) as (K2 & _).
    pose proof (rv_keeps w w2 K2) as R2. unfold rv in R2. injection R2 as M2 G2.
    injection H as Hw5 Hk5. subst w5.
    match goal with |- rv {| w_heap := _; w_funcs := _; w_classes := w_classes ?w4; w_registered := w_registered ?w4 ++ _; w_module := _ |} = _ =>
      assert (R4 : rv w4 = (map co_meta (w_classes w) ++ [true], w_registered w)) end.
    { match goal with |- rv (match ?c with Some _ => add_invariant_checks ?w3 ?kk | None => _ end) = _ =>
        assert (R3 : rv w3 = (map co_meta (w_classes w) ++ [true], w_registered w))
          by (unfold rv; cbn [w_classes w_registered]; rewrite map_app, M2, G2; reflexivity);
        destruct c; [rewrite rv_add_invariant_checks|]; exact R3 end. }
    unfold rv in *. cbn [w_classes w_registered]. injection R4 as M4 G4. rewrite M4, G4, Hk5. reflexivity.
  - cbn [bind] in H. injection H as Hw5 Hk5. subst w5. pose proof (rv_keeps w w1 K1) as R1. unfold rv in R1. injection R1 as M1 G1.
    unfold rv. cbn [w_classes w_registered]. rewrite map_app, M1, G1, app_nil_r. reflexivity.
Qed.

(** decorating a function object touches neither the classes nor the registrations *)
Definition cr (w : world) := (w_classes w, w_registered w).

Lemma wrap_cr w role cur w' n : wrap w role cur = Some (w', n) -> cr w' = cr w.
Proof. unfold wrap. destruct (get_func w cur); [|discriminate]. intro H. injection H as <- _. reflexivity. Qed.

Lemma decorate_with_checker_cr w cur w' n : decorate_with_checker w cur = Ok (w', n) -> cr w' = cr w.
Proof.
  unfold decorate_with_checker. destruct (get_func w cur); [|discriminate]. destruct (sig_reserved _); [discriminate|].
  cbn. intro H. injection H as <- _. reflexivity.
Qed.

Lemma apply_deco_cr w cur d w' cur' : apply_deco w cur d = Ok (w', cur') -> cr w' = cr w.
Proof.
  destruct d as [c en|c en|s en|k|e en]; unfold apply_deco.
  - destruct en; cbn [negb]; [|intro H; injection H as <- _; reflexivity].
    destruct (find_checker w cur) as [ch|].
    + cbn [bind]. destruct (get_func w ch) as [chf|]; [|discriminate]. destruct (fo_pre chf) as [rp|]; [|discriminate].
      destruct (group_refs w rp) as [|g [|g2 gs]]; try discriminate.
      * destruct (alloc w []) as [wa g] eqn:Ea. intro H. injection H as <- _. cbn. unfold alloc in Ea. injection Ea as <- _. reflexivity.
      * intro H. injection H as <- _. reflexivity.
    + destruct (decorate_with_checker w cur) as [[w1 ch]|e] eqn:D; cbn [bind fst snd]; [|discriminate].
      pose proof (decorate_with_checker_cr _ _ _ _ D) as E1.
      destruct (get_func w1 ch) as [chf|]; [|discriminate]. destruct (fo_pre chf) as [rp|]; [|discriminate].
      destruct (group_refs w1 rp) as [|g [|g2 gs]]; try discriminate.
      * destruct (alloc w1 []) as [wa g] eqn:Ea. intro H. injection H as <- _. cbn. unfold alloc in Ea. injection Ea as <- _. exact E1.
      * intro H. injection H as <- _. exact E1.
  - destruct en; cbn [negb]; [|intro H; injection H as <- _; reflexivity].
    destruct (find_checker w cur) as [ch|].
    + cbn [bind]. destruct (get_func w ch) as [chf|]; [|discriminate]. destruct (fo_post chf) as [rq|]; [|discriminate].
      intro H. injection H as <- _. reflexivity.
    + destruct (decorate_with_checker w cur) as [[w1 ch]|e] eqn:D; cbn [bind fst snd]; [|discriminate].
      pose proof (decorate_with_checker_cr _ _ _ _ D) as E1.
      destruct (get_func w1 ch) as [chf|]; [|discriminate]. destruct (fo_post chf) as [rq|]; [|discriminate].
      intro H. injection H as <- _. exact E1.
  - destruct en; cbn [negb]; [|intro H; injection H as <- _; reflexivity].
    destruct (find_checker w cur) as [ch|]; [|discriminate]. destruct (get_func w ch) as [chf|]; [|discriminate].
    destruct (fo_snaps chf) as [rs|]; [|discriminate]. destruct (fo_post chf) as [rq|]; [|discriminate].
    destruct (is_nil _); [discriminate|]. destruct (str_in _ _); [discriminate|]. intro H. injection H as <- _. reflexivity.
  - destruct (wrap w (FForeign k) cur) as [[w1 n]|] eqn:W; [|discriminate]. intro H. injection H as <- _. exact (wrap_cr _ _ _ _ _ W).
  - intro H. injection H as <- _. reflexivity.
Qed.


(** ** the invariant: the registrations are the numbers of the meta classes, ascending *)
Definition metas_of (ms : list bool) : list nat := filter (fun k => nth k ms false) (seq 0 (List.length ms)).
Definition Reg (w : world) : Prop := snd (rv w) = metas_of (fst (rv w)).

Lemma metas_of_app ms m : metas_of (ms ++ [m]) = metas_of ms ++ (if m then [List.length ms] else []).
Proof.
  unfold metas_of. rewrite app_length. cbn [List.length]. rewrite Nat.add_1_r, seq_S, filter_app. cbn [filter].
  rewrite Nat.add_0_l. rewrite app_nth2 by lia. rewrite Nat.sub_diag. cbn [nth].
  f_equal. apply filter_ext_in. intros k Hk. apply in_seq in Hk. rewrite app_nth1 by lia. reflexivity.
Qed.

Lemma Reg_rv w w' : rv w' = rv w -> Reg w -> Reg w'.
Proof. unfold Reg. intros ->. auto. Qed.

Lemma Reg_empty : Reg empty_world.
Proof. reflexivity. Qed.

Theorem Reg_step w op w' : Reg w -> step_def w op = Ok w' -> Reg w'.
Proof.
  intros Hr H. destruct op as [m|d|k name dc]; cbn [step_def] in H.
  - destruct (define_function w (md_sig m) (md_async m) (md_decos m)) as [[w1 f]|e] eqn:Df; cbn [bind fst snd] in H; [|discriminate].
    injection H as <-.
    assert (Fc0 : FreshClosed w w) by (intros f0 fo Hf Hg; apply get_func_bound in Hg; lia).
    destruct (define_function_good w w _ _ _ w1 f (Keeps_refl w) Fc0 Df) as (K1 & _).
    eapply Reg_rv; [|exact Hr]. pose proof (rv_keeps w w1 K1) as R. unfold rv in *. cbn [w_classes w_registered]. exact R.
  - rewrite define_class_split in H. destruct (define_class_pre w d) as [[w5 k]|e] eqn:P; [|discriminate]. injection H as <-.
    destruct (define_class_pre_rv w d w5 k P) as (Hk & R5).
    unfold Reg. rewrite rv_apply_invariants, R5. cbn [fst snd]. rewrite metas_of_app.
    unfold Reg, rv in Hr. cbn [fst snd] in Hr. rewrite Hr, map_length, Hk. reflexivity.
  - destruct (negb (is_live w k)); [discriminate|].
    destruct (class_getattr w k name) as [[kd f|g s dd|n]|]; try discriminate. destruct kd; try discriminate.
    destruct (apply_deco w f dc) as [[w1 f1]|e] eqn:A; cbn [bind fst snd] in H; [|discriminate]. injection H as <-.
    eapply Reg_rv; [|exact Hr]. rewrite rv_class_ns_set. pose proof (apply_deco_cr _ _ _ _ _ A) as C. unfold cr in C.
    injection C as C1 C2. unfold rv. rewrite C1, C2. reflexivity.
Qed.

Lemma Reg_fail w op : Reg w -> Reg (fail_def w op).
Proof.
  intro H. destruct op as [m|d|k name dc]; cbn [fail_def]; [exact H| |exact H].
  unfold Reg, rv in *. cbn [fst snd w_classes w_registered] in *. rewrite map_app. cbn [map dead_class co_meta].
  rewrite metas_of_app, app_nil_r. exact H.
Qed.

Theorem Reg_reachable : forall ops w, Reg w -> Reg (fst (run_defs w ops)).
Proof.
  induction ops as [|op rest IH]; intros w H; cbn [run_defs]; [exact H|].
  destruct (step_def w op) as [w'|e] eqn:S.
  - specialize (IH w' (Reg_step w op w' H S)). destruct (run_defs w' rest). exact IH.
  - specialize (IH (fail_def w op) (Reg_fail w op H)). destruct (run_defs (fail_def w op) rest). exact IH.
Qed.

(** in every reachable world: what was registered is exactly the meta classes, each once, in creation order *)
Theorem registered_are_the_meta_classes ops :
  let w := fst (run_defs empty_world ops) in
  w_registered w = filter (fun k => match get_class w k with Some c => co_meta c | None => false end)
                          (seq 0 (List.length (w_classes w))).
Proof.
  intro w. pose proof (Reg_reachable ops empty_world Reg_empty) as H. fold w in H.
  unfold Reg, rv, metas_of in H. cbn [fst snd] in H. rewrite map_length in H. rewrite H.
  apply filter_ext. intro k. unfold get_class.
  destruct (nth_error (w_classes w) k) as [c|] eqn:E.
  - rewrite (nth_error_nth (map co_meta (w_classes w)) k false (x := co_meta c)); [reflexivity|].
    rewrite nth_error_map, E. reflexivity.
  - rewrite nth_overflow; [reflexivity|]. rewrite map_length. apply nth_error_None. exact E.
Qed.
