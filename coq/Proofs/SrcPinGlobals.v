(** The source text against which the hand-written models were written, pinned (SkelPin*: the
    statement skeletons of the run-time wrappers; SrcPin*: every statement of the package, normalised by
    unparsing): a change in /repo breaks a lemma here; that is not by itself a violation - it makes the
    checks search for a failing input.
    (regenerate with harness/repin.py after reviewing the model against the new code) *)
From ICV Require Import Base Generated.
Open Scope string_scope.
Open Scope list_scope.


Definition pinned_src_globals : list string := [
  "aRepr = reprlib.Repr()";
  "aRepr.maxdict = 50";
  "aRepr.maxlist = 50";
  "aRepr.maxtuple = 50";
  "aRepr.maxset = 50";
  "aRepr.maxfrozenset = 50";
  "aRepr.maxdeque = 50";
  "aRepr.maxarray = 50";
  "aRepr.maxstring = 256";
  "aRepr.maxother = 256";
  "SLOW = __debug__ and os.environ.get('ICONTRACT_SLOW', '') != ''";
  "CallableT = TypeVar('CallableT', bound=Callable[..., Any])";
  "ClassT = TypeVar('ClassT', bound=type)";
  "ExceptionT = TypeVar('ExceptionT', bound=BaseException)"
].

Definition pinned_src_errors : list string := [
  "class ViolationError(AssertionError):"
].

Definition pinned_src_init : list string := [
  "__version__ = '2.7.1'";
  "__author__ = 'Marko Ristin'";
  "__copyright__ = 'Copyright 2019 Parquery AG'";
  "__license__ = 'MIT'";
  "__status__ = 'Production'";
  "require = icontract._decorators.require";
  "snapshot = icontract._decorators.snapshot";
  "ensure = icontract._decorators.ensure";
  "invariant = icontract._decorators.invariant";
  "aRepr = icontract._globals.aRepr";
  "SLOW = icontract._globals.SLOW";
  "DBCMeta = icontract._metaclass.DBCMeta";
  "DBC = icontract._metaclass.DBC";
  "_Contract = icontract._types.Contract";
  "_Snapshot = icontract._types.Snapshot";
  "ViolationError = icontract.errors.ViolationError";
  "InvariantCheckEvent = icontract._types.InvariantCheckEvent"
].

Lemma pinned_src_globals_ok : src_globals = pinned_src_globals.
Proof. vm_compute. reflexivity. Qed.

Lemma pinned_src_errors_ok : src_errors = pinned_src_errors.
Proof. vm_compute. reflexivity. Qed.

Lemma pinned_src_init_ok : src_init = pinned_src_init.
Proof. vm_compute. reflexivity. Qed.
