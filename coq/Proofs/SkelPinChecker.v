(** The source text against which the hand-written models were written, pinned (SkelPin*: the
    statement skeletons of the run-time wrappers; SrcPin*: every statement of the package, normalised by
    unparsing): a change in /repo breaks a lemma here; that is not by itself a violation - it makes the
    checks search for a failing input.
    (regenerate with harness/repin.py after reviewing the model against the new code) *)
From ICV Require Import Base Generated.
Open Scope string_scope.
Open Scope list_scope.


Definition pinned_checker : list string := [
  "kwargs_error = _assert_no_invalid_kwargs(kwargs=kwargs)";
  "if kwargs_error:";
  "    raise kwargs_error";
  "in_progress = _IN_PROGRESS.get()";
  "if id_func in in_progress:";
  "    return func(*args, **kwargs)";
  "try:";
  "    _IN_PROGRESS.set(in_progress | {id_func})";
  "    preconditions, snapshots, postconditions = _unpack_pre_snap_posts(wrapper=wrapper)";
  "    resolved_kwargs = kwargs_from_call(args=args, kwargs=kwargs, kwdefaults=kwdefaults, param_names=param_names)";
  "    type_error = _assert_resolved_kwargs_valid(postconditions=postconditions, resolved_kwargs=resolved_kwargs)";
  "    if type_error:";
  "        raise type_error";
  "    violation_error = _assert_preconditions(preconditions=preconditions, resolved_kwargs=resolved_kwargs)";
  "    if violation_error is not None:";
  "        raise violation_error";
  "    if postconditions and snapshots:";
  "        resolved_kwargs['OLD'] = _capture_old(resolved_kwargs=resolved_kwargs, snapshots=snapshots)";
  "    _IN_PROGRESS.set(in_progress)";
  "    result = func(*args, **kwargs)";
  "    _IN_PROGRESS.set(in_progress | {id_func})";
  "    if postconditions:";
  "        resolved_kwargs['result'] = result";
  "        violation_error = _assert_postconditions(postconditions=postconditions, resolved_kwargs=resolved_kwargs)";
  "        if violation_error is not None:";
  "            raise violation_error";
  "    return result";
  "finally:";
  "    _IN_PROGRESS.set(in_progress)"
].

Definition pinned_assert_preconditions : list string := [
  "exception = None";
  "for group in preconditions:";
  "    exception = None";
  "    for contract in group:";
  "        assert exception is None";
  "        condition_kwargs = select_condition_kwargs(contract=contract, resolved_kwargs=resolved_kwargs)";
  "        check = JUDGE(contract.condition, condition_kwargs)";
  "        if not_check(check=check, contract=contract):";
  "            exception = _create_violation_error(contract=contract, resolved_kwargs=resolved_kwargs)";
  "            break";
  "    if exception is None:";
  "        break";
  "return exception"
].

Definition pinned_capture_old : list string := [
  "old_as_mapping = dict()";
  "for snap in snapshots:";
  "    assert snap.name not in old_as_mapping";
  "    capture_kwargs = select_capture_kwargs(a_snapshot=snap, resolved_kwargs=resolved_kwargs)";
  "    old_as_mapping[snap.name] = JUDGE(snap.capture, capture_kwargs)";
  "return Old(mapping=old_as_mapping)"
].

Definition pinned_assert_postconditions : list string := [
  "assert 'result' in resolved_kwargs";
  "for contract in postconditions:";
  "    condition_kwargs = select_condition_kwargs(contract=contract, resolved_kwargs=resolved_kwargs)";
  "    check = JUDGE(contract.condition, condition_kwargs)";
  "    if not_check(check=check, contract=contract):";
  "        exception = _create_violation_error(contract=contract, resolved_kwargs=resolved_kwargs)";
  "        return exception";
  "return None"
].

Lemma pinned_checker_ok : skel_checker_sync = pinned_checker.
Proof. vm_compute. reflexivity. Qed.

Lemma pinned_assert_preconditions_ok : skel_assert_preconditions_sync = pinned_assert_preconditions.
Proof. vm_compute. reflexivity. Qed.

Lemma pinned_capture_old_ok : skel_capture_old_sync = pinned_capture_old.
Proof. vm_compute. reflexivity. Qed.

Lemma pinned_assert_postconditions_ok : skel_assert_postconditions_sync = pinned_assert_postconditions.
Proof. vm_compute. reflexivity. Qed.
