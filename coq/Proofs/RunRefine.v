(** C10: the marker kept in the context variable implements exactly the stack rule of
    Spec/RunRef.v - for every program, call, fuel, cancellation plan and every in-progress set
    that reflects the open frames. *)
From Coq Require Import List ZArith Bool Arith Lia.
From ICV Require Import Run RunRef RunProofs.
Import ListNotations.

Section Refine.
  Variable P : program.
  Variable plan : nat -> option Z.

  Definition obs {A} (m : prog A) (s : kset) (r : R A) : Prop := fst (run_seq plan m s) = r.

  Lemma obs_ret {A} (a : A) s : obs (Ret a) s (rret a).
  Proof. reflexivity. Qed.
  Lemma obs_raise {A} x s : obs (@raise_ A x) s (rraise x).
  Proof. reflexivity. Qed.

  Lemma obs_pbind {A B} (m : prog A) (f : A -> prog B) s r g :
    preserves plan m -> obs m s r -> (forall a, obs (f a) s (g a)) -> obs (pbind m f) s (rbind r g).
  Proof.
    unfold obs. intros Hp Hm Hf. rewrite run_seq_pbind.
    destruct (run_seq plan m s) as [[t [a|x]] s'] eqn:E; cbn in Hm; subst r; cbn.
    - apply Hp in E. subst s'. specialize (Hf a).
      destruct (run_seq plan (f a) s) as [[t' r'] s'']. cbn in Hf. rewrite <- Hf. reflexivity.
    - reflexivity.
  Qed.

  Lemma obs_emit {A} ev (k : prog A) s r : obs k s r -> obs (Emit ev k) s (remit ev r).
  Proof.
    unfold obs. cbn. destruct (run_seq plan k s) as [[t r0] s']. cbn. intros <-. reflexivity.
  Qed.

  Lemma obs_set {A} s0 (k : prog A) s r : obs k s0 r -> obs (SetP s0 k) s r.
  Proof. unfold obs. cbn. auto. Qed.

  Lemma obs_finally {A} (m : prog A) saved s r : obs m s r -> obs (finally_ m (SetP saved (Ret tt))) s r.
  Proof. unfold obs. rewrite run_seq_finally_obs. auto. Qed.

  (** preservation of the combinators (used to sequence phases) *)
  Section Pres.
    Variable run : script -> prog bool.
    Hypothesis Hrun : forall sc, preserves plan (run sc).

    Lemma preserves_conj mk l : forall i, preserves plan (run_conj run mk i l).
    Proof.
      induction l as [|sc rest IH]; intros i; cbn; [apply preserves_ret|].
      apply preserves_emit. apply preserves_pbind; [apply Hrun|].
      intros [|]; [apply IH | apply preserves_raise].
    Qed.
    Lemma preserves_all mk l : forall i, preserves plan (run_all run mk i l).
    Proof.
      induction l as [|sc rest IH]; intros i; cbn; [apply preserves_ret|].
      apply preserves_emit. apply preserves_pbind; [apply Hrun | intros _; apply IH].
    Qed.
    Lemma preserves_group f g l : forall i, preserves plan (run_group run f g i l).
    Proof.
      induction l as [|sc rest IH]; intros i; cbn; [apply preserves_ret|].
      apply preserves_emit. apply preserves_pbind; [apply Hrun|].
      intros [|]; [apply IH | apply preserves_ret].
    Qed.
    Lemma preserves_groups f gs : forall g, preserves plan (run_groups run f g gs).
    Proof.
      induction gs as [|grp rest IH]; intros g; cbn; [apply preserves_ret|].
      apply preserves_pbind; [apply preserves_group|].
      intros [x|]; [|apply preserves_ret]. destruct rest; [apply preserves_raise | apply IH].
    Qed.
  End Pres.

  Section Comb.
    Variables (run : script -> prog bool) (rrun : script -> R bool) (s : kset).
    Hypothesis Hp : forall sc, preserves plan (run sc).
    Hypothesis Ho : forall sc, obs (run sc) s (rrun sc).

    Lemma obs_conj mk l : forall i, obs (run_conj run mk i l) s (ref_conj rrun mk i l).
    Proof.
      induction l as [|sc rest IH]; intros i; cbn; [apply obs_ret|].
      apply obs_emit. apply obs_pbind; [apply Hp | apply Ho|].
      intros [|]; [apply IH | apply obs_raise].
    Qed.
    Lemma obs_all mk l : forall i, obs (run_all run mk i l) s (ref_all rrun mk i l).
    Proof.
      induction l as [|sc rest IH]; intros i; cbn; [apply obs_ret|].
      apply obs_emit. apply obs_pbind; [apply Hp | apply Ho | intros _; apply IH].
    Qed.
    Lemma obs_group f g l : forall i, obs (run_group run f g i l) s (ref_group rrun f g i l).
    Proof.
      induction l as [|sc rest IH]; intros i; cbn; [apply obs_ret|].
      apply obs_emit. apply obs_pbind; [apply Hp | apply Ho|].
      intros [|]; [apply IH | apply obs_ret].
    Qed.
    Lemma obs_groups f gs : forall g, obs (run_groups run f g gs) s (ref_groups rrun f g gs).
    Proof.
      induction gs as [|grp rest IH]; intros g; cbn; [apply obs_ret|].
      apply obs_pbind; [apply preserves_group; exact Hp | apply obs_group|].
      intros [x|]; [|apply obs_ret]. destruct rest; [apply obs_raise | apply IH].
    Qed.
  End Comb.

  Lemma obs_actions call rcall s :
    (forall t, preserves plan (call t)) -> (forall t, obs (call t) s (rcall t)) ->
    forall acts v, obs (run_actions call acts v) s (ref_actions plan rcall acts v).
  Proof.
    intros Hp Ho acts v. induction acts as [|a rest IH]; cbn.
    - destruct v; [apply obs_ret | apply obs_raise].
    - destruct a as [t|pt].
      + apply obs_pbind; [apply Hp | apply Ho | intros _; exact IH].
      + unfold obs. cbn. destruct (plan pt); [reflexivity | exact IH].
  Qed.

  (** the in-progress set reflects the open frames *)
  Definition reflects (s : kset) (stack : list frame) : Prop :=
    forall k, kmem k s = in_contract stack k.

  Lemma key_eqb_refl k : key_eqb k k = true.
  Proof. destruct k; cbn; apply Nat.eqb_refl. Qed.

  Lemma reflects_push_contract s stack k : reflects s stack -> reflects (k :: s) ((k, true) :: stack).
  Proof. intros H k'. cbn. rewrite H, andb_true_r. reflexivity. Qed.
  Lemma reflects_push_body s stack k : reflects s stack -> reflects s ((k, false) :: stack).
  Proof. intros H k'. cbn. rewrite H, andb_false_r. reflexivity. Qed.

  Theorem exec_refines_stack_rule fuel : forall t stack s,
    reflects s stack -> obs (exec P fuel t) s (ref_exec P plan fuel stack t).
  Proof.
    induction fuel as [|fuel IH]; intros t stack s Hr.
    - apply obs_raise.
    - cbn [exec ref_exec]. unfold dispatch.
      set (run := run_script (exec P fuel)).
      set (rrun := fun (st : list frame) (sc : script) => ref_actions plan (ref_exec P plan fuel st) (fst sc) (snd sc)).
      assert (forall sc, preserves plan (run sc)) as Hp.
      { intros sc. apply preserves_script. apply exec_preserves. }
      assert (forall s0 st sc, reflects s0 st -> obs (run sc) s0 (rrun st sc)) as Ho.
      { intros s0 st sc Hr0. apply obs_actions; [apply exec_preserves | intros t0; apply IH; exact Hr0]. }
      destruct t as [f | o m | o | o].
      + destruct (get_fn P f) as [fd|]; [|apply obs_raise].
        unfold call_fn, obs. cbn [run_seq]. rewrite <- (Hr (KF f)).
        destruct (kmem (KF f) s) eqn:Em.
        * apply obs_emit, obs_emit. apply Ho. apply reflects_push_body. exact Hr.
        * apply obs_set, obs_finally.
          pose proof (reflects_push_contract _ _ (KF f) Hr) as Hc.
          pose proof (reflects_push_body _ _ (KF f) Hr) as Hb.
          apply obs_pbind; [apply preserves_groups; exact Hp | apply obs_groups; [exact Hp | intros sc; apply Ho; exact Hc]|].
          intros _. apply obs_pbind.
          { destruct (fn_post fd); [apply preserves_ret | apply preserves_all; exact Hp]. }
          { destruct (fn_post fd); [apply obs_ret | apply obs_all; [exact Hp | intros sc; apply Ho; exact Hc]]. }
          intros _. apply obs_set, obs_emit.
          apply obs_pbind; [apply Hp | apply Ho; exact Hb|].
          intros rb. apply obs_set.
          apply obs_pbind; [apply preserves_conj; exact Hp | apply obs_conj; [exact Hp | intros sc; apply Ho; exact Hc] | intros _; apply obs_ret].
      + destruct (class_of P o) as [cd|]; [|apply obs_raise].
        destruct (nth_error (cl_meths cd) m) as [mbody|]; [|apply obs_raise].
        unfold call_meth, obs. cbn [run_seq]. rewrite <- (Hr (KO o)).
        destruct (kmem (KO o) s) eqn:Em.
        * apply obs_emit, obs_emit. apply Ho. apply reflects_push_body. exact Hr.
        * apply obs_set, obs_finally.
          pose proof (reflects_push_contract _ _ (KO o) Hr) as Hc.
          apply obs_pbind; [apply preserves_conj; exact Hp | apply obs_conj; [exact Hp | intros sc; apply Ho; exact Hc]|].
          intros _. apply obs_emit.
          apply obs_pbind; [apply Hp | apply Ho; exact Hc|].
          intros r. apply obs_pbind; [apply preserves_conj; exact Hp | apply obs_conj; [exact Hp | intros sc; apply Ho; exact Hc] | intros _; apply obs_ret].
      + destruct (class_of P o) as [cd|]; [|apply obs_raise].
        unfold call_init, obs. cbn [run_seq]. rewrite <- (Hr (KO o)).
        destruct (kmem (KO o) s) eqn:Em.
        * apply obs_emit, obs_emit. apply Ho. apply reflects_push_body. exact Hr.
        * apply obs_set, obs_finally.
          pose proof (reflects_push_contract _ _ (KO o) Hr) as Hc.
          apply obs_emit.
          apply obs_pbind; [apply Hp | apply Ho; exact Hc|].
          intros r. apply obs_pbind; [apply preserves_conj; exact Hp | apply obs_conj; [exact Hp | intros sc; apply Ho; exact Hc] | intros _; apply obs_ret].
      + destruct (class_of P o) as [cd|]; [|apply obs_raise].
        unfold call_new. apply obs_emit.
        apply obs_pbind; [apply Hp | apply Ho; exact Hr|].
        intros r. apply obs_pbind; [apply preserves_conj; exact Hp | apply obs_conj; [exact Hp | intros sc; apply Ho; exact Hr] | intros _; apply obs_ret].
  Qed.
End Refine.
